#!/usr/bin/env python3
"""Evaluate one seeded change:  tools/seed_eval.py <PROPERTY-ID> <seed worktree> <name> [check ids to run ...]

The worktree (made by a sub-agent that saw only the property text) holds the change in its working tree and
OUT/{patch.diff, run_demo.sh, demo.*, notes.md}.  Steps (everything confirmed here, nothing taken on trust):
  1. patch.diff applies cleanly to /repo HEAD (git apply --check) and equals the worktree's diff;
  2. the existing test suite passes in the worktree's own build with the change (ctest, serial re-run of failures);
  3. the demonstration fails with the change and passes on the unchanged library (/repo/_build);
  4. the registered checks named on the command line (default: the property's own) are run against the changed tree
     (VERIF_REPO=<worktree>: same sources as `git -C /repo apply patch.diff`, without disturbing other users of /repo);
  5. everything is stored under /verif/seeded/<name>/ with meta.json.
"""
import json
import os
import re
import shutil
import subprocess
import sys
import time

ROOT = os.path.dirname(os.path.dirname(os.path.abspath(__file__)))


def sh(cmd, **kw):
    return subprocess.run(cmd, shell=isinstance(cmd, str), stdout=subprocess.PIPE, stderr=subprocess.STDOUT, text=True, **kw)


def main():
    pid, wt, name = sys.argv[1], sys.argv[2].rstrip("/"), sys.argv[3]
    checks = sys.argv[4:] or [pid]
    out = os.path.join(wt, "OUT")
    meta = {"property": pid, "name": name, "worktree": wt, "evaluated_at": time.strftime("%Y-%m-%d %H:%M:%S"), "steps": {}}
    patch = os.path.join(out, "patch.diff")
    # 1. patch
    d = sh("git -C %s diff -- src" % wt).stdout
    if not os.path.exists(patch) or not open(patch).read().strip():
        open(patch, "w").write(d)
    r = sh("git -C /repo apply --check %s" % patch)
    meta["steps"]["applies_to_repo_head"] = r.returncode == 0
    meta["steps"]["apply_check_output"] = r.stdout[-500:]
    meta["patch_lines_changed"] = sum(1 for l in open(patch) if re.match(r"^[+-](?![+-])", l))
    # 2. test suite with the change
    b = os.path.join(wt, "_build")
    if not os.path.exists(os.path.join(b, "build.ninja")):
        sh("cmake -G Ninja -S %s -B %s -DCMAKE_BUILD_TYPE=RelWithDebInfo -DBUILD_TESTING=ON -DFETCHCONTENT_SOURCE_DIR_GOOGLETEST=/usr/src/googletest" % (wt, b))
    r = sh("cmake --build %s -j8" % b)
    meta["steps"]["builds"] = r.returncode == 0
    sh("ctest --test-dir %s -j4 --timeout 900" % b)
    r2 = sh("ctest --test-dir %s -j1 --timeout 900 --rerun-failed" % b)
    m = re.search(r"(\d+)% tests passed, (\d+) tests failed out of (\d+)", r2.stdout)
    meta["steps"]["suite_after_serial_rerun"] = m.group(0) if m else r2.stdout[-300:]
    meta["steps"]["suite_passes"] = bool(m and m.group(2) == "0") or "No tests were found" in r2.stdout
    # 3. demo with / without
    demo = os.path.join(out, "run_demo.sh")
    if os.path.exists(demo):
        r = sh("bash %s %s %s" % (demo, b, wt), cwd=out, timeout=1800)
        meta["steps"]["demo_with_change_rc"] = r.returncode
        meta["steps"]["demo_with_change_tail"] = r.stdout[-600:]
        r = sh("bash %s /repo/_build /repo" % demo, cwd=out, timeout=1800)
        meta["steps"]["demo_unchanged_rc"] = r.returncode
        meta["steps"]["demo_unchanged_tail"] = r.stdout[-600:]
    else:
        meta["steps"]["demo_with_change_rc"] = None
    # 4. checks against the changed tree
    res = {}
    env = dict(os.environ, VERIF_REPO=wt)
    for c in checks:
        for tier in ("quick",):
            t0 = time.time()
            r = subprocess.run(["./check", c, tier], cwd=ROOT, env=env, stdout=subprocess.PIPE, stderr=subprocess.STDOUT, text=True)
            fps = re.findall(r"^\s+fingerprint: (.*)$", r.stdout, re.M)
            res["%s %s" % (c, tier)] = {"exit": r.returncode, "violations": len(re.findall(r"^VIOLATION ", r.stdout, re.M)), "fingerprints": fps[:12],
                                        "summary": (re.findall(r"^%s %s: .*$" % (c, tier), r.stdout, re.M) or [r.stdout[-400:]])[-1], "wall_s": round(time.time() - t0, 1)}
    meta["checks"] = res
    meta["detected_by"] = sorted(k for k, v in res.items() if v["exit"] == 1 and v["violations"] > 0)
    # 5. store
    dst = os.path.join(ROOT, "seeded", name)
    os.makedirs(dst, exist_ok=True)
    for f in os.listdir(out):
        p = os.path.join(out, f)
        if os.path.isfile(p) and os.path.getsize(p) < 2_000_000 and not os.access(p, os.X_OK) or f.endswith(".sh"):
            shutil.copy(p, os.path.join(dst, f))
    notes = os.path.join(out, "notes.md")
    meta["needs_to_manifest"] = open(notes).read()[:3000] if os.path.exists(notes) else ""
    json.dump(meta, open(os.path.join(dst, "meta.json"), "w"), indent=1)
    print(json.dumps({k: meta[k] for k in ("property", "name", "detected_by", "patch_lines_changed")}, indent=1))
    print(json.dumps(meta["steps"], indent=1)[:1500])
    print(json.dumps(res, indent=1)[:3000])


if __name__ == "__main__":
    main()
