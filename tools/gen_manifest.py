#!/usr/bin/env python3
"""Regenerate MANIFEST.json from tools/manifest_src.json (claimed checks) + properties.jsonl (everything not claimed
goes to not_applicable with its recorded reason).  Validates against the schema."""
import json, os, sys
ROOT = os.path.dirname(os.path.dirname(os.path.abspath(__file__)))
src = json.load(open(os.path.join(ROOT, "tools", "manifest_src.json")))
props = [json.loads(l) for l in open(os.path.join(ROOT, "properties.jsonl")) if l.strip()]
checks = []
claimed = set()
for pid, c in sorted(src["checks"].items()):
    claimed.add(pid)
    checks.append({
        "property_id": pid,
        "quick_cmd": "./check %s quick" % pid,
        "thorough_cmd": "./check %s thorough" % pid,
        "evidence_file": "/verif/evidence/%s.json" % pid,
        "replay_cmd_template": "./check %s --replay {path}" % pid,
        "engine": c.get("engine", "mc-explorer"),
        "level_claimed": {"category": "model_checking", "text": c["text"], "design_ref": c.get("design_ref", "DESIGN.md section 4 (%s)" % pid)},
        "level_note": c["note"],
        "technique": c["technique"],
    })
na = []
for p in props:
    if p["id"] not in claimed:
        na.append({"property_id": p["id"], "reason": src["not_applicable"].get(p["id"], "check not built yet in this round; planned as bounded exhaustive exploration (DESIGN.md section 4)")})
m = {
    "version": 1,
    "setup_cmd": "./setup.sh",
    "hooks": src["hooks"],
    "engines": src["engines"],
    "checks": checks,
    "notes": src["notes"],
    "not_applicable": na,
}
try:
    import jsonschema
    jsonschema.validate(m, json.load(open("/root/.vp/MANIFEST.schema.json")))
except ImportError:
    print("jsonschema not available; not validated", file=sys.stderr)
json.dump(m, open(os.path.join(ROOT, "MANIFEST.json"), "w"), indent=1)
print("MANIFEST.json: %d checks, %d not_applicable" % (len(checks), len(na)))
