#!/usr/bin/env python3
"""Rewrites the table between the SEEDTABLE markers of DESIGN.md from seeded/*/meta.json."""
import json, os, re, glob
ROOT = os.path.dirname(os.path.dirname(os.path.abspath(__file__)))
rows = []
for f in sorted(glob.glob(os.path.join(ROOT, "seeded", "*", "meta.json"))):
    m = json.load(open(f))
    notes = m.get("needs_to_manifest", "")
    title = next((l.strip("# ").strip() for l in notes.splitlines() if l.strip().startswith("#")), "")
    title = re.sub(r"^(Seed\s+)?%s:?\s*" % re.escape(m["name"]), "", title).strip()
    det = []
    for k, v in sorted(m.get("checks", {}).items()):
        if v["exit"] == 1 and v["violations"] > 0:
            det.append("%s: `%s`%s" % (k, v["fingerprints"][0][:90] if v["fingerprints"] else "?", " (+%d)" % (v["violations"] - 1) if v["violations"] > 1 else ""))
        else:
            det.append("%s: not detected" % k)
    st = m.get("steps", {})
    ok = "suite %s; demo %s/%s" % ("passes" if st.get("suite_passes") else "FAILS", st.get("demo_with_change_rc"), st.get("demo_unchanged_rc"))
    rows.append("| %s | %s | %s | %s | %s |" % (m["name"], m["property"], title[:110].replace("|", "/"), ok, "; ".join(det).replace("|", "/")))
table = "| seed | property | change | confirmed (suite with change; demo rc with/without) | caught by |\n|---|---|---|---|---|\n" + "\n".join(rows) + "\n"
p = os.path.join(ROOT, "DESIGN.md")
s = open(p).read()
a, b = "<!-- SEEDTABLE-BEGIN -->\n", "<!-- SEEDTABLE-END -->\n"
if a in s:
    s = s[:s.index(a) + len(a)] + table + s[s.index(b):]
else:
    s += "\n### 9.4 Independent seeded changes\n\nEach change was written by a sub-agent that saw only the property text and a scratch worktree (nothing from /verif),\nthen confirmed here with `tools/seed_eval.py`: the patch applies to /repo HEAD, the existing suite passes with it, the agent's\ndemonstration fails with it and passes without it, and the registered check is run against the changed tree\n(`tools/seed_recheck.py` re-runs that step from the stored patch).  `seeded/<name>/` holds patch.diff, the demonstration,\nnotes.md and meta.json.  Where a check missed a seed it was strengthened (noted per row in 9.5).\n\n" + a + table + b
open(p, "w").write(s)
print(table)
