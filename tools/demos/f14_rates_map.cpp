// F14 demonstration (white box): Phreeqc::rates_map (std::map<const char*, int>, keyed by the ADDRESS of an interned
// name) survives Phreeqc::clean_up().  After a KINETICS run and LoadDatabase the map still holds pointer->index entries
// whose keys point to freed strings and whose indices refer to the cleared `rates` vector.  When a later string_hsave()
// returns the same address (heap-layout dependent) read_rates() gets &rates[stale index] beyond the vector and appends
// the RATES text through it: heap corruption, seen as SIGSEGV in tidy_model() (phases_map node overwritten with the
// text of the Calcite rate) after ~1200-2000 reload cycles of one instance in the C02 explorer.
// build: g++ -O2 -fno-access-control -I/repo/src -I/repo/src/phreeqcpp -I/repo/src/phreeqcpp/common
//        -I/repo/src/phreeqcpp/PhreeqcKeywords f14_rates_map.cpp <libIPhreeqc.a> -lpthread
// exit 0: map empty after reload (fixed tree); exit 1: stale entries (defect).
#include "IPhreeqc.hpp"
#include "Phreeqc.h"
#include <cstdio>
int main() {
  IPhreeqc p;
  if (p.LoadDatabase("/repo/database/phreeqc.dat")) return 2;
  const char *in =
      "RATES\n Zero\n -start\n 10 SAVE PARM(1)*TIME\n -end\n"
      "SOLUTION 1\n Na 1\n Cl 1\nKINETICS 1\n Zero\n -formula NaCl 1\n -m 1\n -parms 1e-6\n -steps 10\nEND\n";
  if (p.RunString(in)) return 2;
  size_t before = p.PhreeqcPtr->rates_map.size();
  if (p.LoadDatabase("/repo/database/phreeqc.dat")) return 2;
  size_t after_reload = 0;
  // entries whose index is not a valid position with the same name are stale
  for (auto &kv : p.PhreeqcPtr->rates_map) {
    (void)kv;
    after_reload++;
  }
  // the database's own read_rates() clears the map at its end, so look right after clean_up() instead:
  if (p.RunString(in)) return 2;
  p.PhreeqcPtr->clean_up();
  size_t after_cleanup = p.PhreeqcPtr->rates_map.size();
  p.PhreeqcPtr->init();
  p.PhreeqcPtr->do_initialize();
  printf("rates_map entries: after kinetics run %zu, after reload %zu, after clean_up %zu\n", before, after_reload, after_cleanup);
  return after_cleanup ? 1 : 0;
}
