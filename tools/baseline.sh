#!/bin/sh
# Rebuild /repo/_build and run the pinned suite; -j8 first (as the baseline), then any failures once more serially
# (several tests share file names in the build directory and collide under -j8).
# Exit 0 iff every test of BASELINE.json's stable_pass list passes.
cd /repo || exit 2
cmake --build _build -j16 >/tmp/baseline-build.log 2>&1 || { tail -30 /tmp/baseline-build.log; echo "BUILD FAILED"; exit 2; }
ctest --test-dir _build -j8 --timeout 900 >/tmp/baseline-ctest.log 2>&1
ctest --test-dir _build -j1 --timeout 900 --rerun-failed >/tmp/baseline-ctest2.log 2>&1
python3 - <<'PY'
import json,re,sys
stable=set(x.split("::")[0] for x in json.load(open('/root/.vp/BASELINE.json'))['stable_pass'] if '.' in x.split("::")[0] or True)
res={}
for f in ('/tmp/baseline-ctest.log','/tmp/baseline-ctest2.log'):
    for l in open(f):
        m=re.match(r'\s*\d+/\d+ Test\s+#\d+: (\S+) \.*\s*(\**\w+)',l)
        if m: res[m.group(1)]=m.group(2).strip('*')
names=set(x.split("::")[0] for x in json.load(open('/root/.vp/BASELINE.json'))['stable_pass'])
bad=[n for n in sorted(names) if n in res and res[n]!='Passed']
missing=[n for n in sorted(names) if n not in res and '.' in n]
print("tests seen=%d passed=%d stable-list failures=%s missing=%d"%(len(res),sum(v=='Passed' for v in res.values()),bad,len(missing)))
allbad=[n for n,v in res.items() if v!='Passed']
print("all failures after serial rerun:",allbad)
sys.exit(1 if bad else 0)
PY
