#!/usr/bin/env python3-vt
"""Characterise once, on the pinned tree, what every C / *F function returns for an id that is not live, and freeze it in
data/c13/invalid.json.  'documented' is true where IPhreeqc.h names IPQ_BADINSTANCE in the function's doc comment."""
import json, os, re, sys
sys.path.insert(0, os.path.dirname(os.path.dirname(os.path.abspath(__file__))))
from mc import drv
INT0 = ["GetComponentCount","GetCurrentSelectedOutputUserNumber","GetDumpFileOn","GetDumpStringLineCount","GetDumpStringOn","GetErrorFileOn","GetErrorOn",
 "GetErrorStringLineCount","GetErrorStringOn","GetLogFileOn","GetLogStringLineCount","GetLogStringOn","GetOutputFileOn","GetOutputStringLineCount","GetOutputStringOn",
 "GetSelectedOutputColumnCount","GetSelectedOutputCount","GetSelectedOutputFileOn","GetSelectedOutputRowCount","GetSelectedOutputStringLineCount","GetSelectedOutputStringOn",
 "GetWarningStringLineCount","RunAccumulated","ClearAccumulatedLines"]
NAMES = ["GetDumpFileName","GetErrorFileName","GetLogFileName","GetOutputFileName","GetSelectedOutputFileName"]
STRS = ["GetDumpString","GetErrorString","GetLogString","GetOutputString","GetSelectedOutputString","GetWarningString"]
STR1 = ["GetComponent","GetDumpStringLine","GetErrorStringLine","GetLogStringLine","GetOutputStringLine","GetSelectedOutputStringLine","GetWarningStringLine"]
SETB = ["SetDumpFileOn","SetDumpStringOn","SetErrorFileOn","SetErrorOn","SetErrorStringOn","SetLogFileOn","SetLogStringOn","SetOutputFileOn","SetOutputStringOn","SetSelectedOutputFileOn","SetSelectedOutputStringOn"]
SARG = {"AccumulateLine":"x","AddError":"x","AddWarning":"x","LoadDatabase":"nofile.dat","LoadDatabaseString":"","RunFile":"nofile.in","RunString":"",
 "SetDumpFileName":"a","SetErrorFileName":"a","SetLogFileName":"a","SetOutputFileName":"a","SetSelectedOutputFileName":"a"}
hdr = open("/repo/src/IPhreeqc.h").read()
def documented(fn):
    m = re.search(r"/\*\*((?:(?!\*/).)*?)\*/\s*IPQ_DLL_EXPORT [^;]*\b%s\(" % fn, hdr, re.S)
    return bool(m and "IPQ_BADINSTANCE" in m.group(1))
d = drv.Drv()
d.new("c")
tab = {"c": {}, "f": {}}
def norm(g):
    if isinstance(g, dict) and "s" in g and "rc" not in g: return {"s": g["s"].rstrip(" #"), "len": g["len"]}
    if isinstance(g, dict) and "rc" in g: return {"rc": g["rc"], "type": g["type"]}
    return g
def add(b, fn, args):
    r1 = norm(d.call("i-1", b, fn, *args)); r2 = norm(d.call("i777", b, fn, *args))
    assert r1 == r2, (fn, r1, r2)
    tab[b][fn] = {"args": args, "result": r1, "documented": documented(fn)}
for fn in INT0: add("c", fn, []); add("f", fn, [])
for fn in NAMES: add("c", fn, []); add("f", fn, [40])
for fn in STRS: add("c", fn, [])
for fn in STR1: add("c", fn, [0]); add("f", fn, [1, 40])
add("c","GetNthSelectedOutputUserNumber",[0]); add("f","GetNthSelectedOutputUserNumber",[1])
add("c","SetCurrentSelectedOutputUserNumber",[1]); add("f","SetCurrentSelectedOutputUserNumber",[1])
for fn in SETB: add("c", fn, [1]); add("f", fn, [1])
for fn, a in SARG.items(): add("c", fn, [a]); add("f", fn, [a])
add("c","GetSelectedOutputValue",[0,0]); add("c","GetSelectedOutputValue2",[0,0]); add("f","GetSelectedOutputValueF",[0,1])
json.dump(tab, open("data/c13/invalid.json","w"), indent=1, sort_keys=True)
print(len(tab["c"]), len(tab["f"]), sum(v["documented"] for v in tab["c"].values()))
for fn,v in sorted(tab["c"].items()): print(fn, v["result"], v["documented"])
