#!/usr/bin/env python3
"""Re-run registered checks against a stored seeded change:  tools/seed_recheck.py <name> [check ids ...] [--tier quick|thorough]

Makes a scratch worktree of /repo HEAD under /tmp, applies seeded/<name>/patch.diff (same sources as
`git -C /repo apply`), runs the checks with VERIF_REPO pointing at it, updates seeded/<name>/meta.json
(checks, detected_by) and removes the worktree and its build directories again.
"""
import hashlib
import json
import os
import re
import shutil
import subprocess
import sys
import time

ROOT = os.path.dirname(os.path.dirname(os.path.abspath(__file__)))


def main():
    args = [a for a in sys.argv[1:]]
    tier = "quick"
    if "--tier" in args:
        i = args.index("--tier")
        tier = args[i + 1]
        del args[i:i + 2]
    name = args[0]
    d = os.path.join(ROOT, "seeded", name)
    meta = json.load(open(os.path.join(d, "meta.json")))
    checks = args[1:] or [meta["property"]]
    wt = "/tmp/seedchk-%s" % name
    subprocess.run(["git", "-C", "/repo", "worktree", "remove", "--force", wt], stdout=subprocess.DEVNULL, stderr=subprocess.DEVNULL)
    subprocess.run(["git", "-C", "/repo", "worktree", "add", "--detach", wt, "HEAD"], check=True, stdout=subprocess.DEVNULL, stderr=subprocess.DEVNULL)
    try:
        r = subprocess.run(["git", "-C", wt, "apply", os.path.join(d, "patch.diff")], stdout=subprocess.PIPE, stderr=subprocess.STDOUT, text=True)
        if r.returncode != 0:
            print("patch does not apply to /repo HEAD:\n" + r.stdout)
            return 2
        env = dict(os.environ, VERIF_REPO=wt)
        res = meta.get("checks", {})
        for c in checks:
            t0 = time.time()
            r = subprocess.run(["./check", c, tier], cwd=ROOT, env=env, stdout=subprocess.PIPE, stderr=subprocess.STDOUT, text=True)
            fps = re.findall(r"^\s+fingerprint: (.*)$", r.stdout, re.M)
            res["%s %s" % (c, tier)] = {"exit": r.returncode, "violations": len(re.findall(r"^VIOLATION ", r.stdout, re.M)), "fingerprints": fps[:12],
                                        "summary": (re.findall(r"^%s %s: .*$" % (c, tier), r.stdout, re.M) or [r.stdout[-400:]])[-1], "wall_s": round(time.time() - t0, 1),
                                        "at": time.strftime("%Y-%m-%d %H:%M:%S")}
            print(c, tier, "exit", r.returncode, "violations", res["%s %s" % (c, tier)]["violations"], fps[:4])
        meta["checks"] = res
        meta["detected_by"] = sorted(k for k, v in res.items() if v["exit"] == 1 and v["violations"] > 0)
        json.dump(meta, open(os.path.join(d, "meta.json"), "w"), indent=1)
    finally:
        tag = "-" + hashlib.sha1(os.path.realpath(wt).encode()).hexdigest()[:8]
        subprocess.run(["git", "-C", "/repo", "worktree", "remove", "--force", wt], stdout=subprocess.DEVNULL, stderr=subprocess.DEVNULL)
        for f in os.listdir(os.path.join(ROOT, "build")):
            if f.endswith(tag):
                p = os.path.join(ROOT, "build", f)
                shutil.rmtree(p, ignore_errors=True) if os.path.isdir(p) else os.remove(p)
    return 0


if __name__ == "__main__":
    sys.exit(main())
