#!/bin/sh
# tools/run_all.sh quick|thorough [IDs...] : runs the registered checks one after another, one summary line each
cd "$(dirname "$0")/.." || exit 2
tier=${1:-quick}; shift
ids=${*:-$(python3 -c "import json;print(' '.join(c['property_id'] for c in json.load(open('MANIFEST.json'))['checks']))")}
mkdir -p build/logs
for p in $ids; do
  t0=$(date +%s)
  ./check $p $tier > build/logs/$p.$tier.log 2>&1
  rc=$?
  echo "$p $tier exit=$rc wall=$(( $(date +%s) - t0 ))s $(grep -E "^$p $tier:" build/logs/$p.$tier.log | cut -c1-220)"
done
