"""Small conveniences on top of drv.Drv for checks that mostly run PHREEQC input and read tables."""
import os

from . import build, core

DBDIR = os.path.join(build.REPO, "database")


def dbpath(name):
    return name if os.path.isabs(name) else os.path.join(DBDIR, name)


class Session:
    """One instance (slot 0) in the calling process's cached driver with a database loaded.
    load() re-loads (= returns the instance to the fresh state, property C07) - 5..50 ms depending on the database."""

    def __init__(self, db, variant="rel", fresh_process=False, dbstring=None):
        self.d = core.fresh_drv(variant) if fresh_process else core.get_drv(variant)
        self.db = db
        self.dbstring = dbstring
        self.d.reset()
        self.d.new("c")
        self.load()

    def load(self):
        if self.dbstring is not None:
            rc = self.d.call("s0", "c", "LoadDatabaseString", self.dbstring)
        else:
            rc = self.d.call("s0", "c", "LoadDatabase", dbpath(self.db))
        if rc != 0:
            raise RuntimeError("database %s does not load: %s" % (self.db, self.d.call("s0", "c", "GetErrorString")[:500]))

    def run(self, text, strings="", timeout=None):
        """Run input text; returns dict(rc, err, warn, sel={n: rows(list of dict heading->value)}, heads={n: [..]},
        plus 'out' / 'dump' when requested via strings='o' / 'd' (switches are turned on for that)."""
        d = self.d
        if "o" in strings:
            d.call("s0", "c", "SetOutputStringOn", 1)
        if "d" in strings:
            d.call("s0", "c", "SetDumpStringOn", 1)
        rc = d.call("s0", "c", "RunString", text, timeout=timeout)
        if isinstance(rc, dict):          # exit() was called inside the library
            return {"rc": None, "exit": rc["exit"], "err": "", "warn": "", "sel": {}, "heads": {}}
        # error/warning strings first: reading table cells (GetSelectedOutputValue) resets the error reporter
        res = {"rc": rc, "err": d.call("s0", "c", "GetErrorString"), "warn": d.call("s0", "c", "GetWarningString"), "sel": {}, "heads": {}}
        o = d.obs("s0", "c", "t")
        for n, e in o["sel"].items():
            t = e["table"]
            if t:
                res["heads"][int(n)] = t[0]
                res["sel"][int(n)] = [dict(zip(t[0], [c["l"] if isinstance(c, dict) and "l" in c else c for c in r])) for r in t[1:]]
            else:
                res["heads"][int(n)] = []
                res["sel"][int(n)] = []
        if "o" in strings:
            res["out"] = d.call("s0", "c", "GetOutputString")
        if "d" in strings:
            res["dump"] = d.call("s0", "c", "GetDumpString")
        return res


_sessions = {}


def session(db, variant="rel", reload=False, dbstring=None):
    """Per-process cached Session for (db, variant).  reload=True reloads the database first (fresh engine state)."""
    key = (db, variant, core.sha(dbstring) if dbstring else None)
    s = _sessions.get(key)
    if s is None or s.d.proc is None or s.d is not core._drvs.get((variant, False)):
        # one instance per driver: a different database in the same driver replaces the previous session
        for k in list(_sessions):
            if k[1] == variant:
                del _sessions[k]
        s = Session(db, variant, dbstring=dbstring)
        _sessions[key] = s
    elif reload:
        s.load()
    return s
