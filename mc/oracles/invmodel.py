"""Independent re-verification of PHREEQC inverse (mole-balance) models - property C18.

Everything here is written from the INVERSE_MODELING description in the PHREEQC manual and from the database *text*:

  for every element e (valence states of one element summed, which eliminates the redox mole transfers)

      sum_{q initial} f_q (c_qe + d_qe)  +  sum_p t_p nu_pe  =  f_final (c_fe + d_fe),        f_final = 1
      |d_qe| <= u_qe |c_qe|   (u > 0: fractional)      |d_qe| <= |u_qe|   (u < 0: absolute, mol)
      |d_pH| <= u_pH (default 0.05), default u = 0.05, lists shorter than the number of solutions repeat their last entry,
      f_q >= 0, dissolve-only t_p >= 0, precipitate-only t_p <= 0, min <= value <= max (with -range),
      -minimal: no reported set of (phases + solutions) strictly contains another reported set.

Inputs of the oracle are (a) the *problem specification* from which the input text was rendered (so the concentrations
are the numbers in the input text, not an engine read-out), (b) phase stoichiometry parsed from the database text with
the formula parser below, (c) what the library reported: the selected-output string rows (12 significant digits) and the
printed Input / Delta / Input+Delta tables of the output string (4 significant digits).
"""
import math
import re

# ----------------------------------------------------------------------------------------------- formulas
_TOK = re.compile(r"([A-Z][a-z]*)|(\()|(\))|(\d*\.\d+|\d+\.?\d*)|(:)")


def parse_formula(f):
    """'CaSO4:2H2O' -> {'Ca':1,'S':1,'O':6,'H':4}.  Handles ( ), decimal subscripts ('Ca.75'), ':' hydrate parts with a
    leading multiplier, and a trailing charge (+2, -, -2)."""
    f = f.strip()
    m = re.search(r"[+-]\d*\.?\d*$", f)
    if m and m.start() > 0:
        f = f[:m.start()]
    total = {}
    for part in f.split(":"):
        mult = 1.0
        m = re.match(r"(\d*\.\d+|\d+\.?\d*)", part)
        if m:
            mult = float(m.group(1))
            part = part[m.end():]
        stack = [{}]
        pos = 0
        last = None          # ('el', name) or ('grp', dict)
        while pos < len(part):
            m = _TOK.match(part, pos)
            if not m:
                raise ValueError("cannot parse formula %r at %r" % (f, part[pos:]))
            pos = m.end()
            if m.group(1):
                stack[-1][m.group(1)] = stack[-1].get(m.group(1), 0.0) + 1.0
                last = ("el", m.group(1))
            elif m.group(2):
                stack.append({})
                last = None
            elif m.group(3):
                grp = stack.pop()
                for k, v in grp.items():
                    stack[-1][k] = stack[-1].get(k, 0.0) + v
                last = ("grp", grp)
            elif m.group(4):
                n = float(m.group(4))
                if last is None:
                    raise ValueError("subscript without element in %r" % f)
                if last[0] == "el":
                    stack[-1][last[1]] = (stack[-1][last[1]] - 1.0) + n
                else:
                    for k, v in last[1].items():
                        stack[-1][k] = (stack[-1][k] - v) + v * n
                last = None
        if len(stack) != 1:
            raise ValueError("unbalanced parentheses in %r" % f)
        for k, v in stack[0].items():
            total[k] = total.get(k, 0.0) + mult * v
    return total


def _logical_lines(text):
    buf = ""
    for raw in text.splitlines():
        line = raw.split("#", 1)[0].rstrip()
        if line.endswith("\\"):
            buf += line[:-1] + " "
            continue
        line = buf + line
        buf = ""
        for part in line.split(";"):
            if part.strip():
                yield part.strip()


_KEYWORDS = ("SOLUTION_MASTER_SPECIES", "SOLUTION_SPECIES", "PHASES", "EXCHANGE_MASTER_SPECIES", "EXCHANGE_SPECIES",
             "SURFACE_MASTER_SPECIES", "SURFACE_SPECIES", "RATES", "END", "PITZER", "SIT", "NAMED_EXPRESSIONS",
             "CALCULATE_VALUES", "ISOTOPES", "ISOTOPE_RATIOS", "ISOTOPE_ALPHAS", "LLNL_AQUEOUS_MODEL_PARAMETERS",
             "MEAN_GAMMAS", "GAS_BINARY_PARAMETERS", "SELECTED_OUTPUT", "USER_PUNCH", "SOLUTION", "INVERSE_MODELING")


def _species_side(side):
    """'Ca+2 + 2 X-' -> [(1.0,'Ca+2'),(2.0,'X-')]"""
    out = []
    for term in re.split(r"\s\+\s|^\+\s", " " + side.strip() + " "):
        term = term.strip()
        if not term:
            continue
        m = re.match(r"(\d*\.\d+|\d+\.?\d*)\s*(.*)$", term)
        if m and m.group(2) and re.match(r"[A-Z(\[e]", m.group(2)):
            out.append((float(m.group(1)), m.group(2).strip()))
        else:
            out.append((1.0, term))
    return out


def phases_from_text(text):
    """name -> element dict for every PHASES entry (the defined formula = first species of the left-hand side) and
    every EXCHANGE_SPECIES product (usable as an inverse-modelling 'phase')."""
    out = {}
    block = None
    pending = None
    for line in _logical_lines(text):
        first = line.split()[0]
        if first.upper() in _KEYWORDS:
            block = first.upper()
            pending = None
            continue
        if block == "PHASES":
            if "=" in line and not line.startswith("-") and pending is not None:
                lhs = _species_side(line.split("=", 1)[0])
                out[pending] = parse_formula(lhs[0][1])
                pending = None
            elif "=" not in line and not line.startswith("-") and not re.match(r"(log_k|delta_h|analytic|Vm|T_c|P_c|Omega|\d)", first, re.I):
                pending = first
        elif block == "EXCHANGE_SPECIES":
            if "=" in line and not line.startswith("-"):
                rhs = _species_side(line.split("=", 1)[1])
                if len(rhs) == 1:
                    name = rhs[0][1]
                    if not re.search(r"[+-]\d*$", name):
                        out.setdefault(name, parse_formula(name))
    return out


def element_of(row_name):
    """'C(4)' -> 'C', 'S(-2)' -> 'S', 'Ca' -> 'Ca'."""
    return row_name.split("(", 1)[0]


# ----------------------------------------------------------------------------------------------- reading the reports
def parse_sel_string(s):
    """Selected-output string of an inverse-modelling block -> (headings, [row dict heading->float])."""
    lines = [l for l in s.split("\n") if l.strip()]
    if not lines:
        return [], []
    heads = [h.strip() for h in lines[0].split("\t") if h.strip()]
    rows = []
    for l in lines[1:]:
        cells = [c.strip() for c in l.split("\t") if c.strip()]
        if cells and cells[0] == heads[0]:
            continue                      # a repeated heading line
        rows.append(dict(zip(heads, [float(c) for c in cells])) if len(cells) == len(heads) else {"_bad": l})
    return heads, rows


_NUM = r"([-+]?\d\.\d+e[-+]\d+|[-+]?\d+\.?\d*(?:e[-+]?\d+)?|[-+]?nan|[-+]?inf)"
_ROW3 = re.compile(r"^\s*(\S+)\s+" + _NUM + r"\s+\+\s*" + _NUM + r"\s+=\s*" + _NUM + r"\s*$")
_FRAC = re.compile(r"^\s*Solution\s+(\d+)\s+" + _NUM + r"\s+" + _NUM + r"\s+" + _NUM + r"\s*$")
_PHASE = re.compile(r"^\s*(\S+)\s+" + _NUM + r"\s+" + _NUM + r"\s+" + _NUM + r"\s+(\S+)\s+\(")
_REDOX = re.compile(r"^\s*(\S+)\s+" + _NUM + r"\s*$")


def parse_output_models(out):
    """Printed models of the output string, in print order."""
    i = out.find("Beginning of inverse modeling")
    if i < 0:
        return []
    j = out.find("Summary of inverse modeling", i)
    text = out[i:j if j > 0 else len(out)]
    models = []
    cur = None
    sect = None
    soln = None
    pending = {"range_err": 0, "roundoff": 0, "bare": 0, "minimal_warn": 0}
    ro_open = False        # a 'CL1: Roundoff errors' message not yet attributed to range() or to a model solve
    for line in text.split("\n"):
        if "Error in subroutine range" in line:
            pending["range_err"] += 1
            ro_open = False                      # the message came from a cl1 call inside range()
        elif "CL1: Roundoff errors" in line:
            if ro_open:
                pending["bare"] += 1
            pending["roundoff"] += 1
            ro_open = True
        elif ro_open and line.strip() and "Try using -multiple_precision" not in line:
            pending["bare"] += 1                 # not followed by the range() complaint: a model solve failed
            ro_open = False
        if "Roundoff errors in minimal calculation" in line:
            pending["minimal_warn"] += 1
        m = re.match(r"^Solution (\d+): ", line + " ")
        if m:
            if cur is None or sect in ("phases", "redox", "tail"):
                cur = {"solutions": {}, "fractions": {}, "phases": {}, "redox": {}, "minimal_note": False, "order": [], "pre": pending}
                pending = {"range_err": 0, "roundoff": 0, "bare": 0, "minimal_warn": 0}
                models.append(cur)
            soln = int(m.group(1))
            cur["solutions"][soln] = {}
            sect = "soln"
            continue
        if cur is None:
            continue
        if line.startswith("Solution fractions:"):
            sect = "fract"
            continue
        if line.startswith("Phase mole transfers:"):
            sect = "phases"
            continue
        if line.startswith("Redox mole transfers:"):
            sect = "redox"
            continue
        if line.startswith("Isotopic composition of phases:"):
            sect = "phase_iso"
            continue
        if line.startswith("Sum of residuals"):
            cur["sum_resid"] = float(line.split(":")[1])
            sect = "tail"
            continue
        if line.startswith("Sum of delta/uncertainty limit"):
            cur["sum_delta_u"] = float(line.split(":")[1])
            continue
        if line.startswith("Maximum fractional error"):
            cur["max_frac"] = float(line.split(":")[1])
            continue
        if line.startswith("Model contains minimum number of phases"):
            cur["minimal_note"] = True
            continue
        if sect == "soln":
            m = _ROW3.match(line)
            if m:
                cur["solutions"][soln][m.group(1)] = (float(m.group(2)), float(m.group(3)), float(m.group(4)), m.group(2), m.group(3), m.group(4))
        elif sect == "fract":
            m = _FRAC.match(line)
            if m:
                cur["fractions"][int(m.group(1))] = (float(m.group(2)), float(m.group(3)), float(m.group(4)))
        elif sect == "phases":
            m = _PHASE.match(line)
            if m:
                cur["phases"][m.group(1)] = (float(m.group(2)), float(m.group(3)), float(m.group(4)))
        elif sect == "redox":
            m = _REDOX.match(line)
            if m:
                cur["redox"][m.group(1)] = float(m.group(2))
    return models


def half_ulp_e3(text):
    """Half a unit in the last printed place of a %.3e number given as text ('1.234e-03' -> 0.5e-6)."""
    m = re.search(r"e([-+]\d+)", text)
    if not m:
        return 0.0
    return 0.5e-3 * 10.0 ** int(m.group(1))


# ----------------------------------------------------------------------------------------------- the problem text
def expand(lst, n, default):
    """PHREEQC list semantics: missing trailing entries repeat the last given one; nothing given -> default."""
    lst = list(lst or [])
    if not lst:
        return [default] * n
    while len(lst) < n:
        lst.append(lst[-1])
    return lst[:n]


def render(problem):
    """Input text of the inverse problem (explicit solutions in mol/kgw, 1 kg water)."""
    t = []
    for s in problem["solutions"]:
        t.append("SOLUTION %d" % s["n"])
        t.append(" units mol/kgw")
        t.append(" temp 25")
        t.append(" pH %s" % repr(s["pH"]))
        for el, v in s["totals"].items():
            if v != 0:
                t.append(" %s %s" % (el, repr(v)))
        for iso in s.get("isotopes", []):
            t.append(" -isotope %s %s %s" % (iso[0], repr(iso[1]), repr(iso[2])))
        t.append("END")
    inv = problem["inverse"]
    if problem.get("phases_def"):
        t.append(problem["phases_def"].rstrip("\n"))
    t.append("SELECTED_OUTPUT 1")
    t.append(" -reset false")
    t.append(" -inverse_modeling true")
    t.append(" -high_precision true")
    t.append("INVERSE_MODELING 1")
    t.append(" -solutions " + " ".join(str(n) for n in inv["solns"]))
    if inv.get("unc") is not None:
        t.append(" -uncertainty " + " ".join(repr(u) for u in inv["unc"]))
    if inv.get("balances"):
        t.append(" -balances")
        for name, us in inv["balances"]:
            t.append("   %s %s" % (name, " ".join(repr(u) for u in us)))
    t.append(" -phases")
    for ph in inv["phases"]:
        line = "   %s" % ph["name"]
        if ph.get("constraint"):
            line += " " + ph["constraint"]
        if ph.get("force"):
            line += " force"
        for iso in ph.get("isotopes", []):
            line += " %s %s %s" % (iso[0], repr(iso[1]), repr(iso[2]))
        t.append(line)
    if inv.get("isotopes"):
        t.append(" -isotopes")
        for iso in inv["isotopes"]:
            t.append("   " + iso)
    o = inv.get("opts", {})
    if o.get("range"):
        t.append(" -range")
    if o.get("minimal"):
        t.append(" -minimal")
    if o.get("tol") is not None:
        t.append(" -tolerance %s" % repr(o["tol"]))
    if o.get("mineral_water") is False:
        t.append(" -mineral_water false")
    if o.get("mp"):
        t.append(" -multiple_precision true")
    if o.get("u_water") is not None:
        t.append(" -uncertainty_water %s" % repr(o["u_water"]))
    t.append("END")
    return "\n".join(t) + "\n"


# ----------------------------------------------------------------------------------------------- the oracle
# Fingerprints.  Without a known mechanism a fingerprint names the relation of the statement that fails ("sign: ...",
# "delta: ...", "balance: ...", "range: ...", "minimal: ...").  Where the library's own output identifies the mechanism
# that produced the failing numbers, the fingerprint names that mechanism only (one mechanism = one line, whatever
# relations its garbage breaks; the relation is in the explanation).  The mechanisms were all found on the unchanged
# tree (calibration notes in mc/props/c18.py).
TOL_MEMBER = 1e-9       # implementation constant TOL (global_structures.h): |x| <= 1e-9 => not a member of the model
RANGE_MAX = 1000.0      # manual: default 'maximum' of -range; min/max are the feasible values nearest to -/+ maximum
FP_MINIMAL = "minimal_solve: model printed after a failed cl1 solve (status of the last solve_with_mask ignored)"
FP_RANGE_ERR = "range(): min/max of a failed cl1 call are reported ('Error in subroutine range' printed, result kept)"
FP_RANGE_PRUNED = "range(): computed for the model pruned of |transfer| <= 1e-9 members while the reported values come from the unpruned solve (value outside min..max by O(1e-9))"
FP_RANGE_H2O = "range: value outside min..max, candidate phases linearly dependent apart from H2O (collinear columns, cl1 kode 0)"
FP_MODEL_H2O = "model: constraint violated, candidate phases linearly dependent apart from H2O (collinear columns, cl1 kode 0 / false infeasible)"
FP_RANGE_MIX = "range: value outside min..max, two or more initial solutions (cl1 in range() returns kode 0 for a non-optimal bound)"
FP_MINIMAL_TIGHT = "minimal: a reported model strictly contains another, solver tolerance <= 1e-12 (-tolerance 1e-12 / -multiple_precision without INVERSE_CL1MP: cl1 calls a feasible subset infeasible)"
FP_DELTA_TINY = "delta: adjustment exceeds uncertainty in a solution whose mixing fraction is 0 < f <= 1e-9 (printed delta = (f*delta)/f, a quotient of numbers below the solver's own thresholds)"
FP_DELTA_PRODUCT = "delta: adjustment exceeds uncertainty in a solution with near-zero mixing fraction beyond the member threshold (|f| > 1e-9, |f| x excess <= solver tolerance: the solver's unknown is the product f*delta, the printed delta is (f*delta)/f)"
FP_SIGN_TINY = "sign: negative mixing fraction with |f| x largest concentration of that water <= solver tolerance (cl1 returns kode 0 with x slightly below 0 for a listed water that the final water does not contain)"
FP_RANGE = "range: value outside its reported min..max"
FP_RANGE_INV = "range: min > max"


def dependent_apart_from_water(phases, nu):
    """A minimal-ish list of candidate phases whose compositions are linearly dependent once H and O are ignored
    (Gypsum / Anhydrite, Calcite / Aragonite, Kaolinite / Gibbsite / Chalcedony ...): the columns of the inverse
    problem are then collinear except possibly in the water balance.  None if the candidates are independent."""
    import numpy as np
    els = sorted(set(e for p in phases for e in nu[p] if e not in ("H", "O")))
    if not phases or not els:
        return None
    A = np.array([[nu[p].get(e, 0.0) for p in phases] for e in els], dtype=float)
    if np.linalg.matrix_rank(A, tol=1e-9) >= len(phases):
        return None
    # smallest dependent subset by dropping phases while the rest stays dependent
    keep = list(range(len(phases)))
    for i in list(keep):
        trial = [j for j in keep if j != i]
        if trial and np.linalg.matrix_rank(A[:, trial], tol=1e-9) < len(trial):
            keep = trial
    return tuple(phases[j] for j in keep)


def solver_tolerance(opts):
    """The declared solver tolerance ('numbers smaller than this are zero'): -tolerance (default 1e-10), or
    -mp_tolerance (default 1e-12) with -multiple_precision."""
    if opts.get("mp"):
        return 1e-12
    return opts.get("tol") if opts.get("tol") is not None else 1e-10


def judge(problem, stoich, out, selstr):
    """Returns (problems, info).  problems = [(fingerprint, explanation)], info = summary for outcome / samples."""
    inv = problem["inverse"]
    opts = inv.get("opts", {})
    solns = inv["solns"]
    nsol = len(solns)
    final = solns[-1]
    tol = solver_tolerance(opts)
    conc = {s["n"]: s for s in problem["solutions"]}
    u_glob = dict(zip(solns, expand(inv.get("unc"), nsol, 0.05)))
    u_ph = dict(zip(solns, [0.05] * nsol))
    u_el = {}                       # row/element name -> {soln: u}
    for name, us in inv.get("balances") or []:
        if name.lower() == "ph":
            u_ph = dict(zip(solns, expand(us, nsol, 0.05)))
        else:
            u_el[name] = dict(zip(solns, expand(us, nsol, None))) if us else None
    phases = [p["name"] for p in inv["phases"]]
    constraint = {p["name"]: p.get("constraint") for p in inv["phases"]}
    nu = {p: stoich[p] for p in phases}
    # elements of the model: those of the candidate phases and those listed under -balances (manual); H and O are
    # not balanced element-wise (water / redox-state balances instead) and the exchanger X carries no analysis
    model_elts = set()
    for p in phases:
        model_elts.update(nu[p])
    for name, _ in inv.get("balances") or []:
        if name.lower() not in ("ph", "alkalinity"):
            model_elts.add(element_of(name))
    model_elts -= {"H", "O"}

    def unc_of(rowname, q):
        """declared uncertainty (signed: >0 fractional, <0 absolute) of a table row in solution q"""
        for key in (rowname, element_of(rowname)):
            if key in u_el and u_el[key] is not None:
                return u_el[key][q]
        return u_glob[q]

    def total_of(q, rowname):
        """input concentration (mol) of a valence-state / element row from the problem text"""
        tot = conc[q]["totals"]
        if rowname in tot:
            return tot[rowname]
        el = element_of(rowname)
        if rowname == el:
            return sum(v for k, v in tot.items() if element_of(k) == el)
        return 0.0

    def bound_of(rowname, q, c):
        u = unc_of(rowname, q)
        return u * abs(c) if u > 0 else -u

    problems = []
    heads, rows = parse_sel_string(selstr)
    models = parse_output_models(out)
    info = {"n_models": len(models), "sets": []}
    if len(rows) != len(models):
        problems.append(("report: printed models != selected-output rows",
                         "output string has %d models, selected-output string has %d rows" % (len(models), len(rows))))
        return problems, info
    if any("_bad" in r for r in rows):
        problems.append(("report: selected-output row does not match its heading", repr([r for r in rows if "_bad" in r][0])[:300]))
        return problems, info
    if models:
        want = ["Sum_resid", "Sum_Delta/U", "MaxFracErr"]
        for n in solns:
            want += ["Soln_%d" % n, "Soln_%d_min" % n, "Soln_%d_max" % n]
        for p in phases:
            want += [p, p + "_min", p + "_max"]
        if heads != want:
            problems.append(("report: selected-output headings", "headings %r, expected %r" % (heads, want)))
            return problems, info

    sets = []
    collinear = dependent_apart_from_water(phases, nu)
    for k, (mod, row) in enumerate(zip(models, rows)):
        tag = "model %d of %d" % (k + 1, len(models))
        start = len(problems)
        f = {n: row["Soln_%d" % n] for n in solns}
        t = {p: row[p] for p in phases}
        # ---- the two reports describe the same model (string 12 digits vs print 4 digits)
        for n in solns:
            if n in mod["fractions"] and abs(mod["fractions"][n][0] - f[n]) > 6e-4 * max(abs(f[n]), 1e-300) + 1e-14:
                problems.append(("report: printed fraction != selected-output fraction", "%s: solution %d printed %r, string %r" % (tag, n, mod["fractions"][n][0], f[n])))
        for p, v in mod["phases"].items():
            if p in t and abs(v[0] - t[p]) > 6e-4 * max(abs(t[p]), 1e-300) + 1e-14:
                problems.append(("report: printed transfer != selected-output transfer", "%s: %s printed %r, string %r" % (tag, p, v[0], t[p])))
        # ---- (iii) admissibility
        for n in solns:
            if f[n] < -tol:
                cmax = max([abs(v) for v in conc[n]["totals"].values()] or [0.0])
                if abs(f[n]) * cmax <= tol:
                    problems.append((FP_SIGN_TINY, "%s: fraction of solution %d = %r (declared solver tolerance %g; largest concentration of solution %d is %r mol, |f| x c = %.3g mol) [sign: negative mixing fraction]" % (
                        tag, n, f[n], tol, n, cmax, abs(f[n]) * cmax)))
                else:
                    problems.append(("sign: negative mixing fraction", "%s: fraction of solution %d = %r" % (tag, n, f[n])))
        for p in phases:
            c = (constraint[p] or "")[:1].lower()
            if c == "d" and t[p] < -tol:
                problems.append(("sign: dissolve-only phase precipitates", "%s: %s (dissolve) transfer %r" % (tag, p, t[p])))
            if c == "p" and t[p] > tol:
                problems.append(("sign: precipitate-only phase dissolves", "%s: %s (precipitate) transfer %r" % (tag, p, t[p])))
        # ---- range
        if opts.get("range"):
            tiny = [p for p in phases if 0.0 < abs(t[p]) <= TOL_MEMBER] + ["Soln_%d" % n for n in solns if 0.0 < abs(f[n]) <= TOL_MEMBER]
            for name, v in [("Soln_%d" % n, f[n]) for n in solns] + [(p, t[p]) for p in phases]:
                lo, hi = row[name + "_min"], row[name + "_max"]
                if abs(v) > RANGE_MAX:
                    # documented semantics: min/max are clipped to -/+ maximum (default 1000); the statement cannot
                    # hold for an unbounded transfer (e.g. two phases of identical formula) - not judged
                    info["beyond_range_max"] = info.get("beyond_range_max", 0) + 1
                    info.setdefault("beyond", []).append("%s: %s = %r exceeds the -range maximum %g; range [%r, %r] not judged" % (tag, name, v, RANGE_MAX, lo, hi))
                    continue
                slack = tol + 1e-11 * max(abs(v), abs(lo), abs(hi))
                if not (lo - slack <= v <= hi + slack):
                    exceed = max(lo - v, v - hi)
                    what = "%s: %s = %r but reported range is [%r, %r] (declared solver tolerance %g)" % (tag, name, v, lo, hi, tol)
                    if lo > hi + slack:
                        problems.append((FP_RANGE_INV, what))
                    elif tiny and exceed <= 10 * TOL_MEMBER:
                        problems.append((FP_RANGE_PRUNED, what + "; members below the threshold: %s" % ", ".join("%s=%r" % (q, t[q] if q in t else f[int(q[5:])]) for q in tiny)))
                    else:
                        problems.append((FP_RANGE, what))
        # ---- (i) every printed adjustment within its declared uncertainty
        present = [n for n in solns if n in mod["solutions"]]
        for n in solns:
            if n not in mod["solutions"] and abs(f[n]) > tol:
                problems.append(("report: table of a contributing solution missing", "%s: solution %d has fraction %r but no Input/Delta table" % (tag, n, f[n])))
        for n in present:
            tab = mod["solutions"][n]
            dex = []                     # (index into problems, |delta| - allowed) of this solution's delta failures
            for rname, (cin, d, cs, tin, td, ts) in tab.items():
                if rname == "pH":
                    if abs(d) > u_ph[n] + half_ulp_e3(td):
                        dex.append((len(problems), abs(d) - u_ph[n]))
                        problems.append(("delta: pH adjustment exceeds uncertainty", "%s: solution %d pH delta %s, declared uncertainty %r" % (tag, n, td, u_ph[n])))
                    continue
                if rname == "Alkalinity":
                    u = unc_of("Alkalinity", n)
                    b = u * (abs(cin) + half_ulp_e3(tin)) if u > 0 else -u
                    if abs(d) > b + half_ulp_e3(td) + tol:
                        dex.append((len(problems), abs(d) - b))
                        problems.append(("delta: alkalinity adjustment exceeds uncertainty", "%s: solution %d alkalinity %s delta %s, uncertainty %r" % (tag, n, tin, td, u)))
                    continue
                if re.match(r"^\d", rname):
                    continue            # isotope rows are judged separately
                c = total_of(n, rname)
                if abs(cin - c) > half_ulp_e3(tin) + 1e-14:
                    problems.append(("input: printed analysis != input text", "%s: solution %d %s printed %s, input text says %r mol" % (tag, n, rname, tin, c)))
                b = bound_of(rname, n, c)
                if abs(d) > b + half_ulp_e3(td) + tol:
                    dex.append((len(problems), abs(d) - b))
                    problems.append(("delta: element adjustment exceeds uncertainty",
                                     "%s: solution %d %s input %r delta %s; declared uncertainty %r allows %r" % (tag, n, rname, c, td, unc_of(rname, n), b)))
            for i, exc in dex:
                problems[i] = (problems[i][0], "%s; mixing fraction of solution %d = %r" % (problems[i][1], n, f[n]))
                # the library's unknowns are f and the product f*delta (accurate to the solver tolerance); it prints
                # (f*delta)/f for every solution with |f| > tolerance, while members are pruned at TOL = 1e-9
                if 0.0 < f[n] <= TOL_MEMBER:
                    problems[i] = (FP_DELTA_TINY, "%s (solver tolerance %g, member threshold %g) [%s]" % (problems[i][1], tol, TOL_MEMBER, problems[i][0]))
                elif abs(f[n]) * exc <= tol:
                    problems[i] = (FP_DELTA_PRODUCT, "%s: |f| x excess = %.3g <= solver tolerance %g [%s]" % (problems[i][1], abs(f[n]) * exc, tol, problems[i][0]))
        # ---- (ii) mole balance per element
        rownames = set()
        for n in present:
            rownames.update(r for r in mod["solutions"][n] if r not in ("pH", "Alkalinity") and not re.match(r"^\d", r))
        printed_elts = set(element_of(r) for r in rownames)
        for e in sorted(model_elts):
            if e == "X":
                # exchanger: no analysis, the balance is sum_p t_p nu_pX = 0 exactly
                r = sum(t[p] * nu[p].get("X", 0.0) for p in phases)
                big = sum(abs(t[p] * nu[p].get("X", 0.0)) for p in phases)
                if abs(r) > tol + 1e-11 * big:
                    problems.append(("balance: exchanger X not conserved", "%s: sum t_p nu_pX = %r" % (tag, r)))
                continue
            if models and e not in printed_elts and any(total_of(n, e) != 0 for n in solns):
                problems.append(("balance: element of the model has no rows in the printed tables", "%s: element %s" % (tag, e)))
                continue
            phase_term = sum(t[p] * nu[p].get(e, 0.0) for p in phases)
            # full precision, interval form
            r = phase_term
            bound = 0.0
            big = abs(phase_term)
            for n in solns:
                sgn = -1.0 if n == final else 1.0
                rows_e = [k for k in conc[n]["totals"] if element_of(k) == e]
                c = sum(conc[n]["totals"][k] for k in rows_e)
                r += sgn * f[n] * c
                big += abs(f[n] * c)
                for k in rows_e:
                    bound += f[n] * bound_of(k, n, conc[n]["totals"][k])
            slack = tol * (1 + nsol) + 1e-11 * big
            if abs(r) > bound + slack:
                problems.append(("balance: residual exceeds what the declared uncertainties can absorb",
                                 "%s: element %s: sum f c + sum t nu - c_final = %r mol, uncertainties allow at most %r (fractions %r, transfers %r)" % (
                                     tag, e, r, bound, f, {p: v for p, v in t.items() if v})))
            # print precision, with the reported adjustments
            r2 = phase_term
            err = 1e-11 * abs(phase_term) + tol
            ok = True
            for n in solns:
                if n not in mod["solutions"]:
                    if abs(f[n]) > tol:
                        ok = False
                    continue
                sgn = -1.0 if n == final else 1.0
                for rname, (cin, d, cs, tin, td, ts) in mod["solutions"][n].items():
                    if rname in ("pH", "Alkalinity") or re.match(r"^\d", rname) or element_of(rname) != e:
                        continue
                    r2 += sgn * f[n] * cs
                    err += abs(f[n]) * half_ulp_e3(ts)
            if ok and abs(r2) > err:
                problems.append(("balance: printed adjusted concentrations do not balance",
                                 "%s: element %s: sum f (c+d) + sum t nu - (c+d)_final = %r mol, print rounding allows %r" % (tag, e, r2, err)))
        sets.append(frozenset(["s%d" % n for n in solns if f[n] != 0] + [p for p in phases if t[p] != 0]))
        pre = mod["pre"]
        info.setdefault("pre", []).append((pre["range_err"], pre["bare"]))
        # ---- attribute the failures of this model to a mechanism the library's own output identifies
        for i in range(start, len(problems)):
            fp, what = problems[i]
            if fp in (FP_RANGE_PRUNED, FP_DELTA_TINY, FP_DELTA_PRODUCT, FP_SIGN_TINY) or fp.startswith("report:") or fp.startswith("input:"):
                continue
            what = "%s [%s]" % (what, fp)
            if fp.startswith("range:"):
                if pre["range_err"]:
                    problems[i] = (FP_RANGE_ERR, what + "; 'Error in subroutine range. Kode = ..' printed %d time(s) for this model" % pre["range_err"])
                elif collinear:
                    problems[i] = (FP_RANGE_H2O, what + "; dependent candidate phases: %s" % ", ".join(collinear))
                elif nsol > 2:
                    problems[i] = (FP_RANGE_MIX, what)
            elif mod["minimal_note"] and pre["bare"]:
                problems[i] = (FP_MINIMAL, what + "; %d 'CL1: Roundoff errors in optimization' message(s) from model solves precede this 'minimum number of phases' model%s" % (
                    pre["bare"], ", and 'WARNING: Roundoff errors in minimal calculation'" if pre["minimal_warn"] else ""))
            elif collinear:
                problems[i] = (FP_MODEL_H2O, what + "; dependent candidate phases: %s" % ", ".join(collinear))
    info["sets"] = [sorted(s) for s in sets]
    # ---- (iv) -minimal
    if opts.get("minimal"):
        for a in range(len(sets)):
            for b in range(len(sets)):
                if a != b and sets[a] > sets[b]:
                    what = "model %d %s contains model %d %s" % (a + 1, sorted(sets[a]), b + 1, sorted(sets[b]))
                    fp = "minimal: a reported model strictly contains another reported model"
                    if models[a]["pre"]["bare"] or models[b]["pre"]["bare"]:
                        what, fp = "%s [%s]" % (what, fp), FP_MINIMAL
                    elif collinear:
                        what, fp = "%s [%s]; dependent candidate phases: %s" % (what, fp, ", ".join(collinear)), FP_MODEL_H2O
                    elif tol <= 1e-12:
                        what, fp = "%s [%s]; declared solver tolerance %g" % (what, fp, tol), FP_MINIMAL_TIGHT
                    problems.append((fp, what))
    # de-duplicate by fingerprint
    seen, uniq = set(), []
    for p in problems:
        if p[0] not in seen:
            seen.add(p[0])
            uniq.append(p)
    return uniq, info


def declared_unc(inv, rowname, q):
    """Declared uncertainty (signed) of an element / valence-state row for solution number q."""
    solns = inv["solns"]
    nsol = len(solns)
    for name, us in inv.get("balances") or []:
        if name in (rowname, element_of(rowname)) and us:
            return dict(zip(solns, expand(us, nsol, None)))[q]
    return dict(zip(solns, expand(inv.get("unc"), nsol, 0.05)))[q]
