"""Gram formula weights from the *database text* (SOLUTION_MASTER_SPECIES), for the unit-conversion oracle of C15.

Semantics taken from the PHREEQC manual (keyword SOLUTION_MASTER_SPECIES and SOLUTION):
  line:  element-or-valence-state   master-species   alkalinity   gfw-or-formula   [gfw of element]
  * column 5 (primary master species only) is the gram formula weight of the *element*; formula weights are sums of
    these element weights;
  * column 4 is either a number (used directly) or a chemical formula whose formula weight is the default for
    converting mass units of that element / valence state to moles (e.g. C as HCO3, S(6) as SO4, Si as SiO2);
  * in SOLUTION, `as <formula>` replaces that default by the formula weight of <formula>, `gfw <number>` by the
    number; for Alkalinity `as CaCO3` means the equivalent weight (half the formula weight of CaCO3).
Nothing here reads the engine source.
"""
import re


def _logical_lines(text):
    for raw in text.splitlines():
        raw = raw.split("#", 1)[0]
        for part in raw.split(";"):
            part = part.strip()
            if part:
                yield part


def master_table(db_text):
    """-> {name: (master_species, alk, col4_token, element_gfw or None)} in file order (later lines replace earlier)."""
    tab = {}
    inside = False
    for line in _logical_lines(db_text):
        tok = line.split()
        head = tok[0].upper()
        if head == "SOLUTION_MASTER_SPECIES":
            inside = True
            continue
        if inside:
            if len(tok) < 4:
                # data lines have at least four columns; anything shorter that looks like a keyword ends the block
                if re.fullmatch(r"[A-Za-z_]+", tok[0]) and len(tok[0]) >= 3:
                    inside = False
                continue
            name = tok[0].replace("(+", "(")
            egfw = None
            if len(tok) >= 5:
                try:
                    egfw = float(tok[4])
                except ValueError:
                    egfw = None
            tab[name] = (tok[1], float(tok[2]), tok[3], egfw)
    return tab


_TOK = re.compile(r"([A-Z][a-z]*|\[[^\]]+\])|(\()|(\))|(\d+\.?\d*|\.\d+)|([+-]\d*\.?\d*)|(:)")


def parse_formula(f):
    """'Ca0.5(CO3)0.5' -> {'Ca':0.5,'C':0.5,'O':1.5}; trailing charges are ignored; ':' (hydrate dot) supported."""
    pos = 0
    stack = [{}]
    last = None            # the group the next number multiplies: ('el', name) or ('grp', dict)
    hyd_mult = None
    out_tokens = []
    while pos < len(f):
        m = _TOK.match(f, pos)
        if not m:
            raise ValueError("cannot parse formula %r at %d" % (f, pos))
        pos = m.end()
        out_tokens.append(m)
    i = 0
    while i < len(out_tokens):
        m = out_tokens[i]
        el, lp, rp, num, chg, colon = m.groups()
        nxt = out_tokens[i + 1].group(4) if i + 1 < len(out_tokens) and out_tokens[i + 1].group(4) else None
        if el:
            c = float(nxt) if nxt else 1.0
            if nxt:
                i += 1
            stack[-1][el] = stack[-1].get(el, 0.0) + c
        elif lp:
            stack.append({})
        elif rp:
            grp = stack.pop()
            c = float(nxt) if nxt else 1.0
            if nxt:
                i += 1
            for k, v in grp.items():
                stack[-1][k] = stack[-1].get(k, 0.0) + v * c
        elif chg:
            pass
        elif colon:
            # "X:nH2O": the rest is one group with multiplier n
            rest = f[m.end():]
            mm = re.match(r"(\d+\.?\d*)?(.*)", rest)
            c = float(mm.group(1)) if mm.group(1) else 1.0
            for k, v in parse_formula(mm.group(2)).items():
                stack[-1][k] = stack[-1].get(k, 0.0) + v * c
            break
        elif num:
            raise ValueError("unexpected number in %r" % f)
        i += 1
    if len(stack) != 1:
        raise ValueError("unbalanced parentheses in %r" % f)
    return stack[0]


class Weights:
    def __init__(self, db_text):
        self.tab = master_table(db_text)
        self.el = {k: v[3] for k, v in self.tab.items() if v[3] is not None and "(" not in k}

    def formula_weight(self, formula):
        w = 0.0
        for el, c in parse_formula(formula).items():
            if el not in self.el:
                raise KeyError("element %s of %s has no element gfw in the database" % (el, formula))
            w += c * self.el[el]
        return w

    def default_weight(self, name):
        """Default g/mol for input of `name` (element or valence state) in mass units: column 4."""
        name = name.replace("(+", "(")
        col4 = self.tab[name][2]
        try:
            return float(col4)
        except ValueError:
            return self.formula_weight(col4)

    def weight(self, name, as_formula=None, gfw=None):
        if gfw is not None:
            return float(gfw)
        if as_formula is not None:
            w = self.formula_weight(as_formula)
            if name.lower().startswith("alk") and as_formula == "CaCO3":
                w /= 2.0
            return w
        return self.default_weight(name)
