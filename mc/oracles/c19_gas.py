"""Independent reference for property C19: gas data parser for a PHREEQC database text and the equations of state.

Written from the PHREEQC-3 manual (Parkhurst & Appelo 2013, "Gas-phase components / Peng-Robinson") and the original
paper (Peng & Robinson 1976, Ind. Eng. Chem. Fundam. 15, 59), *not* from gases.cpp / prep.cpp:

    P = R T / (V - b) - a alpha / (V^2 + 2 b V - b^2)                          (V molar volume)
    a_i = OMEGA_A R^2 Tc_i^2 / Pc_i ,  b_i = OMEGA_B R Tc_i / Pc_i
    alpha_i = (1 + kappa_i (1 - sqrt(T / Tc_i)))^2 ,  kappa_i = 0.37464 + 1.54226 w_i - 0.26992 w_i^2
    mixture:  a alpha = sum_i sum_j x_i x_j sqrt(a_i alpha_i a_j alpha_j) (1 - k_ij) ,  b = sum_i x_i b_i
    A = a alpha P / (R T)^2 ,  B = b P / (R T) ,  Z = P V / (R T)
    Z^3 - (1 - B) Z^2 + (A - 3 B^2 - 2 B) Z - (A B - B^2 - B^3) = 0
    ln phi_i = b_i / b (Z - 1) - ln(Z - B)
               - A / (2 sqrt2 B) (2 sum_j x_j (a alpha)_ij / (a alpha) - b_i / b) ln((Z + (1 + sqrt2) B) / (Z + (1 - sqrt2) B))

Constants that had to be taken from the implementation / the PHREEQC manual (they are listed in the evidence):
    R = 0.0820597 L atm / (mol K)  (global_structures.h R_LITER_ATM; CODATA would be 0.0820574)
    OMEGA_A = 0.457235, OMEGA_B = 0.077796   (PHREEQC manual; Peng & Robinson print 0.45724 / 0.07780)
All arithmetic is plain double precision; sqrt2 is exact (the engine uses 2.828427 / 2.41421356 / 0.41421356).
"""
import math
import re

import numpy as np

R = 0.0820597
OMEGA_A = 0.457235
OMEGA_B = 0.077796
SQRT2 = math.sqrt(2.0)
LN_PHI_MIN = -4.6          # documented clamp 0.01 .. 85 (exp(-4.6) = 0.01005, exp(4.44) = 84.77)
LN_PHI_MAX = 4.44


# ----------------------------------------------------------------------------------------------- database text
def logical_lines(text):
    """PHREEQC input conventions: '#' starts a comment, ';' separates logical lines, '\\' at the end continues."""
    out = []
    pending = ""
    for raw in text.splitlines():
        line = raw.split("#", 1)[0].rstrip()
        if line.endswith("\\"):
            pending += line[:-1] + " "
            continue
        line = pending + line
        pending = ""
        for part in line.split(";"):
            part = part.strip()
            if part:
                out.append(part)
    return out


KEYWORD_RE = re.compile(r"^[A-Z_]+(\s+\d+.*)?$")
BLOCKS = {"SOLUTION_MASTER_SPECIES", "SOLUTION_SPECIES", "PHASES", "GAS_BINARY_PARAMETERS", "EXCHANGE_MASTER_SPECIES",
          "EXCHANGE_SPECIES", "SURFACE_MASTER_SPECIES", "SURFACE_SPECIES", "RATES", "END", "PITZER", "SIT",
          "NAMED_EXPRESSIONS", "LLNL_AQUEOUS_MODEL_PARAMETERS", "MEAN_GAMMAS", "CALCULATE_VALUES", "ISOTOPES",
          "ISOTOPE_RATIOS", "ISOTOPE_ALPHAS", "SOLUTION", "KNOBS", "PRINT", "SELECTED_OUTPUT", "USER_PUNCH", "USER_PRINT",
          "USER_GRAPH", "RATE_PARAMETERS_PK", "RATE_PARAMETERS_SVD", "RATE_PARAMETERS_HERMANSKA", "TITLE"}


def _opt(line):
    t = line.split()
    return t[0].lstrip("-").lower(), t[1:]


def parse_gas_data(text):
    """Returns (gases, kij): gases = {phase name: {"tc","pc","omega", "reaction"}} for every PHASES entry (tc/pc/omega are
    0.0 when absent), kij = {frozenset({name1,name2}): k} from GAS_BINARY_PARAMETERS."""
    gases, kij = {}, {}
    block = None
    cur = None
    for line in logical_lines(text):
        first = line.split()[0]
        if first.upper() in BLOCKS and first == first.upper():
            block = first.upper()
            cur = None
            continue
        if block == "PHASES":
            key, args = _opt(line)
            if "=" in line and not key.startswith(("log_k", "logk", "delta_h", "deltah", "analytic", "analytical", "vm", "t_c", "p_c", "omega", "add_logk", "add_log_k")):
                if cur is not None:
                    gases[cur]["reaction"] = line
                continue
            if key in ("t_c", "p_c", "omega") and cur is not None:
                gases[cur][{"t_c": "tc", "p_c": "pc", "omega": "omega"}[key]] = float(args[0])
                continue
            if key in ("log_k", "logk", "delta_h", "deltah", "analytic", "analytical_expression", "a_e", "ae", "vm", "add_logk",
                       "add_log_k", "no_check", "check", "mole_balance"):
                continue
            # a phase name line (optionally followed by a number)
            cur = first
            gases[cur] = {"tc": 0.0, "pc": 0.0, "omega": 0.0, "reaction": None}
        elif block == "GAS_BINARY_PARAMETERS":
            t = line.split()
            if len(t) >= 3:
                kij[frozenset((t[0], t[1]))] = float(t[2])
    return gases, kij


def phase_definition(text, name):
    """Logical lines of the PHASES entry `name` of a database text (name line, reaction, log K data ...) WITHOUT its
    -T_c / -P_c / -Omega lines: the body of a PHASES block that redefines the gas; critical constants are appended by
    the caller."""
    block = None
    out = None
    for line in logical_lines(text):
        first = line.split()[0]
        if first.upper() in BLOCKS and first == first.upper():
            if out is not None:
                break
            block = first.upper()
            continue
        if block != "PHASES":
            continue
        key, _ = _opt(line)
        is_option = key in ("log_k", "logk", "delta_h", "deltah", "analytic", "analytical_expression", "a_e", "ae", "vm",
                            "add_logk", "add_log_k", "no_check", "check", "mole_balance", "t_c", "p_c", "omega")
        if "=" not in line and not is_option:
            # a phase name line
            if out is not None:
                break
            if first == name:
                out = [name]
            continue
        if out is not None and key not in ("t_c", "p_c", "omega"):
            out.append(" " + line)
    if out is None or len(out) < 3:
        raise RuntimeError("PHASES entry %s not found / not understood" % name)
    return out


def strip_critical_constants(text, keep_binary=False):
    """Copy of a database text whose PHASES carry no -T_c / -P_c / -Omega (=> every gas is ideal) and (unless
    keep_binary) without GAS_BINARY_PARAMETERS data lines.  Without such lines the engine falls back to the hard-coded
    k_ij that the comment block of phreeqc.dat documents (H2O with CO2, H2S: 0.19; with CH4, N2: 0.49)."""
    out = []
    block = None
    for raw in text.splitlines():
        body = raw.split("#", 1)[0]
        first = body.split()[0] if body.split() else ""
        if first and first == first.upper() and first in BLOCKS:
            block = first
        if block == "GAS_BINARY_PARAMETERS" and first != "GAS_BINARY_PARAMETERS" and not keep_binary:
            continue
        if block == "PHASES" and re.search(r"(?i)(^|[\s;])-?(t_c|p_c|omega)\b", body):
            parts = [p for p in body.split(";") if not re.match(r"(?i)^\s*-?(t_c|p_c|omega)\b", p)]
            body = ";".join(parts)
            if not body.strip():
                continue
            out.append(body.rstrip())
            continue
        out.append(raw)
    return "\n".join(out) + "\n"


def replace_binary_parameters(text, table):
    """Copy of a database text whose GAS_BINARY_PARAMETERS block is replaced by `table` = [(g1, g2, k), ...]."""
    out = []
    block = None
    for raw in text.splitlines():
        body = raw.split("#", 1)[0]
        first = body.split()[0] if body.split() else ""
        if first and first == first.upper() and first in BLOCKS:
            block = first
            out.append(raw)
            if block == "GAS_BINARY_PARAMETERS":
                for g1, g2, k in table:
                    out.append("%s %s %r" % (g1, g2, k))
            continue
        if block == "GAS_BINARY_PARAMETERS":
            continue
        out.append(raw)
    return "\n".join(out) + "\n"


# ----------------------------------------------------------------------------------------------- equations of state
class Mixture:
    """Peng-Robinson mixture at temperature T (K) with mole fractions x (dict name -> fraction, sum 1)."""

    def __init__(self, names, x, T, gases, kij):
        self.names = list(names)
        self.x = [float(v) for v in x]
        self.T = T
        RT = R * T
        self.RT = RT
        self.ai, self.bi = [], []
        for n in self.names:
            g = gases[n]
            tc, pc, w = g["tc"], g["pc"], g["omega"]
            kappa = 0.37464 + 1.54226 * w - 0.26992 * w * w
            alpha = (1.0 + kappa * (1.0 - math.sqrt(T / tc))) ** 2
            self.ai.append(OMEGA_A * R * R * tc * tc / pc * alpha)
            self.bi.append(OMEGA_B * R * tc / pc)
        n = len(self.names)
        self.aij = [[math.sqrt(self.ai[i] * self.ai[j]) * (1.0 - (kij.get(frozenset((self.names[i], self.names[j])), 0.0) if i != j else 0.0))
                     for j in range(n)] for i in range(n)]
        self.a = sum(self.x[i] * self.x[j] * self.aij[i][j] for i in range(n) for j in range(n))
        self.b = sum(self.x[i] * self.bi[i] for i in range(n))
        self.asum = [sum(self.x[j] * self.aij[i][j] for j in range(n)) for i in range(n)]

    def pressure(self, vm):
        b = self.b
        return self.RT / (vm - b) - self.a / (vm * vm + 2.0 * b * vm - b * b)

    def z_roots(self, P):
        """Real roots Z > B of the cubic at pressure P, ascending, Newton-polished; plus a flag `near_multiple`
        (the cubic is within a small margin of having a double root, where the count of real roots is not robust)."""
        A = self.a * P / (self.RT * self.RT)
        B = self.b * P / self.RT
        c2, c1, c0 = -(1.0 - B), (A - 3.0 * B * B - 2.0 * B), -(A * B - B * B - B * B * B)
        rts = np.roots([1.0, c2, c1, c0])
        scale = max(1.0, max(abs(r) for r in rts))
        real = []
        near = False
        for r in rts:
            if abs(r.imag) <= 1e-7 * scale:
                real.append(r.real)
                if abs(r.imag) > 0:
                    near = True
            elif abs(r.imag) <= 1e-3 * scale:
                near = True
        out = []
        for z in real:
            for _ in range(50):
                f = ((z + c2) * z + c1) * z + c0
                df = (3.0 * z + 2.0 * c2) * z + c1
                if df == 0:
                    break
                dz = f / df
                z -= dz
                if abs(dz) <= 1e-16 * abs(z):
                    break
            if z > B:
                out.append(z)
        out.sort()
        for i in range(len(out) - 1):
            if abs(out[i + 1] - out[i]) <= 1e-3 * abs(out[i + 1]):
                near = True
        return out, near, A, B

    def ln_phi(self, P, Z):
        A = self.a * P / (self.RT * self.RT)
        B = self.b * P / self.RT
        out = []
        for i in range(len(self.names)):
            br = self.bi[i] / self.b
            out.append(br * (Z - 1.0) - math.log(Z - B)
                       - A / (2.0 * SQRT2 * B) * (2.0 * self.asum[i] / self.a - br) * math.log((Z + (1.0 + SQRT2) * B) / (Z + (1.0 - SQRT2) * B)))
        return out


def ideal_pressure(n_total, V, T):
    return n_total * R * T / V


def rel(a, b):
    m = max(abs(a), abs(b))
    return 0.0 if m == 0 else abs(a - b) / m
