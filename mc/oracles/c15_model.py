"""Structured description of a PHREEQC input ("model") and its renderer, for the metamorphic check C15.

A model is a list of simulations; a simulation is a list of blocks (dicts); every transformation of C15 acts on this
structure, never on text, and the renderer turns the structure into input text.  Amounts in the structure are in
canonical form: solution concentrations in mol/kgw (equivalents/kgw for Alkalinity), extensive amounts in mol / L / g.

Block kinds and fields
  SOLUTION     n, temp, pH, pe, water, [density (number, calc:bool)], [pH_extra, pe_extra], els=[{el, c, extra?}],
               fam ("kgw"|"l"|"kgs") - denominator family in which c is stated (c is mol/<fam>)
               ud: unit description {"default": prefix-unit, "per": {el: {"unit":..,"as":..,"gfw":..}}} (renderer input)
  EQUILIBRIUM_PHASES  n, items=[(phase, si, moles, extra?)]
  EXCHANGE     n, items=[(formula, moles)], equil (solution number or None)
  SURFACE      n, items=[(site, moles, area_per_g or None, grams or None)], equil, opts=[lines]
  GAS_PHASE    n, kind ("fixed_pressure"|"fixed_volume"), pressure, volume, temp, items=[(gas, partial pressure)], equil
  REACTION     n, items=[(formula, coef)], amounts=[moles...] | (total, steps)
  KINETICS     n, items=[{name, formula, m, m0, parms, tol}], steps (text), opts
  RATES        text (independent of everything)
  MIX          n, items=[(solution, fraction)]
  USE / SAVE   line (kind, number)
  RAW          text  (trailer: SELECTED_OUTPUT / USER_PUNCH)
"""
import copy

PREFIX = {"": 1.0, "m": 1e-3, "u": 1e-6}


def num(x):
    """Shortest text that parses back to exactly this double."""
    if isinstance(x, int):
        return str(x)
    return repr(float(x))


def split_unit(u):
    """'mg/kgw' -> ('m', 'g', 'kgw');  'mmol/L' -> ('m','mol','l');  'ppm' -> ('m','g','kgs')"""
    alias = {"ppt": "g/kgs", "ppm": "mg/kgs", "ppb": "ug/kgs"}
    u = alias.get(u, u)
    numer, den = u.split("/")
    den = den.lower()
    for base in ("mol", "eq", "g"):
        if numer.endswith(base):
            return numer[:-len(base)], base, den
    raise ValueError(u)


def conc_text(weights, el, c, fam_unit, desc):
    """Text of a concentration (canonical c in mol per <denominator>) stated in unit `desc` = {unit, as, gfw}.
    This is the unit oracle: value = c / prefix [* g/mol for mass units], weights from the database text."""
    unit = desc.get("unit") or fam_unit
    pre, base, den = split_unit(unit)
    v = c / PREFIX[pre]
    if base == "g":
        v = v * weights.weight(el, desc.get("as"), desc.get("gfw"))
    s = num(v)
    if desc.get("unit"):
        s += " " + desc["unit"]
    if desc.get("as"):
        s += " as " + desc["as"]
    if desc.get("gfw") is not None:
        s += " gfw " + num(desc["gfw"])
    return s


def render_solution(b, weights, order=None):
    ud = b.get("ud") or {}
    default = ud.get("default", "mol/" + {"kgw": "kgw", "l": "L", "kgs": "kgs"}[b.get("fam", "kgw")])
    lines = ["SOLUTION %d" % b["n"]]
    opt = []
    opt.append(" temp %s" % num(b.get("temp", 25.0)))
    opt.append(" pH %s%s" % (num(b["pH"]), (" " + b["pH_extra"]) if b.get("pH_extra") else ""))
    opt.append(" pe %s%s" % (num(b.get("pe", 4.0)), (" " + b["pe_extra"]) if b.get("pe_extra") else ""))
    if b.get("redox"):
        opt.append(" redox %s" % b["redox"])
    opt.append(" units %s" % default)
    if b.get("density") is not None:
        d, calc = b["density"]
        opt.append(" density %s%s" % (num(d), " calc" if calc else ""))
    if b.get("water", 1.0) != 1.0 or b.get("water_explicit"):
        opt.append(" -water %s" % num(b.get("water", 1.0)))
    if b.get("pressure") is not None:
        opt.append(" pressure %s" % num(b["pressure"]))
    els = []
    for e in b["els"]:
        desc = (ud.get("per") or {}).get(e["el"], {})
        s = " %s %s" % (e["el"], conc_text(weights, e["el"], e["c"], default, desc))
        if e.get("extra"):
            s += " " + e["extra"]
        els.append(s)
    body = opt + els
    if b.get("line_order") is not None:       # permutation of all body lines (options and constituents)
        body = [body[i] for i in b["line_order"]]
    return lines + body


def render_spread(blocks, weights):
    """One SOLUTION_SPREAD block for a list of SOLUTION blocks (same default unit; union of columns)."""
    b0 = blocks[0]
    ud0 = b0.get("ud") or {}
    default = ud0.get("default", "mol/" + {"kgw": "kgw", "l": "L", "kgs": "kgs"}[b0.get("fam", "kgw")])
    lines = ["SOLUTION_SPREAD", " -units %s" % default]
    cols = ["Number", "temp", "pH", "pe", "water"]
    if any(b.get("density") is not None for b in blocks):
        cols.append("density")
    if any(b.get("pressure") is not None for b in blocks):
        cols.append("pressure")
    elcols = []
    for b in blocks:
        for e in b["els"]:
            if e["el"] not in elcols:
                elcols.append(e["el"])
    # per-element unit descriptions go into the optional units line (must be the same for all rows)
    # (an element followed by a phase name / redox couple keeps its unit description inside the cell, because the
    # units line is appended after the cell text)
    sub = {}
    incell = set(e["el"] for b in blocks for e in b["els"] if e.get("extra"))
    for b in blocks:
        for el, d in ((b.get("ud") or {}).get("per") or {}).items():
            if el not in incell:
                sub[el] = d
    head = cols + elcols
    lines.append("\t".join(head))
    if sub:
        cells = []
        for h in head:
            d = sub.get(h)
            if not d:
                cells.append("")
            else:
                s = d.get("unit") or ""
                if d.get("as"):
                    s += " as " + d["as"]
                if d.get("gfw") is not None:
                    s += " gfw " + num(d["gfw"])
                cells.append(s.strip())
        lines.append("\t".join(cells))
    for b in blocks:
        row = []
        for h in cols:
            if h == "Number":
                row.append(str(b["n"]))
            elif h == "temp":
                row.append(num(b.get("temp", 25.0)))
            elif h == "pH":
                row.append(num(b["pH"]) + ((" " + b["pH_extra"]) if b.get("pH_extra") else ""))
            elif h == "pe":
                row.append(num(b.get("pe", 4.0)) + ((" " + b["pe_extra"]) if b.get("pe_extra") else ""))
            elif h == "water":
                row.append(num(b.get("water", 1.0)))
            elif h == "density":
                row.append("" if b.get("density") is None else num(b["density"][0]) + (" calc" if b["density"][1] else ""))
            elif h == "pressure":
                row.append("" if b.get("pressure") is None else num(b["pressure"]))
        by = {e["el"]: e for e in b["els"]}
        for el in elcols:
            if el not in by:
                row.append("")
                continue
            e = by[el]
            if el in incell:
                cell = conc_text(weights, el, e["c"], default, ((b.get("ud") or {}).get("per") or {}).get(el, {}))
                if e.get("extra"):
                    cell += " " + e["extra"]
            else:
                # the number only: unit/as/gfw are in the units line
                cell = conc_text(weights, el, e["c"], default, dict(sub.get(el, {}))).split(" ")[0]
            row.append(cell)
        lines.append("\t".join(row))
    return lines


def render_block(b, weights):
    k = b["k"]
    if k == "SOLUTION":
        return render_solution(b, weights)
    if k == "SPREAD":
        return render_spread(b["solutions"], weights)
    if k == "EQUILIBRIUM_PHASES":
        out = ["EQUILIBRIUM_PHASES %d" % b["n"]]
        for it in b["items"]:
            s = " %s %s %s" % (it[0], num(it[1]), num(it[2]))
            if len(it) > 3 and it[3]:
                s += " " + it[3]
            out.append(s)
        return out
    if k == "EXCHANGE":
        out = ["EXCHANGE %d" % b["n"]]
        body = [" %s %s" % (f, num(m)) for f, m in b["items"]]
        if b.get("equil") is not None:
            body.append(" -equilibrate %d" % b["equil"])
        return out + body
    if k == "SURFACE":
        out = ["SURFACE %d" % b["n"]]
        body = []
        for it in b["items"]:
            s = " %s %s" % (it[0], num(it[1]))
            if it[2] is not None:
                s += " %s %s" % (num(it[2]), num(it[3]))
            body.append(s)
        if b.get("equil") is not None:
            body.append(" -equilibrate %d" % b["equil"])
        body += [" " + o for o in b.get("opts", [])]
        return out + body
    if k == "GAS_PHASE":
        out = ["GAS_PHASE %d" % b["n"], " -%s" % b["kind"], " -pressure %s" % num(b["pressure"]),
               " -volume %s" % num(b["volume"]), " -temperature %s" % num(b.get("temp", 25.0))]
        out += [" %s %s" % (g, num(p)) for g, p in b["items"]]
        if b.get("equil") is not None:
            out.append(" -equilibrate %d" % b["equil"])
        return out
    if k == "REACTION":
        out = ["REACTION %d" % b["n"]] + [" %s %s" % (f, num(c)) for f, c in b["items"]]
        if "amounts" in b:
            out.append(" " + " ".join(num(a) for a in b["amounts"]) + " moles")
        else:
            out.append(" %s moles in %d steps" % (num(b["total"]), b["steps"]))
        return out
    if k == "KINETICS":
        out = ["KINETICS %d" % b["n"]]
        for it in b["items"]:
            out.append(" %s" % it["name"])
            out.append("  -formula %s" % it["formula"])
            out.append("  -m %s" % num(it["m"]))
            out.append("  -m0 %s" % num(it["m0"]))
            out.append("  -parms %s" % " ".join(num(p) for p in it["parms"]))
            out.append("  -tol %s" % num(it["tol"]))
        out.append(" -steps %s" % b["steps"])
        out += [" " + o for o in b.get("opts", [])]
        return out
    if k == "MIX":
        return ["MIX %d" % b["n"]] + [" %d %s" % (s, num(f)) for s, f in b["items"]]
    if k == "USE":
        return ["USE %s %s" % (b["what"], b["n"] if b["n"] is not None else "none")]
    if k == "SAVE":
        return ["SAVE %s %d" % (b["what"], b["n"])]
    if k in ("RATES", "RAW"):
        return b["text"].rstrip("\n").split("\n")
    raise ValueError(k)


def render(model, weights):
    out = []
    for sim in model:
        for b in sim:
            out += render_block(b, weights)
        out.append("END")
    return "\n".join(out) + "\n"


def clone(model):
    return copy.deepcopy(model)
