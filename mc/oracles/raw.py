"""Independent reader for the RAW text written by `DUMP` (PHREEQC "*_RAW" keyword blocks) and the element / charge
inventory of one cell.  Shared by C02 (conservation), C03, C10 and C14.

Nothing in here calls the library.  The grammar is taken from what the dump text looks like (one header line per block at
column 0, options introduced by `-name`, nested objects and data rows recognised by *indentation*), formulas of phases
come from the database text (PHASES blocks), formulas are parsed with a small parser of the documented formula syntax.

API
---
parse(text) -> {(kind, n): block}
    kind  is the keyword as written, e.g. "SOLUTION_RAW", "EXCHANGE_RAW", "MIX_RAW" ...
    n     is the user number (int).  A header "KIND n-m" is stored under n and block["n_end"] = m.
    block is a plain dict:
        "kind", "n", "n_end", "desc" (description text of the header line), "text" (the block verbatim, header included,
        trailing newline included), and one entry per option (leading '-' removed, spelled as in the dump):
          * scalar option                     -> float (or str when it is not a number; "" when empty)
          * option followed by `name value` rows (NameDouble)   -> {name: float}      (e.g. "totals", "activities", "namecoef")
          * option followed by other rows     -> list of rows, each a list of float/str  (e.g. "steps", "temps", "d_params")
          * repeatable nested objects         -> {name: dict} under the option name:
                "component"        (EQUILIBRIUM_PHASES, EXCHANGE, SURFACE, GAS_PHASE, KINETICS; SOLID_SOLUTIONS inside a solid solution)
                "charge_component" (SURFACE)      "solid_solution" (SOLID_SOLUTIONS)
            the nested dict has the same structure; its key order is the order of the dump ("_order" lists the names)
          * "g_map" / other options that repeat without being a nested object -> list of the values in order
        MIX_RAW          : "fractions" = {solution number(int): fraction}
        rows that follow the header directly are kept under "rows".
other(text) -> list of top-level lines that are not part of a RAW block (e.g. "USE mix none")
canonical(text, digits=12) -> text with every number rounded to `digits` significant digits and the header descriptions
    removed (a state key that does not depend on the simulation counter).

formula(s) -> ({element: coef}, charge)          documented formula syntax: Ca(OH)2, CaSO4:2H2O, Fe+3, [13C]O2, Hfo_wOH, X-
Database(text) / load_db(path) -> object with .phases {name: formula str}, .phase_elts(name), .reactant_elts(name)
    (a reactant name is a phase name if the database defines one, otherwise a formula - as in the manual for REACTION /
    KINETICS -formula)

inventory(blocks, db, n=1, mix=None) -> {element: moles, ..., "charge": eq}
    sum over the reactants numbered n: SOLUTION (or the MIX `mix` = {solution number: fraction}), EXCHANGE, SURFACE incl.
    diffuse-layer totals, GAS_PHASE, EQUILIBRIUM_PHASES, SOLID_SOLUTIONS, KINETICS.
parts(blocks, db, n=1, mix=None) -> {part name: {element: moles, "charge": eq}}   the same, per reactant.
amounts(blocks, n=1) -> list of (kind, name, moles) of every reactant amount of the cell (phases, gas components, exchanger
    totals, kinetic reactants, solid-solution components, surface sites)

Conventions that had to be taken from how the implementation writes the dump (each is listed in the C02 evidence):
  * SOLUTION_RAW -total_h / -total_o are the complete H and O of the solution (water, H(0)/O(0) and every solute);
    the entries H(0), O(0), H, O under -totals repeat part of that and are therefore not added again.
  * SOLUTION_RAW -totals of redox elements are written per valence state, `El(v)`; the element is the text before '('.
  * net charge: SOLUTION_RAW -cb; EXCHANGE_RAW component -charge_balance; SURFACE_RAW: a surface that has
    -charge_component objects (an electrostatic model) carries its charge (surface + diffuse layer) in their
    -charge_balance, a surface without them (-no_edl) in the -charge_balance of its components.
  * amounts are moles (solution totals are moles, not molalities).
"""
import re

__all__ = ["parse", "other", "canonical", "formula", "Database", "load_db", "inventory", "parts", "amounts"]

_HDR = re.compile(r"^([A-Z][A-Z_]*_RAW)\s+(-?\d+)(?:-(-?\d+))?[ \t]?(.*)$")
_NESTED = ("component", "charge_component", "solid_solution")
_NUM = re.compile(r"^[+-]?(\d+\.?\d*|\.\d+)([eE][+-]?\d+)?$")


def _num(tok):
    if _NUM.match(tok):
        return float(tok)
    low = tok.lower()
    if low in ("nan", "-nan", "+nan", "inf", "-inf", "+inf"):
        return float(low.replace("+", ""))
    return tok


def _strip_comment(line):
    i = line.find("#")
    return line if i < 0 else line[:i]


def _split_blocks(text):
    """-> (list of (header match, [lines]), [other top-level lines])"""
    blocks, others, cur = [], [], None
    for line in text.splitlines(True):
        m = _HDR.match(line.rstrip("\r\n"))
        if m:
            cur = (m, [line])
            blocks.append(cur)
        elif line[:1] not in (" ", "\t", "\n", "\r", "") and not line.startswith("#"):
            cur = None
            others.append(line.rstrip("\r\n"))
        elif cur is not None:
            cur[1].append(line)
    return blocks, others


def _indent(line):
    n = 0
    for ch in line:
        if ch == " ":
            n += 1
        elif ch == "\t":
            n += 8 - n % 8
        else:
            break
    return n


def _tree(lines):
    """Indentation tree of the body lines.  node = [indent, name or None, value tokens, children]"""
    root = [-1, None, [], []]
    stack = [root]
    for raw_line in lines:
        line = _strip_comment(raw_line.rstrip("\r\n"))
        if not line.strip():
            continue
        ind = _indent(line)
        toks = line.split()
        if toks[0].startswith("-") and not _NUM.match(toks[0]) and len(toks[0]) > 1:
            node = [ind, toks[0][1:], toks[1:], []]
            while stack[-1][0] >= ind:
                stack.pop()
            stack[-1][3].append(node)
            stack.append(node)
        else:
            # data row: belongs to the innermost open option that is indented less than the row
            while stack[-1][0] >= ind and len(stack) > 1:
                stack.pop()
            stack[-1][3].append([ind, None, toks, []])
    return root


def _value(toks):
    if not toks:
        return ""
    if len(toks) == 1:
        return _num(toks[0])
    return [_num(t) for t in toks]


def _convert(node):
    """children of `node` -> dict"""
    out = {}
    rows = []
    for ind, name, toks, kids in node[3]:
        if name is None:
            rows.append([_num(t) for t in toks])
            continue
        if name in _NESTED:
            key = " ".join(toks)
            sub = _convert([ind, name, toks, kids])
            sub["name"] = key
            d = out.setdefault(name, {})
            d[key] = sub
            out.setdefault("_order_" + name, []).append(key)
            continue
        subopts = [k for k in kids if k[1] is not None]
        subrows = [k[2] for k in kids if k[1] is None]
        if subopts:
            val = _convert([ind, name, toks, kids])
            if toks:
                val["value"] = _value(toks)
        elif subrows:
            if all(len(r) == 2 and not _NUM.match(r[0]) and isinstance(_num(r[1]), float) for r in subrows):
                val = {}
                for r in subrows:
                    val[r[0]] = val.get(r[0], 0.0) + float(_num(r[1]))
            elif all(len(r) == 2 and isinstance(_num(r[0]), float) and isinstance(_num(r[1]), float) for r in subrows) and \
                    name in ("diffuse_layer_species", "species_map", "log_gamma_map", "log_molalities_map"):
                val = {int(float(r[0])): float(_num(r[1])) for r in subrows}
            else:
                val = [[_num(t) for t in r] for r in subrows]
                if toks:
                    val.insert(0, [_num(t) for t in toks])
        else:
            val = _value(toks)
        if name in out:
            if not isinstance(out[name], list) or name not in out.get("_repeated", ()):
                out[name] = [out[name]]
                out.setdefault("_repeated", []).append(name)
            out[name].append(val)
        else:
            out[name] = val
    if rows:
        out["rows"] = rows
    return out


# options that are name->value lists even when they happen to be empty in a given dump
_NAMEDOUBLE = ("totals", "activities", "gammas", "diffuse_layer_totals", "namecoef", "reactant_list", "element_list",
               "eltList", "assemblage_totals", "SSassemblage_totals")


def _normalise(d):
    for k in list(d):
        v = d[k]
        if k in _NAMEDOUBLE and v == "":
            d[k] = {}
        elif isinstance(v, dict) and k in _NESTED:
            for sub in v.values():
                _normalise(sub)
    return d


def parse(text):
    """Parse DUMP text.  See the module docstring."""
    out = {}
    blocks, _ = _split_blocks(text)
    for m, lines in blocks:
        kind, n, n_end, desc = m.group(1), int(m.group(2)), m.group(3), m.group(4).strip()
        d = _convert(_tree(lines[1:]))
        _normalise(d)
        d.pop("_repeated", None)
        d["kind"], d["n"], d["n_end"], d["desc"] = kind, n, int(n_end) if n_end is not None else n, desc
        d["text"] = "".join(lines)
        if kind == "MIX_RAW":
            d["fractions"] = {int(r[0]): float(r[1]) for r in d.get("rows", [])}
        out[(kind, n)] = d
    return out


def other(text):
    return _split_blocks(text)[1]


_NUMTXT = re.compile(r"(?<![A-Za-z_(\[])[+-]?(?:\d+\.\d*|\.\d+|\d+)(?:[eE][+-]?\d+)?(?![A-Za-z_)\]])")


def canonical(text, digits=12):
    """State key text: numbers rounded to `digits` significant digits, header descriptions dropped."""
    out = []
    for line in text.splitlines():
        m = _HDR.match(line)
        if m:
            out.append("%s %s" % (m.group(1), m.group(2)))
            continue
        out.append(_NUMTXT.sub(lambda mm: "%.*g" % (digits, float(mm.group(0))), line.rstrip()))
    return "\n".join(out) + "\n"


# ------------------------------------------------------------------ formulas
class FormulaError(ValueError):
    pass


def _read_number(s, i):
    j = i
    while j < len(s) and (s[j].isdigit() or s[j] == "."):
        j += 1
    if j == i:
        return 1.0, i
    return float(s[i:j]), j


def _elt_name(s, i):
    """Element name: a capital letter followed by lower-case letters / underscores, or [name] likewise."""
    j = i
    if s[j] == "[":
        k = s.find("]", j)
        if k < 0:
            raise FormulaError("no closing ] in %r" % s)
        j = k + 1
    elif s[j].isupper():
        j += 1
    else:
        raise FormulaError("element expected at %r in %r" % (s[i:], s))
    while j < len(s) and (s[j].islower() or s[j] == "_"):
        j += 1
    return s[i:j], j


def _group(s, i, mult, acc, depth):
    """Parse until ')' (depth>0), ':' or end / charge.  Returns the new position."""
    while i < len(s):
        c = s[i]
        if c == "(":
            sub = {}
            i = _group(s, i + 1, 1.0, sub, depth + 1)
            if i >= len(s) or s[i] != ")":
                raise FormulaError("unbalanced ( in %r" % s)
            n, i = _read_number(s, i + 1)
            for e, v in sub.items():
                acc[e] = acc.get(e, 0.0) + v * n * mult
        elif c == ")":
            if depth == 0:
                raise FormulaError("unbalanced ) in %r" % s)
            return i
        elif c == ":" or c in "+-":
            return i
        elif c.isupper() or c == "[":
            e, i = _elt_name(s, i)
            n, i = _read_number(s, i)
            acc[e] = acc.get(e, 0.0) + n * mult
        else:
            raise FormulaError("unexpected %r in %r" % (c, s))
    return i


def formula(s):
    """'CaSO4:2H2O' -> ({'Ca':1,'S':1,'O':6,'H':4}, 0.0);  'Fe+3' -> ({'Fe':1}, 3.0);  'e-' -> ({}, -1.0)"""
    s = s.strip()
    if s in ("e-", "e"):
        return {}, -1.0
    acc = {}
    charge = 0.0
    i = 0
    mult = 1.0
    while i < len(s):
        i = _group(s, i, mult, acc, 0)
        if i >= len(s):
            break
        if s[i] == ":":
            mult, i = _read_number(s, i + 1)
        elif s[i] in "+-":
            # charge: sign followed by an optional number, or repeated signs (Fe+++)
            sign = 1.0 if s[i] == "+" else -1.0
            j = i
            while j < len(s) and s[j] == s[i]:
                j += 1
            nsig = j - i
            n, k = _read_number(s, j)
            charge += sign * (n if k > j else nsig)
            i = k
            if i < len(s):
                raise FormulaError("text after the charge in %r" % s)
    return {e: v for e, v in acc.items()}, charge


# ------------------------------------------------------------------ database text (PHASES only)
_KEYWORDS = set("""SOLUTION_MASTER_SPECIES SOLUTION_SPECIES PHASES EXCHANGE_MASTER_SPECIES EXCHANGE_SPECIES
SURFACE_MASTER_SPECIES SURFACE_SPECIES RATES END PITZER SIT NAMED_EXPRESSIONS ISOTOPES CALCULATE_VALUES ISOTOPE_RATIOS
ISOTOPE_ALPHAS LLNL_AQUEOUS_MODEL_PARAMETERS MEAN_GAMMAS GAS_BINARY_PARAMETERS USER_PUNCH USER_PRINT USER_GRAPH
SELECTED_OUTPUT SOLUTION KNOBS PRINT TITLE DATABASE INCLUDE$ NAMED_LOG_K NAMED_ANALYTICAL_EXPRESSIONS
NAMED_ANALYTICAL_EXPRESSION EQUILIBRIUM_PHASES EXCHANGE SURFACE GAS_PHASE SOLID_SOLUTIONS KINETICS REACTION MIX USE SAVE
REACTION_TEMPERATURE REACTION_PRESSURE INCREMENTAL_REACTIONS RUN_CELLS DELETE COPY DUMP TRANSPORT ADVECTION
INVERSE_MODELING SOLUTION_SPREAD""".split())


def _logical_lines(text):
    buf = ""
    for raw_line in text.splitlines():
        line = _strip_comment(raw_line).rstrip()
        if line.endswith("\\"):
            buf += line[:-1] + " "
            continue
        line = buf + line
        buf = ""
        for part in line.split(";"):
            part = part.strip()
            if part:
                yield part


class Database:
    """Phase formulas of a PHREEQC database text: the first chemical formula on the left-hand side of the phase's
    dissolution reaction (manual, PHASES, line 2)."""

    def __init__(self, text):
        self.phases = {}
        self._lower = {}
        in_phases = False
        name = None
        for line in _logical_lines(text):
            first = line.split()[0]
            if first.upper() in _KEYWORDS:          # keywords are case-insensitive
                in_phases = first.upper() == "PHASES"
                name = None
                continue
            if not in_phases:
                continue
            if "=" in line and not first.startswith("-"):
                if name is not None and name not in self.phases:
                    lhs = line.split("=")[0].split()
                    f = lhs[0]
                    coef = 1.0
                    if _NUM.match(f) and len(lhs) > 1:
                        coef, f = float(f), lhs[1]
                    self.phases[name] = (f, coef)
                    self._lower[name.lower()] = name
                name = None
            elif first.startswith("-") or first.lower() in ("log_k", "logk", "delta_h", "deltah", "analytic", "analytical_expression",
                                                             "a_e", "ae", "vm", "t_c", "p_c", "omega", "add_logk", "add_log_k", "add_constant"):
                continue
            else:
                name = first

    def phase_name(self, name):
        """Exact spelling of a phase (phase names are case-insensitive in the input)."""
        return self._lower.get(name.lower())

    def phase_elts(self, name):
        p = self.phase_name(name)
        if p is None:
            raise KeyError("phase %r is not defined in the database" % name)
        f, coef = self.phases[p]
        elts, z = formula(f)
        return {e: v * coef for e, v in elts.items()}, z * coef

    def reactant_elts(self, name):
        """Reactant given by phase name or by formula (REACTION, KINETICS -formula)."""
        if self.phase_name(name) is not None:
            return self.phase_elts(name)
        return formula(name)


_db_cache = {}


def load_db(path):
    if path not in _db_cache:
        with open(path, encoding="latin-1") as f:
            _db_cache[path] = Database(f.read())
    return _db_cache[path]


# ------------------------------------------------------------------ inventory
def _add(acc, elts, factor=1.0):
    for e, v in elts.items():
        acc[e] = acc.get(e, 0.0) + v * factor


def _solution_part(b):
    acc = {}
    for k, v in b.get("totals", {}).items():
        e = k.split("(")[0]
        if e in ("H", "O"):
            continue                      # contained in total_h / total_o
        acc[e] = acc.get(e, 0.0) + v
    acc["H"] = acc.get("H", 0.0) + float(b["total_h"])
    acc["O"] = acc.get("O", 0.0) + float(b["total_o"])
    acc["charge"] = float(b["cb"])
    return acc


def parts(blocks, db, n=1, mix=None):
    """Per-reactant inventories of cell n.  `mix` = {solution number: fraction} replaces solution n."""
    out = {}
    if mix is None:
        mix = {n: 1.0} if ("SOLUTION_RAW", n) in blocks else {}
    for k in sorted(mix):
        b = blocks.get(("SOLUTION_RAW", k))
        if b is None:
            raise KeyError("solution %d is not in the dump" % k)
        acc = {}
        _add(acc, _solution_part(b), mix[k])
        out["solution %d x %.12g" % (k, mix[k])] = acc
    b = blocks.get(("EXCHANGE_RAW", n))
    if b is not None:
        for name, c in b.get("component", {}).items():
            acc = dict(c.get("totals", {}))
            acc["charge"] = float(c.get("charge_balance", 0.0))
            out["exchange " + name] = acc
    b = blocks.get(("SURFACE_RAW", n))
    if b is not None:
        charges = b.get("charge_component", {})
        for name, c in b.get("component", {}).items():
            acc = dict(c.get("totals", {}))
            acc["charge"] = 0.0 if charges else float(c.get("charge_balance", 0.0))
            out["surface " + name] = acc
        for name, c in charges.items():
            acc = dict(c.get("diffuse_layer_totals", {}) or {})
            acc["charge"] = float(c.get("charge_balance", 0.0))
            out["surface-charge " + name] = acc
    b = blocks.get(("GAS_PHASE_RAW", n))
    if b is not None:
        for name, c in b.get("component", {}).items():
            elts, z = db.phase_elts(name)
            acc = {}
            _add(acc, elts, float(c["moles"]))
            acc["charge"] = z * float(c["moles"])
            out["gas " + name] = acc
    b = blocks.get(("EQUILIBRIUM_PHASES_RAW", n))
    if b is not None:
        for name, c in b.get("component", {}).items():
            af = c.get("add_formula", "")
            elts, z = formula(af) if isinstance(af, str) and af else db.phase_elts(name)
            acc = {}
            _add(acc, elts, float(c["moles"]))
            acc["charge"] = z * float(c["moles"])
            out["phase " + name] = acc
    b = blocks.get(("SOLID_SOLUTIONS_RAW", n))
    if b is not None:
        for ssname, ss in b.get("solid_solution", {}).items():
            for name, c in ss.get("component", {}).items():
                elts, z = db.phase_elts(name)
                acc = {}
                _add(acc, elts, float(c["moles"]))
                acc["charge"] = z * float(c["moles"])
                out["solid-solution %s/%s" % (ssname, name)] = acc
    b = blocks.get(("KINETICS_RAW", n))
    if b is not None:
        for name, c in b.get("component", {}).items():
            acc = {"charge": 0.0}
            for fname, coef in c.get("namecoef", {}).items():
                elts, z = db.reactant_elts(fname)
                _add(acc, elts, coef * float(c["m"]))
                acc["charge"] += z * coef * float(c["m"])
            out["kinetics " + name] = acc
    return out


def inventory(blocks, db, n=1, mix=None):
    """{element: moles, 'charge': eq} of cell n (all reactants numbered n; solution n or the mixture `mix`)."""
    tot = {"charge": 0.0}
    for acc in parts(blocks, db, n, mix).values():
        _add(tot, acc)
    return tot


def amounts(blocks, n=1):
    """Every reactant amount of cell n: [(kind, name, moles)]"""
    out = []
    b = blocks.get(("EQUILIBRIUM_PHASES_RAW", n))
    if b is not None:
        for name, c in b.get("component", {}).items():
            out.append(("phase", name, float(c["moles"])))
    b = blocks.get(("GAS_PHASE_RAW", n))
    if b is not None:
        for name, c in b.get("component", {}).items():
            out.append(("gas", name, float(c["moles"])))
    b = blocks.get(("EXCHANGE_RAW", n))
    if b is not None:
        for name, c in b.get("component", {}).items():
            for e, v in c.get("totals", {}).items():
                out.append(("exchanger", "%s:%s" % (name, e), float(v)))
    b = blocks.get(("KINETICS_RAW", n))
    if b is not None:
        for name, c in b.get("component", {}).items():
            out.append(("kinetic", name, float(c["m"])))
    b = blocks.get(("SOLID_SOLUTIONS_RAW", n))
    if b is not None:
        for ssname, ss in b.get("solid_solution", {}).items():
            for name, c in ss.get("component", {}).items():
                out.append(("solid-solution", "%s/%s" % (ssname, name), float(c["moles"])))
    b = blocks.get(("SURFACE_RAW", n))
    if b is not None:
        for name, c in b.get("component", {}).items():
            me = c.get("master_element", "")
            if isinstance(me, str) and me in c.get("totals", {}):
                out.append(("surface-sites", name, float(c["totals"][me])))
    return out
