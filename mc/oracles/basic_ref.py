"""Reference interpreter for the documented PHREEQC BASIC subset (property C17).

Written from the PHREEQC manual (version 2, table "Standard Basic statements and functions"; version 3 release
notes for CEIL, FLOOR, PAD, INSTR, LTRIM, RTRIM, TRIM, STR_F$, STR_E$, PUT/GET) and ordinary (ANSI / Microsoft) BASIC
semantics - not from PBasic.cpp.  It interprets the *program text* (own tokenizer, own precedence parser).

Three outcomes beyond a normal value:

* `BasicError`   - the program is malformed / ill-typed: the implementation must report a BASIC error.
* `Unspecified`  - the documentation leaves the result open (0^0, x/0, MOD of negative or fractional operands, logical
                   operators on non-integers, LOG(0), half-integer subscripts, ...) or the result is *ill-conditioned*:
                   a discrete decision (comparison, FLOOR, subscript) or a digit string depends on the last bits of an
                   inexact elementary operation (`^`, EXP, LOG, SIN, ...).  Such programs are outside the claim and are
                   not generated / not judged.
* `StepLimit`    - the program did not finish within the step budget (non-terminating mutants).

Every number carries `u`, an absolute bound on how far a legitimate implementation (correctly rounded + - * /, inexact
elementary functions good to a few ulp, `^` possibly computed as exp(y*log(x))) may be from `v`.  `u` is only used to
*recognise* ill-conditioned programs; the comparison tolerance of the check is the property's 1e-12 relative.

Implementation-defined constants that had to be taken from the implementation (listed in the evidence):
truth value of a relation (1), STR$/PRINT number formats, default array bound (10), line-number `THEN n` form.
"""
import math

ULP = 2.220446049250313e-16


class BasicError(Exception):
    pass


class Unspecified(Exception):
    pass


class StepLimit(Exception):
    pass


class _End(Exception):
    pass


class Num(object):
    __slots__ = ("v", "u")

    def __init__(self, v, u=0.0):
        if v != v or v in (math.inf, -math.inf):
            raise Unspecified("non-finite number")
        self.v = v
        self.u = u

    def __repr__(self):
        return "Num(%r,%g)" % (self.v, self.u)


TRUE = 1.0          # implementation-defined (classic BASIC uses -1); listed as an assumption

KEYWORDS = {"let", "print", "punch", "save", "put", "put$", "if", "then", "else", "for", "to", "step", "next", "while",
            "wend", "goto", "gosub", "return", "on", "data", "read", "restore", "dim", "end", "rem", "and", "or", "xor",
            "not", "mod"}
NUMFUNCS1 = {"abs", "sgn", "sqr", "sqrt", "exp", "log", "log10", "sin", "cos", "tan", "arctan", "ceil", "floor"}
FUNCS = NUMFUNCS1 | {"len", "mid$", "str$", "str_f$", "str_e$", "val", "chr$", "asc", "instr", "ltrim", "rtrim", "trim",
                     "pad", "get", "get$", "time"}


# ------------------------------------------------------------------------------------------------ tokenizer
def tokenize(text):
    """-> list of (kind, value); kinds: num str id op.  Raises BasicError on a character outside the language."""
    out = []
    i, n = 0, len(text)
    while i < n:
        c = text[i]
        if c in " \t":
            i += 1
        elif c == '"':
            j = text.find('"', i + 1)
            if j < 0:
                raise BasicError("unterminated string")
            out.append(("str", text[i + 1:j]))
            i = j + 1
        elif c.isdigit() or c == ".":
            j = i
            while j < n and text[j].isdigit():
                j += 1
            if j < n and text[j] == ".":
                j += 1
                while j < n and text[j].isdigit():
                    j += 1
            if j == i + 1 and c == ".":
                raise BasicError("lone '.'")
            if j < n and text[j] in "eE":
                k = j + 1
                if k < n and text[k] in "+-":
                    k += 1
                if k < n and text[k].isdigit():
                    while k < n and text[k].isdigit():
                        k += 1
                    j = k
            out.append(("num", float(text[i:j])))
            i = j
        elif c.isalpha():
            j = i
            while j < n and (text[j].isalnum() or text[j] in "_$"):
                j += 1
            w = text[i:j].lower()
            if w == "rem":
                out.append(("id", "rem"))
                break
            out.append(("id", w))
            i = j
        elif c in "<>":
            if text[i:i + 2] in ("<=", ">=", "<>"):
                out.append(("op", text[i:i + 2]))
                i += 2
            else:
                out.append(("op", c))
                i += 1
        elif c in "+-*/^()=,;:":
            out.append(("op", c))
            i += 1
        else:
            raise BasicError("illegal character %r" % c)
    return out


# ------------------------------------------------------------------------------------------------ expression parser
class Parser(object):
    """Standard BASIC precedence: ^  >  unary -  >  * / MOD  >  + -  >  relational  >  NOT  >  AND  >  OR XOR.
    All binary operators associate to the left."""

    def __init__(self, toks, pos=0):
        self.t = toks
        self.p = pos
        self.parens = set()      # id() of sub-trees that were written in parentheses

    def _bare(self, e, *ops):
        """e is an operator expression (optionally: with one of `ops` at its root) that was NOT parenthesised."""
        return e[0] == "bin" and id(e) not in self.parens and (not ops or e[1] in ops)

    def peek(self):
        return self.t[self.p] if self.p < len(self.t) else (None, None)

    def at(self, kind, val=None):
        k, v = self.peek()
        return k == kind and (val is None or v == val)

    def at_id(self, *names):
        k, v = self.peek()
        return k == "id" and v in names

    def take(self):
        tok = self.peek()
        if tok[0] is None:
            raise BasicError("unexpected end of statement")
        self.p += 1
        return tok

    def need_op(self, v):
        if not self.at("op", v):
            raise BasicError("expected %r" % v)
        self.p += 1

    def need_id(self, v):
        if not self.at("id", v):
            raise BasicError("expected %s" % v.upper())
        self.p += 1

    def eos(self):
        k, v = self.peek()
        return k is None or (k == "op" and v == ":") or (k == "id" and v == "else")

    def expr(self):
        a = self.and_()
        while self.at_id("or", "xor"):
            op = self.take()[1]
            b = self.and_()
            a = ("bin", op, a, b)
        return a

    def and_(self):
        a = self.not_()
        while self.at_id("and"):
            self.take()
            b = self.not_()
            a = ("bin", "and", a, b)
        return a

    def not_(self):
        if self.at_id("not"):
            self.take()
            x = self.not_()
            if self._bare(x):
                # BASIC dialects disagree on how tightly NOT binds (classic: looser than relations; p2c BASIC: a factor)
                raise Unspecified("NOT directly before an unparenthesised operator expression")
            return ("un", "not", x)
        return self.rel()

    def rel(self):
        a = self.add()
        while self.peek()[0] == "op" and self.peek()[1] in ("<", ">", "<=", ">=", "=", "<>"):
            op = self.take()[1]
            b = self.add()
            a = ("bin", op, a, b)
        return a

    def add(self):
        a = self.mul()
        while self.peek()[0] == "op" and self.peek()[1] in ("+", "-"):
            op = self.take()[1]
            b = self.mul()
            a = ("bin", op, a, b)
        return a

    def mul(self):
        a = self.unary()
        while (self.peek()[0] == "op" and self.peek()[1] in ("*", "/")) or self.at_id("mod"):
            op = self.take()[1]
            b = self.unary()
            a = ("bin", op, a, b)
        return a

    def unary(self):
        if self.at("op", "-") or self.at("op", "+"):
            sign = self.take()[1]
            x = self.unary()
            if self._bare(x, "^"):
                raise Unspecified("unary sign directly before ^ (-a^b: dialects disagree)")
            return ("un", sign, x)
        return self.power()

    def power(self):
        a = self.primary()
        while self.at("op", "^"):
            if self._bare(a, "^"):
                raise Unspecified("chained ^ (associativity: dialects disagree)")
            self.take()
            # the exponent may carry its own sign: 2 ^ -1
            if self.at("op", "-"):
                self.take()
                b = ("un", "-", self.primary())
            else:
                b = self.primary()
            a = ("bin", "^", a, b)
        return a

    def args(self, name="array"):
        self.need_op("(")
        if self.at("op", ")"):
            raise BasicError("%s with an empty argument list" % name.upper())
        out = [self.expr()]
        while self.at("op", ","):
            self.take()
            out.append(self.expr())
        self.need_op(")")
        return out

    def primary(self):
        k, v = self.take()
        if k == "num":
            return ("num", v)
        if k == "str":
            return ("str", v)
        if k == "op" and v == "(":
            e = self.expr()
            self.need_op(")")
            self.parens.add(id(e))
            return e
        if k == "id":
            if v in FUNCS:
                if v == "time":
                    return ("call", "time", [])
                return ("call", v, self.args(v))
            if v in KEYWORDS:
                raise BasicError("keyword %s in expression" % v.upper())
            idx = self.args() if self.at("op", "(") else []
            return ("var", v, idx)
        raise BasicError("unexpected %r in expression" % (v,))

    def varref(self):
        k, v = self.take()
        if k != "id" or v in KEYWORDS or v in FUNCS:
            raise BasicError("variable expected")
        idx = self.args() if self.at("op", "(") else []
        return ("var", v, idx)


# ------------------------------------------------------------------------------------------------ number helpers
def _isint(x):
    return x == math.floor(x)


def to_int(n, what="integer"):
    """Round a Num to an integer the way 'rounded to an integer' is documented; ties and ill-conditioned values are open."""
    if not isinstance(n, Num):
        raise BasicError("number expected for %s" % what)
    f = math.floor(n.v + 0.5)
    if n.v + 0.5 == f and not _isint(n.v):
        raise Unspecified("half-integer rounded to an integer")
    if n.u > 0 and (math.floor(n.v - n.u + 0.5) != f or math.floor(n.v + n.u + 0.5) != f):
        raise Unspecified("ill-conditioned integer conversion")
    if abs(f) > 2 ** 31:
        raise Unspecified("integer out of range")
    return int(f)


def exact_int(n, what):
    if not isinstance(n, Num):
        raise BasicError("number expected for %s" % what)
    if n.u > 0:
        raise Unspecified("%s on an inexact value" % what)
    if not _isint(n.v):
        raise Unspecified("%s on a non-integer" % what)
    if abs(n.v) >= 2 ** 62:
        raise Unspecified("%s out of integer range" % what)
    return int(n.v)


def fmt_number(v, wide=True):
    """STR$ / PRINT format (implementation-defined; taken from the implementation): integers as %w.0f, others %w.pe."""
    w, p = (20, 12) if wide else (12, 4)
    if _isint(v):
        return "%*.0f" % (w, v)
    return "%*.*e" % (w, p, v)


def _safe(f, *a):
    try:
        r = f(*a)
    except (OverflowError, ValueError, ZeroDivisionError):
        raise Unspecified("math range")
    if r != r or r in (math.inf, -math.inf):
        raise Unspecified("non-finite result")
    return r


class Interp(object):
    def __init__(self, mem=None, max_steps=20000, wide=True, time=1.0, quirks=()):
        # `quirks` switches on *defect models* (never used for the verdict, only to name the mechanism of a mismatch):
        #   "mod_residue": a MOD b computed as sign(a) * fmod(|a| + 1e-14, b)
        self.quirks = frozenset(quirks)
        self.mem = mem if mem is not None else {}
        self.max_steps = max_steps
        self.wide = wide
        self.time = time

    # -------------------------------------------------------------------------------------------- program loading
    def load(self, lines):
        """lines: list of text lines 'NNN statements'.  Line numbers must be present (documented form)."""
        prog = {}
        for ln in lines:
            ln = ln.strip()
            if not ln:
                continue
            toks = tokenize(ln)
            if not toks or toks[0][0] != "num" or not _isint(toks[0][1]):
                raise BasicError("line without a line number")
            prog[int(toks[0][1])] = toks[1:]
        self.nums = sorted(prog)
        self.lines = [prog[k] for k in self.nums]
        self.index = dict((k, i) for i, k in enumerate(self.nums))
        # split into statements (token lists); IF keeps the rest of its line
        self.stmts = []
        for toks in self.lines:
            self.stmts.append(toks)

    # -------------------------------------------------------------------------------------------- run
    def run(self, lines):
        self.load(lines)
        self.vars = {}
        self.arrays = {}
        self.out_punch = []
        self.out_print = []      # list of lists (one per PRINT statement) of values
        self.saved = None
        self.stack = []          # control stack: ("for", var, limit, step, (li, pos)) / ("while", (li,pos)) / ("gosub", (li,pos))
        self.data_ptr = None     # (line index, item index)
        self.data = None
        self.steps = 0
        self.visited = set()     # line numbers that were executed
        li, pos = 0, 0
        try:
            while li < len(self.lines):
                nxt = self.exec_line(li, pos)
                if nxt is None:
                    li, pos = li + 1, 0
                else:
                    li, pos = nxt
        except _End:
            pass
        return self

    def tick(self):
        self.steps += 1
        if self.steps > self.max_steps:
            raise StepLimit()

    def find_line(self, n):
        if n not in self.index:
            raise BasicError("undefined line %d" % n)
        return self.index[n]

    def exec_line(self, li, pos):
        """Execute statements of line li starting at token position pos.  Returns None (fall to next line) or (li,pos)."""
        toks = self.lines[li]
        self.visited.add(self.nums[li])
        P = Parser(toks, pos)
        while True:
            while P.at("op", ":"):
                P.take()
            if P.peek()[0] is None or P.at_id("else"):
                return None
            self.tick()
            jump = self.exec_stmt(P, li)
            if jump is not None:
                if jump == "eol":
                    return None
                return jump
            if P.peek()[0] is None:
                return None
            if P.at_id("else"):
                return None           # end of the THEN part: the ELSE part is skipped
            if not P.at("op", ":"):
                raise BasicError("extra information on line")

    # -------------------------------------------------------------------------------------------- statements
    def exec_stmt(self, P, li):
        k, v = P.peek()
        if k != "id":
            raise BasicError("statement expected")
        self.cur_stmt = v if v in KEYWORDS else "let"
        if v == "rem":
            return "eol"
        if v == "let":
            P.take()
            return self.st_let(P)
        if v in ("print", "punch", "save"):
            P.take()
            vals = []
            while not P.eos():
                if P.at("op", ",") or P.at("op", ";"):
                    P.take()
                    continue
                # items may also be juxtaposed without a separator (as in classic PRINT lists)
                vals.append(self.ev(P.expr()))
            if v == "punch":
                self.out_punch.extend(vals)
            elif v == "print":
                self.out_print.append(vals)
            else:
                for x in vals:
                    if not isinstance(x, Num):
                        raise BasicError("SAVE of a string")
                    self.saved = x
            return None
        if v in ("put", "put$"):
            P.take()
            a = [self.ev(e) for e in P.args()]
            if len(a) < 2:
                raise BasicError("PUT needs a value and at least one index")
            if (v == "put") != isinstance(a[0], Num):
                raise BasicError("PUT type mismatch")
            key = ("s" if v == "put$" else "n",) + tuple(to_int(x, "PUT index") for x in a[1:])
            self.mem[key] = a[0]
            return None
        if v == "if":
            P.take()
            c = self.ev(P.expr())
            if not isinstance(c, Num):
                raise BasicError("IF needs a number")
            P.need_id("then")
            if c.u > 0 and abs(c.v) <= c.u:
                raise Unspecified("ill-conditioned IF")
            if c.v == 0:
                # skip to the matching ELSE (nested IFs pair with their own ELSE) or the end of the line
                depth = 0
                while True:
                    k2, v2 = P.peek()
                    if k2 is None:
                        return "eol"
                    P.take()
                    if k2 == "id" and v2 == "if":
                        depth += 1
                    elif k2 == "id" and v2 == "else":
                        if depth == 0:
                            break
                        depth -= 1
            if P.peek()[0] == "num":
                n = P.take()[1]
                return (self.find_line(int(n)), 0)
            if P.peek()[0] is None:
                return "eol"
            return self.exec_stmt(P, li)
        if v == "goto":
            P.take()
            n = to_int(self.ev(P.expr()), "line number")
            return (self.find_line(n), 0)
        if v == "gosub":
            P.take()
            n = to_int(self.ev(P.expr()), "line number")
            self.skip_to_eos(P)
            self.stack.append(("gosub", (li, P.p)))
            if len(self.stack) > 200:
                raise Unspecified("control stack depth")
            return (self.find_line(n), 0)
        if v == "return":
            P.take()
            while self.stack and self.stack[-1][0] != "gosub":
                self.stack.pop()
            if not self.stack:
                raise BasicError("RETURN without GOSUB")
            return self.stack.pop()[1]
        if v == "on":
            P.take()
            i = to_int(self.ev(P.expr()), "ON selector")
            if P.at_id("goto", "gosub"):
                kind = P.take()[1]
            else:
                raise BasicError("GOTO or GOSUB expected after ON")
            targets = []
            while True:
                if P.eos():
                    raise BasicError("malformed line-number list")
                k2, v2 = P.take()
                if k2 != "num" or not _isint(v2):
                    raise BasicError("malformed line-number list")
                targets.append(int(v2))
                if P.at("op", ","):
                    P.take()
                    continue
                break
            if not P.eos():
                raise BasicError("malformed line-number list")
            if kind == "gosub" and "on_gosub_frame" in self.quirks:
                # defect model: the GOSUB frame is pushed before the selector is range-checked
                self.stack.append(("gosub", (li, P.p)))
                if i < 1 or i > len(targets):
                    return None
                return (self.find_line(targets[i - 1]), 0)
            if i < 1 or i > len(targets):
                return None
            if kind == "gosub":
                self.stack.append(("gosub", (li, P.p)))
            return (self.find_line(targets[i - 1]), 0)
        if v == "for":
            P.take()
            var = P.varref()
            if var[1].endswith("$"):
                raise BasicError("string variable in FOR")
            P.need_op("=")
            a = self.num(P.expr())
            P.need_id("to")
            b = self.num(P.expr())
            s = Num(1.0)
            if P.at_id("step"):
                P.take()
                s = self.num(P.expr())
            if s.u > 0 or a.u > 0 or b.u > 0:
                raise Unspecified("inexact FOR bounds")
            if s.v == 0:
                raise Unspecified("STEP 0")
            self.assign(var, a)
            if not P.eos():
                raise BasicError("extra information after FOR")
            if (s.v > 0 and a.v > b.v) or (s.v < 0 and a.v < b.v):
                return self.skip_for(li, P.p, var[1])
            self.stack.append(("for", var, b.v, s.v, (li, P.p)))
            return None
        if v == "next":
            P.take()
            var = None
            if not P.eos():
                var = P.varref()
            while self.stack and not (self.stack[-1][0] == "for" and (var is None or self.stack[-1][1][1] == var[1])):
                if self.stack[-1][0] == "gosub":
                    raise BasicError("NEXT without FOR")
                self.stack.pop()
            if not self.stack:
                raise BasicError("NEXT without FOR")
            _, fv, lim, step, home = self.stack[-1]
            x = self.value_of(fv)
            if x.u > 0:
                raise Unspecified("inexact loop variable")
            nv = x.v + step
            self.assign(fv, Num(nv))
            if (step > 0 and nv <= lim) or (step < 0 and nv >= lim):
                return home
            self.stack.pop()
            return None
        if v == "while":
            P.take()
            start = (li, P.p - 1)
            c = self.num(P.expr())
            if c.u > 0 and abs(c.v) <= c.u:
                raise Unspecified("ill-conditioned WHILE")
            if not P.eos():
                raise BasicError("extra information after WHILE")
            if c.v != 0:
                self.stack.append(("while", start))
                return None
            return self.skip_while(li, P.p)
        if v == "wend":
            P.take()
            while self.stack and self.stack[-1][0] != "while":
                if self.stack[-1][0] == "gosub":
                    raise BasicError("WEND without WHILE")
                self.stack.pop()
            if not self.stack:
                raise BasicError("WEND without WHILE")
            if not P.eos():
                raise BasicError("extra information after WEND")
            return self.stack.pop()[1]
        if v == "data":
            self.skip_to_eos(P)
            return None
        if v == "read":
            P.take()
            while True:
                var = P.varref()
                val = self.next_datum()
                if var[1].endswith("$") != isinstance(val, str):
                    raise BasicError("READ type mismatch")
                self.assign(var, val)
                if P.at("op", ","):
                    P.take()
                    continue
                break
            return None
        if v == "restore":
            P.take()
            if P.eos():
                self.data_ptr = None
            else:
                n = to_int(self.ev(P.expr()), "line number")
                self.data_ptr = (self.find_line(n), None)
            return None
        if v == "dim":
            P.take()
            while True:
                k2, name = P.take()
                if k2 != "id" or name in KEYWORDS or name in FUNCS:
                    raise BasicError("array name expected")
                dims = [to_int(self.ev(e), "dimension") for e in P.args()]
                if name in self.arrays:
                    raise BasicError("array already dimensioned")
                if any(d < 0 for d in dims) or len(dims) > 4:
                    raise BasicError("bad dimension")
                self.arrays[name] = (dims, {})
                if P.at("op", ","):
                    P.take()
                    continue
                break
            return None
        if v == "end":
            P.take()
            raise _End()
        if v in KEYWORDS or v in FUNCS:
            raise BasicError("illegal statement %s" % v.upper())
        return self.st_let(P)

    def st_let(self, P):
        var = P.varref()
        P.need_op("=")
        val = self.ev(P.expr())
        if var[1].endswith("$") != isinstance(val, str):
            raise BasicError("type mismatch in assignment")
        self.assign(var, val)
        return None

    def skip_to_eos(self, P):
        while not P.eos():
            P.take()

    def skip_for(self, li, pos, name):
        """Zero-trip FOR: continue after the matching NEXT."""
        depth = 0
        while li < len(self.lines):
            toks = self.lines[li]
            while pos < len(toks):
                k, v = toks[pos]
                if k == "id" and v == "for":
                    depth += 1
                elif k == "id" and v == "next":
                    if depth == 0:
                        P = Parser(toks, pos + 1)
                        self.skip_to_eos(P)
                        return (li, P.p)
                    if pos + 1 < len(toks) and toks[pos + 1] == ("id", name):
                        raise Unspecified("unbalanced FOR/NEXT inside the body of a zero-trip loop")
                    depth -= 1
                pos += 1
            li, pos = li + 1, 0
        raise BasicError("FOR without NEXT")

    def skip_while(self, li, pos):
        depth = 0
        while li < len(self.lines):
            toks = self.lines[li]
            while pos < len(toks):
                k, v = toks[pos]
                if k == "id" and v == "while":
                    depth += 1
                elif k == "id" and v == "wend":
                    if depth == 0:
                        P = Parser(toks, pos + 1)
                        self.skip_to_eos(P)
                        return (li, P.p)
                    depth -= 1
                pos += 1
            li, pos = li + 1, 0
        raise BasicError("WHILE without WEND")

    def next_datum(self):
        """DATA items are consumed in line order and are only looked at when a READ reaches them (an item that is
        never read is never evaluated); RESTORE n positions at the first DATA statement at or after line n."""
        li, pos = self.data_ptr if self.data_ptr is not None else (0, None)
        while li < len(self.lines):
            toks = self.lines[li]
            P = None
            if pos is not None and pos < len(toks) and toks[pos] == ("op", ","):
                P = Parser(toks, pos + 1)
            else:
                if pos is not None:
                    Q = Parser(toks, pos)
                    if not Q.eos():
                        raise BasicError("malformed DATA list")
                j = 0 if pos is None else pos
                while j < len(toks):
                    if toks[j] == ("id", "data"):
                        Q = Parser(toks, j + 1)
                        if not Q.eos():
                            P = Q
                            break
                    j += 1
                if P is None:
                    li, pos = li + 1, None
                    continue
            val = self.ev(P.expr())
            self.data_ptr = (li, P.p)
            return val
        raise BasicError("out of data")

    # -------------------------------------------------------------------------------------------- variables
    def cell(self, var):
        name, idx = var[1], var[2]
        if not idx:
            if name in self.arrays:
                raise BasicError("array used without subscript")
            return self.vars, name
        ii = tuple(to_int(self.ev(e), "subscript") for e in idx)
        if name not in self.arrays:
            if name in self.vars:
                raise Unspecified("scalar and array of the same name")
            self.arrays[name] = ([10] * len(ii), {})      # classic default bound
        dims, store = self.arrays[name]
        if len(ii) != len(dims) or any(i < 0 or i > d for i, d in zip(ii, dims)):
            raise BasicError("bad subscript")
        return store, ii

    def value_of(self, var):
        store, key = self.cell(var)
        if key in store:
            return store[key]
        return "" if var[1].endswith("$") else Num(0.0)

    def assign(self, var, val):
        store, key = self.cell(var)
        store[key] = val

    # -------------------------------------------------------------------------------------------- expressions
    def num(self, e):
        x = self.ev(e)
        if not isinstance(x, Num):
            raise BasicError("number expected")
        return x

    def ev(self, e):
        k = e[0]
        if k == "num":
            return Num(e[1])
        if k == "str":
            return e[1]
        if k == "var":
            return self.value_of(e)
        if k == "un":
            x = self.ev(e[2])
            if not isinstance(x, Num):
                raise BasicError("number expected after unary operator")
            if e[1] == "-":
                return Num(-x.v, x.u)
            if e[1] == "+":
                return x
            return Num(float(~exact_int(x, "NOT")))
        if k == "bin":
            return self.binop(e[1], self.ev(e[2]), self.ev(e[3]))
        if k == "call":
            return self.call(e[1], [self.ev(a) for a in e[2]])
        raise AssertionError(e)

    def binop(self, op, a, b):
        sa, sb = isinstance(a, str), isinstance(b, str)
        if op in ("<", ">", "<=", ">=", "=", "<>"):
            if sa != sb:
                raise BasicError("comparison of a string with a number")
            if sa:
                c = (a > b) - (a < b)
            else:
                tol = a.u + b.u
                if tol > 0 and abs(a.v - b.v) <= tol:
                    raise Unspecified("ill-conditioned comparison")
                c = (a.v > b.v) - (a.v < b.v)
            r = {"<": c < 0, ">": c > 0, "<=": c <= 0, ">=": c >= 0, "=": c == 0, "<>": c != 0}[op]
            return Num(TRUE if r else 0.0)
        if op == "+" and sa and sb:
            if len(a) + len(b) > 200:
                raise Unspecified("long string")
            return a + b
        if sa or sb:
            raise BasicError("string operand of %s" % op)
        if op == "+":
            return Num(a.v + b.v, a.u + b.u)
        if op == "-":
            return Num(a.v - b.v, a.u + b.u)
        if op == "*":
            return Num(a.v * b.v, abs(a.v) * b.u + abs(b.v) * a.u + a.u * b.u)
        if op == "/":
            if abs(b.v) <= b.u:
                raise Unspecified("division by (possibly) zero")
            v = a.v / b.v
            return Num(v, (a.u + abs(v) * b.u) / (abs(b.v) - b.u))
        if op == "^":
            return self.power(a, b)
        if op == "mod":
            if "mod_residue" in self.quirks:
                # defect model (only used to *name* a mismatch): a MOD b = sign(a) * fmod(|a| + 1e-14, b), also when an
                # operand is itself such a residue
                if a.u > 0 or b.u > 0 or b.v == 0:
                    raise Unspecified("MOD (defect model) on an inexact value / zero divisor")
                return Num(math.copysign(1.0, a.v) * math.fmod(abs(a.v) + 1e-14, b.v) if a.v != 0 else 0.0)
            x, y = exact_int(a, "MOD"), exact_int(b, "MOD")
            if x < 0 or y <= 0:
                raise Unspecified("MOD of negative operand or zero divisor")
            return Num(float(x % y))
        x, y = exact_int(a, op.upper()), exact_int(b, op.upper())
        r = x & y if op == "and" else (x | y if op == "or" else x ^ y)
        return Num(float(r))

    def power(self, a, b):
        if a.u > 0 and abs(a.v) <= a.u:
            raise Unspecified("ill-conditioned base of ^")
        if a.v == 0:
            if b.v - b.u > 0:
                return Num(0.0)
            raise Unspecified("0 ^ non-positive")
        if a.v < 0:
            if b.u > 0 or not _isint(b.v):
                raise Unspecified("negative base with non-integer exponent")
            if abs(b.v) > 2 ** 31:
                raise Unspecified("huge exponent")
        v = _safe(math.pow, a.v, b.v)
        if v == 0 or abs(v) < 1e-300:
            raise Unspecified("underflow")
        la = abs(math.log(abs(a.v)))
        rel = (abs(b.v) * la + 4.0) * 2 * ULP + abs(b.v) * a.u / abs(a.v) + la * b.u
        return Num(v, abs(v) * rel)

    def call(self, f, a):
        def need(n, types):
            if len(a) != n:
                raise BasicError("%s: wrong number of arguments" % f.upper())
            for x, t in zip(a, types):
                if (t == "n") != isinstance(x, Num):
                    raise BasicError("%s: wrong argument type" % f.upper())

        if f == "time":
            return Num(self.time)
        if f in NUMFUNCS1:
            need(1, "n")
            return self.numfunc(f, a[0])
        if f == "len":
            need(1, "s")
            return Num(float(len(a[0])))
        if f == "mid$":
            if len(a) not in (2, 3):
                raise BasicError("MID$: wrong number of arguments")
            need(len(a), "snn")
            n = to_int(a[1], "MID$ position")
            if n < 1:
                raise Unspecified("MID$ position < 1")
            if len(a) == 3:
                m = to_int(a[2], "MID$ length")
                if m < 0:
                    raise Unspecified("MID$ negative length")
                return a[0][n - 1:n - 1 + m]
            return a[0][n - 1:]
        if f == "str$":
            need(1, "n")
            s = fmt_number(a[0].v, self.wide)
            if a[0].u > 0 and (fmt_number(a[0].v - a[0].u, self.wide) != s or fmt_number(a[0].v + a[0].u, self.wide) != s):
                raise Unspecified("ill-conditioned STR$")
            return s
        if f in ("str_f$", "str_e$"):
            need(3, "nnn")
            w, d = exact_int(a[1], "width"), exact_int(a[2], "decimals")
            if not (0 <= w <= 60 and 0 <= d <= 30):
                raise Unspecified("format width out of the documented use")
            c = "f" if f == "str_f$" else "e"
            if c == "f" and abs(a[0].v) >= 1e40:
                raise Unspecified("very long fixed format")
            fm = "%*.*" + c
            s = fm % (w, d, a[0].v)
            if a[0].u > 0:
                for x in (a[0].v - a[0].u, a[0].v + a[0].u):
                    if (fm % (w, d, x)) != s:
                        raise Unspecified("ill-conditioned number format")
            return s
        if f == "val":
            need(1, "s")
            t = a[0].strip()
            try:
                toks = tokenize(t)
            except BasicError:
                raise Unspecified("VAL of a non-numeral")
            if len(toks) == 1 and toks[0][0] == "num":
                return Num(toks[0][1])
            if len(toks) == 2 and toks[0] == ("op", "-") and toks[1][0] == "num":
                return Num(-toks[1][1])
            raise Unspecified("VAL of a non-numeral")
        if f == "chr$":
            need(1, "n")
            n = to_int(a[0], "CHR$")
            if not 32 <= n <= 126:
                raise Unspecified("CHR$ outside printable ASCII")
            return chr(n)
        if f == "asc":
            need(1, "s")
            if a[0] == "":
                raise Unspecified("ASC of an empty string")
            return Num(float(ord(a[0][0])))
        if f == "instr":
            need(2, "ss")
            return Num(float(a[0].find(a[1]) + 1))
        if f == "ltrim":
            need(1, "s")
            return a[0].lstrip(" \t")
        if f == "rtrim":
            need(1, "s")
            return a[0].rstrip(" \t")
        if f == "trim":
            need(1, "s")
            return a[0].strip(" \t")
        if f == "pad":
            need(2, "sn")
            n = to_int(a[1], "PAD width")
            if n < 0 or n > 200:
                raise Unspecified("PAD width")
            return a[0].ljust(n)
        if f in ("get", "get$"):
            if not a or not all(isinstance(x, Num) for x in a):
                raise BasicError("GET needs numeric indices")
            key = ("s" if f == "get$" else "n",) + tuple(to_int(x, "GET index") for x in a)
            if key not in self.mem:
                raise Unspecified("GET of a slot that was never PUT")
            return self.mem[key]
        raise AssertionError(f)

    def numfunc(self, f, x):
        v, u = x.v, x.u
        if f == "abs":
            return Num(abs(v), u)
        if f == "sgn":
            if u > 0 and abs(v) <= u:
                raise Unspecified("ill-conditioned SGN")
            return Num(float((v > 0) - (v < 0)))
        if f == "sqr":
            return Num(v * v, 2 * abs(v) * u + u * u)
        if f in ("ceil", "floor"):
            g = math.ceil if f == "ceil" else math.floor
            r = g(v)
            if u > 0 and (g(v - u) != r or g(v + u) != r):
                raise Unspecified("ill-conditioned %s" % f.upper())
            return Num(float(r))
        if f == "sqrt":
            if v - u < 0 or (v == 0 and u > 0):
                raise Unspecified("SQRT of a (possibly) negative number")
            r = math.sqrt(v)
            return Num(r, (u / (2 * math.sqrt(v - u)) if u > 0 else 0.0) + ULP * r)
        if f == "exp":
            r = _safe(math.exp, v)
            if r < 1e-300:
                raise Unspecified("underflow")
            return Num(r, r * (u + 4 * ULP + abs(v) * ULP))
        if f in ("log", "log10"):
            if v - u <= 0:
                raise Unspecified("LOG of a non-positive number")
            r = _safe(math.log if f == "log" else math.log10, v)
            k = 1.0 if f == "log" else 0.4342944819032518
            return Num(r, k * u / (v - u) + 4 * ULP * abs(r) + (4 * ULP if abs(v - 1) < 0.5 else 0) * abs(v - 1))
        if f in ("sin", "cos"):
            if abs(v) > 1e15:
                raise Unspecified("huge trigonometric argument")
            r = (math.sin if f == "sin" else math.cos)(v)
            return Num(r, u + 4 * ULP * abs(r) + (abs(v) * ULP if u > 0 else 0.0))
        if f == "tan":
            if abs(v) > 1e15:
                raise Unspecified("huge trigonometric argument")
            r = _safe(math.tan, v)
            c = math.cos(v)
            if abs(c) < 1e-6:
                raise Unspecified("TAN near a pole")
            return Num(r, u / (c * c) + 8 * ULP * abs(r))
        if f == "arctan":
            r = math.atan(v)
            return Num(r, u / (1 + v * v) + 4 * ULP * abs(r))
        raise AssertionError(f)


def run_program(lines, mem=None, max_steps=20000, wide=True, time=1.0, quirks=()):
    """-> ("ok", Interp) | ("error", message) | ("unspecified", reason) | ("steplimit", None)"""
    it = Interp(mem, max_steps, wide, time, quirks)
    it.cur_stmt = "program"
    try:
        it.run(lines)
        return "ok", it
    except BasicError as e:
        return "error", "%s: %s" % (it.cur_stmt.upper(), e)
    except Unspecified as e:
        return "unspecified", str(e)
    except StepLimit:
        return "steplimit", None
    except RecursionError:
        return "unspecified", "recursion"


def eval_expression(text, wide=True):
    """Evaluate a single expression text; -> ("ok", value) | ("error", msg) | ("unspecified", reason)."""
    it = Interp(wide=wide)
    it.vars, it.arrays = {}, {}
    try:
        P = Parser(tokenize(text))
        e = P.expr()
        if P.peek()[0] is not None:
            raise BasicError("extra tokens")
        return "ok", it.ev(e)
    except BasicError as e:
        return "error", str(e)
    except Unspecified as e:
        return "unspecified", str(e)
