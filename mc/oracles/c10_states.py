"""C10: the second family of explored states - one small cell per RAW entity kind / option family that the C02 alphabet
(phreeqc.dat, seven reactant kinds) does not reach: isotopes (both the SOLUTION -isotope form and iso.dat's isotopes as
elements), species gammas (pitzer.dat / sit.dat), every surface electrostatic model and option, reactants that are tied
to phases or kinetic reactants, Peng-Robinson gases, -equilibrate gases, alternative-formula phases, solid-solution
parameter forms, kinetics options, and the four "recipe" kinds MIX / REACTION / REACTION_TEMPERATURE /
REACTION_PRESSURE kept under number 1.

Pure data (input text written from the PHREEQC-3 manual's keyword descriptions); nothing here calls the library.
Every init defines SOLUTION 1 (the cell) and SOLUTION 2 (partner of the MIX follow-up).

INITS[name] = dict(db=database file name, prelude=database additions (text), text=definition simulation(s), cols=[(heading, BASIC expression)] extra read-outs,
kinetic=True when the cell integrates rates (its RUN_CELLS need a time step)).
"""

RATE_ZERO = """RATES
 Zero
 -start
 10 moles = PARM(1) * TIME
 20 IF (moles > M) THEN moles = M
 30 SAVE moles
 -end
 First
 -start
 10 SAVE PARM(1) * M * TIME
 -end
"""

SOL2 = "SOLUTION 2\n temp 15\n pH 5\n Na 1\n K 2\n Mg 0.5\n Cl 3.5\n -water 0.5\n"
SOL1 = "SOLUTION 1\n temp 25\n pH 7.5\n Na 10\n Ca 2\n Sr 0.1\n Mg 0.5\n Cl 10 charge\n C(4) 3\n S(6) 1\n"
SOL1_REDOX = "SOLUTION 1\n temp 25\n pH 6.5\n pe 2\n Na 10\n Ca 2\n Fe 0.05\n Cl 10 charge\n C(4) 3\n S(6) 1\n N(5) 0.2\n"


def _mol(*names):
    return [("mol_" + n, 'MOL("%s")' % n) for n in names]


def _tot(*names):
    return [("m_" + n, 'TOTMOLE("%s")' % n) for n in names]


def _equi(*names):
    out = []
    for n in names:
        out += [("si_" + n, 'SI("%s")' % n), ("eq_" + n, 'EQUI("%s")' % n)]
    return out


def _edl(surf, *what):
    return [("edl_%s_%s" % (w, surf), 'EDL("%s","%s")' % (w, surf)) for w in what]


BASE_TOT = _tot("Na", "Ca", "Sr", "Mg", "K", "Cl", "C", "S")
HFO_SPECIES = _mol("Hfo_wOH", "Hfo_wOH2+", "Hfo_wO-", "Hfo_sOCa+", "Hfo_wOCa+", "Hfo_wSO4-", "Hfo_sOH")
SITES = " Hfo_w%s 0.001 600 1\n Hfo_s%s 0.00005\n"

INITS = {}


def _add(name, text, cols, db="phreeqc.dat", prelude=RATE_ZERO, kinetic=False, sol1=SOL1, sol2=SOL2):
    INITS[name] = {"db": db, "prelude": prelude, "text": sol1 + sol2 + text + "END\n", "cols": cols, "kinetic": kinetic}


# ---------------------------------------------------------------------------------------------- solutions
_add("sol:isotope-option",
     "", BASE_TOT,
     sol1=SOL1 + " -isotope 13C -12.5 1.0\n -isotope 34S 9.7 0.5\n -isotope 18O -5.1\n")
_add("sol:redox",
     "", BASE_TOT + _tot("Fe", "N", "Fe(2)", "Fe(3)", "N(5)", "N(-3)", "S(-2)"), sol1=SOL1_REDOX)
_add("sol:density-pressure",
     "", BASE_TOT + [("rho", "RHO"), ("pressure", "PRESSURE")],
     sol1="SOLUTION 1\n temp 60\n pressure 150\n pH 6.8\n density 1.02 calc\n units mol/kgw\n Na 1.2\n Cl 1.2 charge\n Ca 0.05\n C(4) 0.01\n -water 0.8\n")
_add("sol:iso.dat",
     "", _tot("Na", "Cl", "C", "Ca", "[13C]", "[18O]", "D", "[14C]") + _mol("H[13C]O3-", "HDO", "H2[18O]") +
     [("R13C", 'CALC_VALUE("R(13C)")'), ("R18O", 'CALC_VALUE("R(18O)")'), ("RD", 'CALC_VALUE("R(D)")')],
     db="iso.dat", prelude="",
     sol1="SOLUTION 1\n temp 25\n pH 7.2\n Na 5\n Cl 5 charge\n Ca 1.5\n C 3\n [13C] -11.5\n [14C] 55\n D -60\n [18O] -8.5\n",
     sol2="SOLUTION 2\n temp 15\n pH 6\n Na 1\n Cl 1\n C 0.5\n [13C] -25\n D -20\n [18O] -3\n -water 0.5\n")
_add("sol:pitzer",
     "EQUILIBRIUM_PHASES 1\n Halite 0 0\n Gypsum 0 0.05\n", _tot("Na", "K", "Mg", "Ca", "Cl", "S") + _equi("Halite", "Gypsum") +
     [("g_Na", 'GAMMA("Na+")'), ("g_SO4", 'GAMMA("SO4-2")'), ("osm", "OSMOTIC"), ("aw", 'ACT("H2O")')],
     db="pitzer.dat", prelude="",
     sol1="SOLUTION 1\n temp 25\n pH 7\n units mol/kgw\n Na 4.5\n K 0.3\n Mg 0.4\n Ca 0.02\n Cl 5.3 charge\n S(6) 0.15\n",
     sol2="SOLUTION 2\n temp 35\n pH 6.5\n units mol/kgw\n Na 0.5\n Cl 0.5\n -water 0.5\n")
_add("sol:sit",
     "EQUILIBRIUM_PHASES 1\n Gypsum 0 0.02\n", _tot("Na", "Ca", "Cl", "S") + _equi("Gypsum") + [("g_Na", 'GAMMA("Na+")'), ("g_Ca", 'GAMMA("Ca+2")')],
     db="sit.dat", prelude="",
     sol1="SOLUTION 1\n temp 25\n pH 7\n units mol/kgw\n Na 1.5\n Ca 0.02\n Cl 1.54 charge\n S(6) 0.01\n",
     sol2="SOLUTION 2\n temp 30\n pH 6.5\n units mol/kgw\n Na 0.2\n Cl 0.2\n -water 0.5\n")

# ---------------------------------------------------------------------------------------------- surfaces
_SURF_COLS = BASE_TOT + HFO_SPECIES + _edl("Hfo", "psi", "sigma", "charge", "water", "Cl", "Na", "Ca")
_add("su:noedl", "SURFACE 1\n" + SITES % ("OH", "OH") + " -no_edl\n", BASE_TOT + HFO_SPECIES)
_add("su:ddl-equil", "SURFACE 1\n" + SITES % ("", "") + " -equilibrate 1\n", _SURF_COLS)
_add("su:ddl-explicit", "SURFACE 1\n" + SITES % ("OH", "OH"), _SURF_COLS)
_add("su:donnan-equil", "SURFACE 1\n" + SITES % ("", "") + " -equilibrate 1\n -donnan\n", _SURF_COLS)
_add("su:donnan-thick-visc", "SURFACE 1\n" + SITES % ("", "") + " -equilibrate 1\n -donnan 2e-9 viscosity 0.5\n", _SURF_COLS)
_add("su:donnan-debye-limit", "SURFACE 1\n" + SITES % ("", "") + " -equilibrate 1\n -donnan debye_lengths 2 limit_ddl 0.7\n", _SURF_COLS)
_add("su:donnan-counter-only", "SURFACE 1\n" + SITES % ("", "") + " -equilibrate 1\n -donnan\n -only_counter_ions\n", _SURF_COLS)
_add("su:dl-bw", "SURFACE 1\n" + SITES % ("", "") + " -equilibrate 1\n -diffuse_layer 1e-8\n", _SURF_COLS)
_add("su:dl-bw-counter-only", "SURFACE 1\n" + SITES % ("", "") + " -equilibrate 1\n -diffuse_layer 1e-8\n -only_counter_ions\n", _SURF_COLS)
_add("su:ccm", "SURFACE 1\n" + SITES % ("", "") + " -equilibrate 1\n -ccm 1.06\n", _SURF_COLS)
_add("su:density-units", "SURFACE 1\n -sites_units density\n Hfo_w 2.3 600 0.1\n Hfo_s 0.06\n -equilibrate 1\n", _SURF_COLS)
_add("su:two-surfaces-Dw",
     "SURFACE 1\n Hfo_w 0.001 600 1 Dw 1e-13\n Hfo_s 0.00005\n Sua_ 0.002 300 0.5\n -equilibrate 1\n -donnan\n",
     _SURF_COLS + _mol("Sua_H", "Sua_Na", "Sua_Ca+") + _edl("Sua", "psi", "sigma", "water", "Na"),
     prelude=RATE_ZERO + "SURFACE_MASTER_SPECIES\n Sua_ Sua_-\nSURFACE_SPECIES\n Sua_- = Sua_-\n log_k 0\n Sua_- + H+ = Sua_H\n log_k 4.5\n"
                         " Sua_- + Na+ = Sua_Na\n log_k 0.3\n Sua_- + Ca+2 = Sua_Ca+\n log_k 1.8\n")
_add("su:phase-related",
     "EQUILIBRIUM_PHASES 1\n Goethite 0 0.01\nSURFACE 1\n Hfo_w Goethite equilibrium_phase 0.1 5e4\n Hfo_s Goethite equilibrium_phase 0.005\n -equilibrate 1\n",
     _SURF_COLS + _tot("Fe") + _equi("Goethite"), sol1=SOL1_REDOX)
_add("su:kinetics-related",
     "KINETICS 1\n Zero\n -formula FeOOH 1\n -m 0.01\n -parms 1e-7\n -tol 1e-8\n -steps 3600 in 2 steps\n"
     "SURFACE 1\n Hfo_w Zero kinetic_reactant 0.1 5e4\n Hfo_s Zero kinetic 0.005\n -equilibrate 1\n",
     _SURF_COLS + _tot("Fe") + [("kin_Zero", 'KIN("Zero")')], sol1=SOL1_REDOX, kinetic=True)
# CD-MUSIC additions: the goethite proton / electrolyte reactions of database/EPRI/cdmusic_hiemstra.dat (that file as a whole
# needs As and U master species that phreeqc.dat does not define), plus one inner-sphere Ca complex with a split charge
_CD = RATE_ZERO + """SURFACE_MASTER_SPECIES
 Goe_uni Goe_uniOH1.5
 Goe_tri Goe_triOH0.5
SURFACE_SPECIES
 Goe_triOH0.5 = Goe_triOH0.5
 log_k 0
 -cd_music 0.5 0 0 0 0
 Goe_triOH0.5 = Goe_triO-0.5 + 0.5H+
 log_k 20
 -cd_music 0 0 0 0 0
 Goe_triO-0.5 + H+ = Goe_triOH+0.5
 log_k 9.20
 -cd_music 1 0 0 0 0
 Goe_triO-0.5 + Na+ = Goe_triONa+0.5
 log_k -0.60
 -cd_music 0 1 0 0 0
 Goe_triO-0.5 + H+ + Cl- = Goe_triOHCl-0.5
 log_k 8.75
 -cd_music 1 -1 0 0 0
 Goe_uniOH1.5 = Goe_uniOH1.5
 log_k 0
 -cd_music 0.5 0 0 0 0
 Goe_uniOH1.5 = Goe_uniOH-0.5 + 0.5H+
 log_k 20
 -cd_music 0 0 0 0 0
 Goe_uniOH-0.5 + H+ = Goe_uniOH2+0.5
 log_k 9.20
 -cd_music 1 0 0 0 0
 Goe_uniOH-0.5 + Na+ = Goe_uniOHNa+0.5
 log_k -0.60
 -cd_music 0 1 0 0 0
 Goe_uniOH-0.5 + H+ + Cl- = Goe_uniOH2Cl-0.5
 log_k 8.75
 -cd_music 1 -1 0 0 0
 Goe_uniOH-0.5 + Ca+2 = Goe_uniOHCa+1.5
 log_k 3.0
 -cd_music 0.32 1.68 0 0 0
"""
_add("su:cd-music",
     "SURFACE 1\n -cd_music\n -sites_units density\n Goe_uniOH1.5 3.45 96 0.5\n Goe_triOH0.5 2.7\n -capacitances 0.98 0.73\n -equilibrate 1\n",
     BASE_TOT + _mol("Goe_uniOH-0.5", "Goe_uniOH2+0.5", "Goe_triO-0.5", "Goe_triOH+0.5", "Goe_uniOHNa+0.5", "Goe_uniOHCa+1.5") +
     _edl("Goe", "psi", "psi1", "psi2", "sigma", "charge", "charge1", "charge2"), prelude=_CD)
_add("su:cd-music-donnan",
     "SURFACE 1\n -cd_music\n Goe_uniOH1.5 0.0003 96 0.5\n Goe_triOH0.5 0.0002\n -capacitances 1.1 5\n -donnan 1e-9\n -equilibrate 1\n",
     BASE_TOT + _mol("Goe_uniOH-0.5", "Goe_uniOH2+0.5", "Goe_triO-0.5", "Goe_triOH+0.5") +
     _edl("Goe", "psi", "psi1", "psi2", "sigma", "charge", "charge1", "charge2", "water", "Cl"), prelude=_CD)

# ---------------------------------------------------------------------------------------------- exchange
_EX = _mol("NaX", "CaX2", "MgX2", "SrX2", "KX")
_add("ex:equil", "EXCHANGE 1\n X 0.01\n -equilibrate 1\n", BASE_TOT + _EX)
_add("ex:explicit-pitzer-gammas", "EXCHANGE 1\n NaX 0.01\n CaX2 0.002\n -pitzer_exchange_gammas false\n", BASE_TOT + _EX)
_add("ex:phase-related", "EQUILIBRIUM_PHASES 1\n Calcite 0 0.02\nEXCHANGE 1\n X Calcite equilibrium_phase 0.2\n -equilibrate 1\n", BASE_TOT + _EX + _equi("Calcite"))
_add("ex:kinetics-related",
     "KINETICS 1\n First\n -formula Ca0.5Na 1\n -m 0.02\n -parms 1e-5\n -tol 1e-9\n -steps 1800 3600\nEXCHANGE 1\n X First kinetic_reactant 0.3\n -equilibrate 1\n",
     BASE_TOT + _EX + [("kin_First", 'KIN("First")')], kinetic=True)
_add("ex:two-exchangers",
     "EXCHANGE 1\n X 0.01\n Y 0.004\n -equilibrate 1\n", BASE_TOT + _EX + _mol("NaY", "CaY2", "HY"),
     prelude=RATE_ZERO + "EXCHANGE_MASTER_SPECIES\n Y Y-\nEXCHANGE_SPECIES\n Y- = Y-\n log_k 0\n Na+ + Y- = NaY\n log_k 0\n Ca+2 + 2Y- = CaY2\n log_k 1.1\n"
                         " -gamma 5.0 0.165\n H+ + Y- = HY\n log_k 2.0\n -davies\n")

# ---------------------------------------------------------------------------------------------- gas phases
_GAS = [("gas_p", "GAS_P"), ("gas_vm", "GAS_VM"), ("gas_CO2", 'GAS("CO2(g)")'), ("gas_N2", 'GAS("N2(g)")'), ("gas_O2", 'GAS("O2(g)")'),
        ("gas_CH4", 'GAS("CH4(g)")'), ("gas_H2O", 'GAS("H2O(g)")'), ("pr_p_CO2", 'PR_P("CO2(g)")'), ("pr_phi_CO2", 'PR_PHI("CO2(g)")')]
_add("ga:fixP", "GAS_PHASE 1\n -fixed_pressure\n -pressure 1.0\n -volume 1.0\n -temperature 25\n CO2(g) 0.01\n N2(g) 0.99\n", BASE_TOT + _GAS + _tot("N"))
_add("ga:fixV", "GAS_PHASE 1\n -fixed_volume\n -volume 0.5\n -temperature 25\n CO2(g) 0.05\n N2(g) 0.5\n O2(g) 0.1\n", BASE_TOT + _GAS + _tot("N"))
_add("ga:fixV-equil", "GAS_PHASE 1\n -fixed_volume\n -volume 0.2\n -equilibrate 1\n CO2(g)\n H2O(g)\n N2(g)\n", BASE_TOT + _GAS + _tot("N"))
_add("ga:fixP-PR-high", "GAS_PHASE 1\n -fixed_pressure\n -pressure 80\n -volume 3.0\n -temperature 50\n CO2(g) 70\n CH4(g) 10\n H2O(g) 0\n",
     BASE_TOT + _GAS, sol1="SOLUTION 1\n temp 50\n pressure 80\n pH 6\n Na 500\n Cl 500 charge\n Ca 5\n C(4) 2\n")
_add("ga:fixV-PR-high", "GAS_PHASE 1\n -fixed_volume\n -volume 0.3\n -temperature 45\n CO2(g) 60\n N2(g) 20\n",
     BASE_TOT + _GAS + _tot("N"), sol1="SOLUTION 1\n temp 45\n pressure 60\n pH 6\n Na 100\n Cl 100 charge\n Ca 5\n C(4) 2\n")

# ---------------------------------------------------------------------------------------------- pure phases
_add("pp:options",
     "EQUILIBRIUM_PHASES 1\n Calcite 0.2 0.01\n Dolomite 0 0.002 dissolve_only\n Gypsum 0 0 precipitate_only\n CO2(g) -2.5 1.0\n",
     BASE_TOT + _equi("Calcite", "Dolomite", "Gypsum", "CO2(g)"))
_add("pp:alt-formula-force",
     "EQUILIBRIUM_PHASES 1\n Calcite 0 0.01\n -force_equality true\n CO2(g) -2.0 HCl 1.0\n Fix_Na -2.2 NaCl 1.0\n",
     BASE_TOT + _equi("Calcite", "CO2(g)", "Fix_Na"),
     prelude=RATE_ZERO + "PHASES\n Fix_Na\n Na+ = Na+\n log_k 0\n")

# ---------------------------------------------------------------------------------------------- solid solutions
_SS = [("ss_Calcite", 'S_S("Calcite")'), ("ss_Strontianite", 'S_S("Strontianite")'), ("ss_Aragonite", 'S_S("Aragonite")'),
       ("ss_Barite", 'S_S("Barite")'), ("ss_Celestite", 'S_S("Celestite")')]
_add("ss:ideal3", "SOLID_SOLUTIONS 1\n CaSrCO3\n -comp Calcite 0.001\n -comp Strontianite 0.0001\n SO4ss\n -comp Barite 0.0002\n -comp Celestite 0.0001\n -comp Gypsum 0\n",
     BASE_TOT + _SS + _tot("Ba"), sol1=SOL1 + " Ba 0.001\n")
_add("ss:gugg-nondim", "SOLID_SOLUTIONS 1\n Ca(x)Sr(1-x)CO3\n -comp1 Aragonite 0.001\n -comp2 Strontianite 0.0001\n -Gugg_nondim 3.43 -1.82\n", BASE_TOT + _SS)
_add("ss:gugg-kj-tempk", "SOLID_SOLUTIONS 1\n Ca(x)Sr(1-x)CO3\n -comp1 Aragonite 0.001\n -comp2 Strontianite 0.0001\n -Gugg_kj 8.5 -4.5\n -tempk 298.15\n", BASE_TOT + _SS)
_add("ss:thompson", "SOLID_SOLUTIONS 1\n BaSrSO4\n -comp1 Barite 0.001\n -comp2 Celestite 0.0005\n -Thompson 2.1 1.2\n", BASE_TOT + _SS + _tot("Ba"), sol1=SOL1 + " Ba 0.001\n")
_add("ss:miscibility-gap", "SOLID_SOLUTIONS 1\n Ca(x)Sr(1-x)CO3\n -comp1 Aragonite 0.002\n -comp2 Strontianite 0.002\n -miscibility_gap 0.0048 0.8579\n", BASE_TOT + _SS)
_add("ss:critical-point", "SOLID_SOLUTIONS 1\n BaSrSO4\n -comp1 Barite 0.001\n -comp2 Celestite 0.001\n -critical_point 0.4 320\n -tempk 298.15\n", BASE_TOT + _SS + _tot("Ba"), sol1=SOL1 + " Ba 0.001\n")

# ---------------------------------------------------------------------------------------------- kinetics
_KIN = [("kin_Calcite", 'KIN("Calcite")'), ("kin_Zero", 'KIN("Zero")'), ("kin_First", 'KIN("First")')]
_add("ki:rk-options", "KINETICS 1\n Calcite\n -m 0.01\n -m0 0.01\n -parms 50 0.6\n -tol 1e-8\n -steps 3600 in 2 steps\n -step_divide 10\n -runge_kutta 6\n -bad_step_max 300\n",
     BASE_TOT + _KIN, kinetic=True)
_add("ki:cvode", "KINETICS 1\n Zero\n -formula Na2SO4 1 H2O 10\n -m 0.002\n -parms 1e-6\n -tol 1e-9\n -steps 600 1200\n -cvode true\n -cvode_steps 200\n -cvode_order 4\n",
     BASE_TOT + _KIN, kinetic=True)
_add("ki:two-rates", "KINETICS 1\n Zero\n -formula KCl 1\n -m 0.002\n -parms 1e-6\n -tol 1e-8\n First\n -formula Calcite 0.5 NaCl 2\n -m 0.004\n -m0 0.005\n -parms 2e-5 7 8\n -steps 100 200 400\n",
     BASE_TOT + _KIN, kinetic=True)

# ---------------------------------------------------------------------------------------------- recipes kept under number 1
_add("rcp:reaction-list", "REACTION 1\n NaCl 1\n Calcite 0.2\n 0.5 1.0 2.5 mmol\n", BASE_TOT)
_add("rcp:reaction-equal", "REACTION 1\n HCl 1.5\n O2 0.1\n 2 mmol in 4 steps\n", BASE_TOT)
_add("rcp:temperature-list", "REACTION_TEMPERATURE 1\n 30 45 70\n", BASE_TOT)
_add("rcp:temperature-equal", "REACTION_TEMPERATURE 1\n 15 90 in 4 steps\n", BASE_TOT)
_add("rcp:pressure-list", "REACTION_PRESSURE 1\n 10 100 400\n", BASE_TOT + [("pressure", "PRESSURE"), ("rho", "RHO")])
_add("rcp:pressure-equal", "REACTION_PRESSURE 1\n 1 500 in 3 steps\n", BASE_TOT + [("pressure", "PRESSURE"), ("rho", "RHO")])
# lists long enough that the RAW writer wraps them over several lines (continuation lines of one identifier)
_add("rcp:reaction-long", "REACTION 1\n NaCl 1\n 0.1 0.2 0.3 0.4 0.5 0.6 0.7 0.8 0.9 1.0 1.1 1.2 1.3 mmol\n", BASE_TOT)
_add("rcp:temperature-long", "REACTION_TEMPERATURE 1\n 10 15 20 25 30 35 40 45 50 55 60 65 70\n", BASE_TOT)
_add("rcp:pressure-long", "REACTION_PRESSURE 1\n 1 2 5 10 20 30 50 80 100 150 200 300 400\n", BASE_TOT + [("pressure", "PRESSURE"), ("rho", "RHO")])
_add("ki:steps-long", "KINETICS 1\n Zero\n -formula KCl 1\n -m 0.002\n -parms 1e-6\n -tol 1e-8\n -steps 10 20 30 40 50 60 70 80 90 100 110 120 130\n", BASE_TOT + _KIN, kinetic=True)
_add("rcp:mix", "MIX 1\n 1 0.6\n 2 0.8\n", BASE_TOT)
_add("rcp:mix-thirds", "MIX 1\n 1 0.333333333333333\n 2 0.666666666666667\n", BASE_TOT)      # fractions that need every digit the text can carry
_add("rcp:all",
     "REACTION 1\n CO2 1\n 1 3 mmol\nREACTION_TEMPERATURE 1\n 35 55\nREACTION_PRESSURE 1\n 5 50\nMIX 1\n 1 0.9\n 2 0.2\n"
     "EQUILIBRIUM_PHASES 1\n Calcite 0 0.01\nEXCHANGE 1\n X 0.01\n -equilibrate 1\n",
     BASE_TOT + _equi("Calcite") + _EX + [("pressure", "PRESSURE")])

ORDER = list(INITS)
