"""Reference relations for property C16 (activity-coefficient models, Gibbs-Duhem, water activity).

Written from the PHREEQC manual's description of the activity-coefficient options of SOLUTION_SPECIES and
LLNL_AQUEOUS_MODEL_PARAMETERS and from the textbook Gibbs-Duhem relation; the engine source is not consulted at run time
and no engine constant enters except those listed in ASSUMPTIONS.

Ion-association models (log10 gamma of an aqueous species of charge z at ionic strength mu, Debye-Hueckel A and B):

    davies      no activity option, z != 0        -A z^2 ( sqrt(mu)/(1+sqrt(mu)) - 0.3 mu )
    neutral     no activity option, z == 0        0.1 mu
    wateq       -gamma a b                        -A z^2 sqrt(mu) / (1 + B a sqrt(mu)) + b mu      (z == 0: b mu)
    llnl-bdot   -llnl_gamma a, z != 0             -A z^2 sqrt(mu) / (1 + B a sqrt(mu)) + Bdot mu   A, B, Bdot: LLNL arrays,
                                                                                                   linear in T between grid points
    llnl-neutral -llnl_gamma a, z == 0            0        (B-dot model: polar neutral species have unit activity coefficient)
    llnl-co2    -co2_llnl_gamma                   [ (C + F T + G/T) mu - (E + H T) mu/(mu+1) ] / ln 10, T in kelvin

Gibbs-Duhem at constant T, P for a solution of solute species i (molality m_i, molal activity coefficient gamma_i) and
osmotic coefficient phi (ln a_w = -M_w phi sum m):

    d[ (phi - 1) sum_i m_i ]  =  sum_i m_i d ln gamma_i

(the single-ion convention - MacInnes scaling or none - drops out for electroneutral solutions: it adds z_i * delta to every
ln gamma_i and sum_i m_i z_i = 0).  The right-hand side is integrated along a path given as a sequence of computed
solutions with the symmetric Stieltjes rule sum_i (m_i,k + m_i,k+1)/2 (ln gamma_i,k+1 - ln gamma_i,k), whose error
expansion contains only even powers of the step, and is Romberg-extrapolated twice over steps h, 2h, 4h.
"""
import math

LN10 = math.log(10.0)
M_WATER = 18.01528e-3        # kg/mol, IUPAC molar mass of H2O (textbook value; not taken from the engine)

SKIP_ELEMENTS = ("H", "O", "E", "Alkalinity")


# ------------------------------------------------------------------------------------------------ species tables
class Sp:
    __slots__ = ("name", "z", "need", "kind", "a", "b", "line")

    def __init__(self, name, z, need, kind, a, b, line):
        self.name, self.z, self.need, self.kind, self.a, self.b, self.line = name, z, need, kind, a, b, line


def model_of(entry, llnl_db):
    """(kind, a, b) the database text assigns to an aqueous species; None if outside the statement."""
    z = entry.z
    if entry.name in ("H2O", "e-"):
        return None
    if entry.activity_water:
        return None                                   # isotopic water species: activity of water / 55.5, not in the statement
    if entry.co2_llnl_gamma:
        return ("llnl-co2", 0.0, 0.0)
    if entry.llnl_gamma is not None:
        return ("llnl-bdot" if z != 0 else "llnl-neutral", entry.llnl_gamma, 0.0)
    if entry.gamma is not None:
        return ("wateq", entry.gamma[0], entry.gamma[1])
    if z == 0:
        return ("neutral", 0.0, 0.1)
    return ("davies", 0.0, 0.0)


def aqueous_table(db, parse_formula):
    """[Sp] for every aqueous species whose element requirement can be derived from the database text."""
    prim = {m.element for m in db.masters.values() if m.primary and m.kind == "aq"}
    ms_names = {m.species for m in db.masters.values()}
    out, skipped = [], []
    for e in db.aqueous():
        nm = e.name
        try:
            exp_s = db.expand(nm, True)
            if [j for j in e.reaction if j not in db.species] or [j for j in exp_s if j not in ms_names]:
                skipped.append(nm)
                continue
            comp = db.stoichiometry(nm)
            need = set(k for k in comp if k not in ("H", "O"))
            for j in exp_s:
                need |= set(k for k in parse_formula(j)[0] if k not in ("H", "O", "e"))
            if any(k not in prim for k in need):
                skipped.append(nm)
                continue
        except Exception:
            skipped.append(nm)
            continue
        mod = model_of(e, db.llnl)
        kind, a, b = mod if mod else (None, 0.0, 0.0)
        out.append(Sp(nm, e.z, frozenset(need), kind, a, b, e.line))
    return out, skipped


# ------------------------------------------------------------------------------------------------ ion association
def llnl_interp(llnl, tc):
    """Linear interpolation of the LLNL arrays at tc (Celsius): (A, B, Bdot)."""
    ts = llnl["temperatures"]
    if tc < ts[0] or tc > ts[-1]:
        raise ValueError("temperature outside the LLNL grid")
    k = 0
    while k + 1 < len(ts) - 1 and tc > ts[k + 1]:
        k += 1
    t0, t1 = ts[k], ts[k + 1]
    f = (tc - t0) / (t1 - t0)
    g = lambda arr: (1.0 - f) * arr[k] + f * arr[k + 1]
    return g(llnl["dh_a"]), g(llnl["dh_b"]), g(llnl["bdot"])


def lg_model(kind, z, a, b, mu, A, B, bdot=None, co2=None, tk=None):
    s = math.sqrt(mu)
    if kind == "davies":
        return -A * z * z * (s / (1.0 + s) - 0.3 * mu)
    if kind == "neutral":
        return 0.1 * mu
    if kind == "wateq":
        return -A * z * z * s / (1.0 + B * a * s) + b * mu
    if kind == "llnl-bdot":
        return -A * z * z * s / (1.0 + B * a * s) + bdot * mu
    if kind == "llnl-neutral":
        return 0.0
    if kind == "llnl-co2":
        C, F, G, E, H = co2
        return ((C + F * tk + G / tk) * mu - (E + H * tk) * (mu / (mu + 1.0))) / LN10
    raise ValueError(kind)


# ------------------------------------------------------------------------------------------------ Gibbs-Duhem
def stieltjes(m, lng, i0, i1, step):
    """sum over k = i0, i0+step, .. < i1 of sum_i (m_i,k + m_i,k+step)/2 (lng_i,k+step - lng_i,k); also the total variation
    sum |..| of the terms."""
    tot, var = 0.0, 0.0
    k = i0
    while k < i1:
        a, b = m[k], m[k + step]
        ga, gb = lng[k], lng[k + step]
        terms = [0.5 * (x + y) * (q - p) for x, y, p, q in zip(a, b, ga, gb)]
        tot += math.fsum(terms)
        var += math.fsum(abs(t) for t in terms)
        k += step
    return tot, var


def gd_segment(m, lng, lhs, i0, K):
    """Gibbs-Duhem over the path segment of K (multiple of 4) fine steps starting at point i0.
    Returns (residual, total variation V, quadrature uncertainty):  residual = delta lhs - Romberg integral of the rhs."""
    t1, var = stieltjes(m, lng, i0, i0 + K, 1)
    t2, _ = stieltjes(m, lng, i0, i0 + K, 2)
    t4, _ = stieltjes(m, lng, i0, i0 + K, 4)
    r1 = t1 + (t1 - t2) / 3.0
    r1c = t2 + (t2 - t4) / 3.0
    r2 = r1 + (r1 - r1c) / 15.0
    dl = lhs[i0 + K] - lhs[i0]
    return dl - r2, var, abs(r2 - r1), dl, r2


ASSUMPTIONS = [
    "molar mass of water M_w = 18.01528 g/mol (IUPAC) in a_w = exp(-M_w phi sum m); the implementation uses 1/55.50837 kg/mol",
    "B-dot (LLNL) model: uncharged species carrying -llnl_gamma have log gamma = 0 (EQ3/6 convention for polar neutral species, "
    "which LLNL_AQUEOUS_MODEL_PARAMETERS reproduces); -co2_llnl_gamma species use the five -co2_coefs with T in kelvin and ln -> log10",
    "LLNL arrays are interpolated linearly between the tabulated temperatures (release notes of version 2.3)",
    "-gamma a b on an uncharged species gives log gamma = b mu (the Debye-Hueckel term vanishes with z = 0); a species without "
    "an activity option uses Davies (charged, coefficient 0.3) or 0.1 mu (uncharged)",
    "H2O, e- and species defined with -activity_water (isotopic water) have no molal activity coefficient model in the statement and are left out",
    "absent species are recognised by the exact read-out LM = -99.99",
]
