"""Oracle of C03: is the state after a reaction calculation a valid heterogeneous equilibrium state?

Nothing in here calls the library.  A *row* is what one reaction calculation reports through USER_PUNCH (punch_block()
builds the BASIC program): moles in the assemblage (EQUI) and saturation index (SI) of every listed phase, moles of every
solid-solution component (S_S), and - for every exchange / surface master "element" - the list of the species that hold
it with their molalities (SYS(..) listing + MOL()), and the mass of water.  A *spec* says what the input text asked for.

Relations (statement clause -> relation, tolerance):
  minerals (no restriction, or force_equality)
      moles > 0              =>  |SI - target| <= 1e-6
      moles == 0 (exactly)   =>  SI <= target + 1e-6
      moles < 0              =>  violation (a phase is either present or absent)
      SI undefined (the program reports -99.99 when an element of the phase is not in the system): moles must be 0
  dissolve_only  (manual: "the phase can only dissolve"; m0 = moles at the start of the calculation)
      moles <= m0 ;  0 < moles < m0 => |SI - target| <= 1e-6 ;  moles == 0 and m0 > 0 => SI <= target + 1e-6 ;
      moles == m0 > 0 (nothing dissolved) => SI >= target - 1e-6 ;  m0 == 0: moles == 0, SI unconstrained
  precipitate_only (manual: "the phase can only precipitate")
      moles >= m0 ;  moles > m0 => |SI - target| <= 1e-6 ;  moles == m0 => SI <= target + 1e-6
  gases listed in EQUILIBRIUM_PHASES are not judged here (their target is a partial pressure; C19's relation)
  exchangers / surfaces:  sum over the species of  (stoichiometric coefficient of the master in the species, from the
      database text) x molality x kg water  ==  defined sites, relative 1e-8 (the bare master species X- is the
      unoccupied site with a dummy concentration and is not an occupied equivalent)
  solid solutions: moles of every component >= 0; when the solid solution exists (sum of moles > 0) the mole fractions
      n_i / sum n are >= 0 and sum to one (1e-8, also for the fractions the program reports itself in the dump), and for
      an ideal solid solution  |SI_i - log10 x_i| <= 1e-6  for every component with x_i > 0.
"""
import math
import re

TOL_SI = 1e-6          # statement: "saturation index equal to the requested target (1e-6)"
TOL_SITE = 1e-8        # statement: "sum of occupied equivalents = defined sites, 1e-8" (relative)
TOL_FRAC = 1e-8        # mole fractions sum to one: same tolerance as the other balance clause
TOL_ACT = 1e-6         # ideal component: log10 activity (= SI) vs log10 mole fraction; the statement gives no number, the SI tolerance is used
SEED_MOLES = 1e-10    # implementation constant: amount of an element the program moves from a mineral into a solution that lacks the element (used only to name one failure mechanism)
X_FLOOR = 1e-15        # a mole fraction below this cannot be told from 0 in a sum that must equal one in double precision
UNDEF_SI = -99.0       # SI() reports -99.99 when the ion activity product cannot be formed


def bname(prefix, name):
    return prefix + re.sub(r"[^A-Za-z0-9]", "_", name)


def punch_block(n, phases=(), ss_comps=(), masters=()):
    """SELECTED_OUTPUT n + USER_PUNCH n text.  Columns: state (program), kgw, m_<phase>, si_<phase>, ss_<comp>, si_<comp>,
    then per master: tot_<master> (SYS total) and list_<master> ("name=equivalents,molality|...")."""
    heads = ["kgw"]
    lines = [" 10 PUNCH TOT(\"water\")"]
    ln = 20
    seen = set()
    for p in phases:
        heads += [bname("m_", p), bname("si_", p)]
        seen.add(p)
        lines.append(' %d PUNCH EQUI("%s"), SI("%s")' % (ln, p, p))
        ln += 10
    for p in ss_comps:
        heads.append(bname("ss_", p))
        if p in seen:
            lines.append(' %d PUNCH S_S("%s")' % (ln, p))
        else:
            heads.append(bname("si_", p))
            seen.add(p)
            lines.append(' %d PUNCH S_S("%s"), SI("%s")' % (ln, p, p))
        ln += 10
    for e in masters:
        heads += [bname("tot_", e), bname("list_", e)]
        lines.append(' %d t = SYS("%s", n, n$, t$, mo)' % (ln, e))
        lines.append(' %d s$ = ""' % (ln + 1))
        lines.append(' %d FOR i = 1 TO n' % (ln + 2))
        lines.append(' %d s$ = s$ + n$(i) + "=" + STR_E$(mo(i), 25, 17) + "," + STR_E$(MOL(n$(i)), 25, 17) + "," + t$(i) + "|"' % (ln + 3))
        lines.append(' %d NEXT i' % (ln + 4))
        lines.append(' %d PUNCH t, s$' % (ln + 5))
        ln += 10
    return ("SELECTED_OUTPUT %d\n -reset false\n -state true\n -high_precision true\nUSER_PUNCH %d\n -headings %s\n%s\n" %
            (n, n, " ".join(heads), "\n".join(lines)))


def parse_listing(s):
    """'name=eq,mol,type|...' -> [(name, equivalents, molality, type)]"""
    out = []
    for part in (s or "").split("|"):
        part = part.strip()
        if not part:
            continue
        name, rest = part.split("=", 1)
        a, b, t = rest.split(",")
        out.append((name.strip(), float(a), float(b), t.strip()))
    return out


class Stoich:
    """Coefficient of an exchange / surface master in a species, from the database text (mc/oracles/phrq_db.py)."""

    def __init__(self, db):
        self.coef = {}
        self.master_species = set()
        for name, e in db.species.items():
            if e.kind in ("ex", "surf"):
                self.coef[name] = {k: v for k, v in db.stoichiometry(name).items()}
        for el, m in db.masters.items():
            if m.kind in ("ex", "surf"):
                self.master_species.add((m.kind, m.species))
        self.ex_masters = set(m.species for el, m in db.masters.items() if m.kind == "ex")

    def of(self, species, master):
        c = self.coef.get(species)
        if c is None:
            return None
        return c.get(master, 0.0)


def fnum(v):
    return isinstance(v, float) or (isinstance(v, int) and not isinstance(v, bool))


class RowJudge:
    """Collects problems [(fingerprint, explanation)], diagnostics and an outcome key for one reported row."""

    def __init__(self, stoich):
        self.stoich = stoich
        self.problems = []
        self.diags = []
        self.codes = []
        self.worst = {"si": 0.0, "site": 0.0, "act": 0.0}

    def bad(self, fp, what):
        self.problems.append((fp, what))

    # ------------------------------------------------------------------ minerals
    def phase(self, row, name, target, restr, starts, gas=False):
        """restr: None | 'd' | 'p' | 'f'; starts: candidate moles at the start of the calculation (only used for d/p)."""
        m, si = row.get(bname("m_", name)), row.get(bname("si_", name))
        if not fnum(m) or not fnum(si):
            raise RuntimeError("observable missing: EQUI/SI of %s not in the row %r" % (name, sorted(row)))
        if gas:
            self.codes.append("g")
            return
        rk = {"d": "dissolve_only", "p": "precipitate_only", "f": "force_equality", None: "none"}[restr]
        fp = lambda rel: "pp %s restriction=%s phase=%s" % (rel, rk, name)
        desc = "%s target %g restriction %s start moles %s: moles %.17g SI %.17g" % (name, target, rk, "/".join("%.17g" % x for x in starts), m, si)
        if m != m or si != si:
            self.bad(fp("nan"), desc)
            self.codes.append("N")
            return
        if m < 0.0:
            self.bad(fp("negative-moles"), desc)
            self.codes.append("n")
            return
        undefined = si <= UNDEF_SI
        dev = si - target
        if restr in (None, "f"):
            if m > 0.0:
                if undefined:
                    self.bad(fp("present-without-SI"), desc + " (phase present but its saturation index is undefined)")
                    self.codes.append("u")
                elif abs(dev) > TOL_SI:
                    self.bad(fp("present-SI-below-target" if dev < 0 else "present-SI-above-target"), desc + " : SI - target = %.3g" % dev)
                    self.codes.append("P!")
                else:
                    self.worst["si"] = max(self.worst["si"], abs(dev))
                    self.codes.append("P")
            else:
                if not undefined and dev > TOL_SI:
                    self.bad(fp("absent-supersaturated"), desc + " : SI - target = %.3g" % dev)
                    self.codes.append("A!")
                else:
                    self.codes.append("U" if undefined else "A")
            return
        if restr == "d":
            if not any(m <= s0 for s0 in starts):
                self.bad(fp("grew"), desc + " : more moles than at the start of the calculation")
                self.codes.append("D!")
                return
            at_start = any(m == s0 for s0 in starts)
            if m == 0.0:
                if all(s0 == 0.0 for s0 in starts):
                    self.codes.append("D0")          # nothing to dissolve, may not precipitate: SI unconstrained
                elif not undefined and dev > TOL_SI and not at_start:
                    self.bad(fp("exhausted-supersaturated"), desc + " : SI - target = %.3g" % dev)
                    self.codes.append("DA!")
                else:
                    self.codes.append("DA")
            elif at_start:
                if undefined or dev < -TOL_SI:
                    self.bad(fp("undissolved-undersaturated"), desc + " : SI - target = %.3g" % dev)
                    self.codes.append("DS!")
                else:
                    self.codes.append("DS" if dev > TOL_SI else "DE")
            else:
                if undefined or abs(dev) > TOL_SI:
                    self.bad(fp("partly-dissolved-SI-ne-target"), desc + " : SI - target = %.3g" % dev)
                    self.codes.append("DP!")
                else:
                    self.worst["si"] = max(self.worst["si"], abs(dev))
                    self.codes.append("DP")
            return
        if restr == "p":
            if not any(m >= s0 for s0 in starts):
                self.bad(fp("shrank"), desc + " : fewer moles than at the start of the calculation")
                self.codes.append("R!")
                return
            if any(m == s0 for s0 in starts):
                if not undefined and dev > TOL_SI:
                    self.bad(fp("not-precipitated-supersaturated"), desc + " : SI - target = %.3g" % dev)
                    self.codes.append("RA!")
                else:
                    self.codes.append("RA")
            else:
                if undefined or abs(dev) > TOL_SI:
                    self.bad(fp("precipitated-SI-ne-target"), desc + " : SI - target = %.3g" % dev)
                    self.codes.append("RP!")
                else:
                    self.worst["si"] = max(self.worst["si"], abs(dev))
                    self.codes.append("RP")
            return
        raise RuntimeError("unknown restriction %r" % (restr,))

    # ------------------------------------------------------------------ exchangers and surfaces
    def sites(self, row, master, expected, kind, what, tied_ratio=None):
        """expected: defined moles of sites.  kind: 'ex' | 'surf'.  tied_ratio: sites per mole of the mineral the sites are
        tied to (None for sites defined by a number)."""
        kgw = row.get("kgw")
        tot = row.get(bname("tot_", master))
        lst = row.get(bname("list_", master))
        if not fnum(kgw) or not fnum(tot) or not isinstance(lst, str) and lst is not None:
            raise RuntimeError("observable missing: listing of %s not in the row %r" % (master, sorted(row)))
        entries = parse_listing(lst if isinstance(lst, str) else "")
        occ = 0.0
        nsp = 0
        for name, eq, mol, typ in entries:
            if typ not in ("ex", "surf"):
                continue                       # diffuse-layer / aqueous entries hold no sites
            if typ == "ex" and name in self.stoich.ex_masters:
                continue                       # the unoccupied site X- (dummy concentration)
            c = self.stoich.of(name, master)
            if c is None:
                raise RuntimeError("species %s listed for %s is not in the database text" % (name, master))
            occ += c * mol * kgw
            nsp += 1
            if eq != 0.0 and abs(c * mol * kgw - eq) > 1e-9 * abs(eq):
                self.diags.append("SYS listing of %s: %s holds %.17g eq but coef x MOL x kgw = %.17g" % (master, name, eq, c * mol * kgw))
        kw = "exchange" if kind == "ex" else "surface"
        if expected == 0.0:
            # the mineral the sites are tied to has vanished: a relative measure does not exist, the absolute reading of the
            # statement's 1e-8 is used (mol)
            if abs(occ) > TOL_SITE:
                self.bad("%s site-balance master=%s definition=%s vanished-mineral" % (kw, master, what),
                         "the mineral the sites of %s are tied to has 0 mol but %.17g mol of sites are occupied" % (master, occ))
                self.codes.append("S!")
            else:
                self.codes.append("S0")
            return
        rel = abs(occ - expected) / max(abs(expected), abs(occ))
        if not rel <= TOL_SITE:
            fp = "%s site-balance master=%s definition=%s" % (kw, master, what)
            note = ""
            if tied_ratio is not None and abs((occ - expected) - tied_ratio * SEED_MOLES) <= 1e-3 * tied_ratio * SEED_MOLES:
                fp = "%s site-balance master=%s sites tied to a mineral: excess = sites per mole x 1e-10 mol" % (kw, master)
                note = " ; the excess %.6g mol is sites-per-mole (%g) x 1e-10 mol" % (occ - expected, tied_ratio)
            self.bad(fp, "sum of occupied sites of %s = %.17g mol over %d species, defined %.17g mol (relative difference %.3g, tolerance %g); SYS total %.17g%s" % (
                master, occ, nsp, expected, rel, TOL_SITE, tot, note))
            self.codes.append("S!")
        else:
            self.worst["site"] = max(self.worst["site"], rel)
            self.codes.append("S%d" % nsp)

    # ------------------------------------------------------------------ solid solutions
    def solid_solution(self, row, name, comps, ideal, dump_fractions=None):
        ns, sis = [], []
        for c in comps:
            n, si = row.get(bname("ss_", c)), row.get(bname("si_", c))
            if not fnum(n) or not fnum(si):
                raise RuntimeError("observable missing: S_S/SI of %s not in the row %r" % (c, sorted(row)))
            ns.append(n)
            sis.append(si)
        kind = "ideal" if ideal else "nonideal"
        fp = lambda rel, c=None: "ss %s kind=%s%d%s" % (rel, kind, len(comps), (" component=%s" % c) if c else "")
        desc = "solid solution %s (%s): " % (name, kind) + ", ".join("%s moles %.17g SI %.17g" % (c, n, si) for c, n, si in zip(comps, ns, sis))
        if any(n != n for n in ns):
            self.bad(fp("nan"), desc)
            self.codes.append("ssN")
            return
        neg = [c for c, n in zip(comps, ns) if n < 0.0]
        if neg:
            self.bad(fp("negative-fraction", neg[0]), desc)
            self.codes.append("ss-")
            return
        tot = sum(ns)
        if tot <= 0.0:
            act = sum(10.0 ** si for si in sis if si > UNDEF_SI)
            if ideal and act > 1.0 + 1e-5:
                self.diags.append("absent ideal solid solution with sum of 10^SI = %.9g > 1: %s" % (act, desc))
            self.codes.append("ss0")
            return
        xs = [n / tot for n in ns]
        if abs(sum(xs) - 1.0) > TOL_FRAC:
            self.bad(fp("fractions-do-not-sum-to-one"), desc)
        if dump_fractions is not None:
            fx = [dump_fractions.get(c) for c in comps]
            if any(f is None for f in fx):
                raise RuntimeError("observable missing: -fraction_x of %s in the dump" % name)
            if any(f < 0.0 for f in fx):
                self.bad(fp("negative-fraction", comps[[f < 0.0 for f in fx].index(True)]), desc + " ; reported fractions %r" % (fx,))
            elif abs(sum(fx) - 1.0) > TOL_FRAC:
                self.bad(fp("reported-fractions-do-not-sum-to-one"), desc + " ; reported fractions %r sum %.17g" % (fx, sum(fx)))
            elif any(abs(f - x) > 1e-6 for f, x in zip(fx, xs)):
                self.diags.append("dump -fraction_x %r differs from S_S shares %r (%s)" % (fx, xs, name))
        code = "ss" + "".join("1" if x > 0 else "0" for x in xs)
        if ideal:
            for c, x, si in zip(comps, xs, sis):
                if x <= 0.0:
                    continue
                if si <= UNDEF_SI:
                    # an element of the component is not in the system: its activity is 0; the program keeps a floor amount
                    # (1e-27 mol seen); a mole fraction below the resolution of "sum to one" in doubles is equal to 0
                    if x > X_FLOOR:
                        self.bad(fp("component-present-without-SI", c), desc)
                        code += "!"
                    continue
                dev = si - math.log10(x)
                if abs(dev) > TOL_ACT:
                    self.bad(fp("ideal-activity-ne-mole-fraction", c), desc + " : %s mole fraction %.17g, log10 = %.17g, SI - log10 x = %.3g" % (c, x, math.log10(x), dev))
                    code += "!"
                else:
                    self.worst["act"] = max(self.worst["act"], abs(dev))
        self.codes.append(code)

    def outcome(self):
        return " ".join(self.codes)


def guggenheim_log10_lambda(x1, x2, a0, a1):
    """Textbook (Guggenheim / Redlich-Kister, two terms; Glynn & Reardon 1990): ln l1 = x2^2 (a0 - a1 (3 x1 - x2)),
    ln l2 = x1^2 (a0 + a1 (3 x2 - x1)).  Used for diagnostics only (the statement does not speak about non-ideal activities)."""
    l1 = x2 * x2 * (a0 - a1 * (3.0 * x1 - x2))
    l2 = x1 * x1 * (a0 + a1 * (3.0 * x2 - x1))
    return l1 / math.log(10.0), l2 / math.log(10.0)
