"""Closed-form solutions of the kinetic rate-law families used by C12 (textbook ODE solutions; nothing here is taken
from the engine).  Every function returns the amount(s) of the kinetic reactant(s) at time t >= 0.

Conventions (PHREEQC manual, RATES/KINETICS): a rate program SAVEs `rate * TIME` = moles that leave the reactant in
the interval; dM/dt = -rate.  A reactant cannot go below zero: all programs of the family return rate 0 when M <= 0,
so the exact solution of the clipped law is max(unclipped, 0) for the monotone laws below.
"""
import math


def zero_order(m0, r, t):
    """dM/dt = -r while M > 0."""
    return max(m0 - r * t, 0.0)


def first_order(m0, k, t):
    """dM/dt = -k M."""
    return m0 * math.exp(-k * t)


def chain(a0, b0, k1, k2, t):
    """A -> B -> C:  dA/dt = -k1 A ; dB/dt = k1 A - k2 B  (k1 != k2).  Returns (A, B)."""
    a = a0 * math.exp(-k1 * t)
    # expm1 form keeps full precision when (k2-k1) t is small
    e1 = math.exp(-k1 * t)
    b = b0 * math.exp(-k2 * t) + a0 * k1 / (k2 - k1) * e1 * (-math.expm1(-(k2 - k1) * t))
    return a, b


def chain_c(a0, b0, k1, k2, t):
    """Amount of product C formed from A0, B0 (C0 = 0): conservation."""
    a, b = chain(a0, b0, k1, k2, t)
    return a0 + b0 - a - b


def approach(m0, c0, s, k, t):
    """Reactant dissolves with rate k (S - C), C = dissolved amount (mol) of the reactant's element, C(0) = c0:
    C(t) = S - (S - c0) exp(-k t) ;  M(t) = m0 - (C(t) - c0).  (valid while M > 0)"""
    c = s - (s - c0) * math.exp(-k * t)
    return m0 - (c - c0), c


def time_linear(m0, r0, b, t):
    """Non-autonomous zero-order law  dM/dt = -r0 (1 + b t)  while M > 0 (t = time since the start of the
    calculation).  The unclipped solution is monotone decreasing, so the clipped one is its max with 0."""
    return max(m0 - r0 * (t + 0.5 * b * t * t), 0.0)
