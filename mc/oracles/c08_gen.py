"""C08 enumeration: the deviation lattice around valid PHREEQC input / database text.

Nothing here is an oracle.  Every function is deterministic (no randomness); a case is a small JSON-able dict from
which `text_of(case)` rebuilds the exact bytes (latin-1 str) that are handed to the library, so a replay file only
needs the case line.

Edits (deviation alphabet), positions refer to the *base* text split into lines and whitespace-separated tokens:
  ["dl", i]        delete line i                      ["sw", i]      swap lines i and i+1
  ["tl", i]        truncate after line i              ["tb", i, j]   truncate after byte j of line i (BASIC lines)
  ["dt", i, j]     delete token j of line i           ["rt", i, j, r] replace token j of line i by DICT[r]
  ["dup", a, b]    duplicate the block of lines a..b-1 (appended right after itself)
"""
import json
import os
import re

from .. import build

DATA = os.path.join(build.ROOT, "data", "c08")

# 14-item replacement dictionary (design section 4/C08); "" is covered by the token deletion edit "dt"
DICT = ["-1e308", "1e400", "nan", "-", "0", "A" * 300, "Nosuchname", "SOLUTION", ";", "\\", "#", "\r", "\xff", "-1"]
DICT_SMALL = [1, 3, 6, 8, 13]           # indices into DICT used for the pair bound D2: 1e400 - Nosuchname ; -1

KEYWORDS = """end solution_species solution_master_species solution phases pure_phases reaction mix use save exchange_species
exchange_master_species exchange surface_species surface_master_species surface reaction_temperature inverse_modeling gas_phase
transport debug selected_output select_output knobs print equilibrium_phases equilibria equilibrium pure title comment advection
kinetics incremental_reactions incremental rates solution_s user_print user_punch solid_solutions solid_solution solution_spread
spread_solution selected_out select_out user_graph llnl_aqueous_model_parameters llnl_aqueous_model database
named_analytical_expression named_analytical_expressions named_expressions named_log_k isotopes calculate_values isotope_ratios
isotope_alphas copy pitzer sit equilibrium_phase solution_raw exchange_raw surface_raw equilibrium_phases_raw kinetics_raw
solid_solutions_raw gas_phase_raw reaction_raw mix_raw reaction_temperature_raw dump solution_modify equilibrium_phases_modify
exchange_modify surface_modify solid_solutions_modify gas_phase_modify kinetics_modify delete run_cells reaction_modify
reaction_temperature_modify solid_solution_modify reaction_pressure reaction_pressures reaction_pressure_raw
reaction_pressure_modify rate_parameters_pk rate_parameters_svd rate_parameters_hermanska mean_gammas gas_binary_parameters
solution_mix mix_solution exchange_mix mix_exchange gas_phase_mix mix_gas_phase kinetics_mix mix_kinetics
equilibrium_phases_mix mix_equilibrium_phases equilibrium_phase_mix mix_equilibrium_phase solid_solutions_mix
mix_solid_solutions solid_solution_mix mix_solid_solution surface_mix mix_surface""".split()
KWSET = set(KEYWORDS)
BASIC_BLOCKS = {"rates", "user_print", "user_punch", "user_graph", "calculate_values"}

BASES = ["sol", "spread", "eq", "exch", "surf", "kin", "gas", "ss", "ops", "adv", "trn", "inv", "out", "dbk", "iso", "pitz", "sit",
         "modify", "surfdl", "incl", "raw", "kinq", "basfn"]
QUICK_D1 = ["eq", "ops", "gas", "sit", "ss", "exch", "kinq", "basfn"]     # kinq: kinetics over 1e-3 s (a wrong-signed rate of the full "kin" base can run for minutes); basfn: BASIC functions with name / number / template arguments evaluated in the last step of a simulation that is followed by another one (an ERROR there does not stop the run)          # bases whose whole D1 neighbourhood is in the quick tier

_cache = {}


def read(name):
    if name not in _cache:
        with open(os.path.join(DATA, name), encoding="latin-1", newline="") as f:
            _cache[name] = f.read()
    return _cache[name]


def base_text(b):
    return read(os.path.join("bases", b + ".in"))


def options():
    if "options" not in _cache:
        _cache["options"] = json.loads(read("options.json"))
    return _cache["options"]


# ------------------------------------------------------------------------------------------ text model
TOK = re.compile(r"\S+")


def lines_of(text):
    """Lines without their terminator; a final empty piece (text ends with newline) is dropped and restored by join."""
    ls = text.split("\n")
    if ls and ls[-1] == "":
        ls.pop()
    return ls


def join(ls):
    return "".join(l + "\n" for l in ls)


def tokens(line):
    return [(m.start(), m.end()) for m in TOK.finditer(line)]


def blocks(ls):
    """[(a, b, keyword)] : keyword blocks as half-open line ranges."""
    out, start, kw = [], None, None
    for i, l in enumerate(ls):
        t = l.split()
        if t and t[0].lower() in KWSET:
            if start is not None:
                out.append((start, i, kw))
            start, kw = i, t[0].lower()
    if start is not None:
        out.append((start, len(ls), kw))
    return out


def basic_lines(ls):
    """indices of BASIC statement lines (numbered lines inside RATES / USER_* / CALCULATE_VALUES blocks)"""
    out = []
    for a, b, kw in blocks(ls):
        if kw in BASIC_BLOCKS:
            for i in range(a + 1, b):
                t = ls[i].split()
                if t and t[0].isdigit():
                    out.append(i)
    return out


def apply_edit(ls, e):
    """-> new list of lines (or, for tb/tl, possibly a text whose last line has no terminator: returned as (lines, False))"""
    ls = list(ls)
    op = e[0]
    nl = True
    if op == "dl":
        del ls[e[1]]
    elif op == "sw":
        ls[e[1]], ls[e[1] + 1] = ls[e[1] + 1], ls[e[1]]
    elif op == "tl":
        ls = ls[:e[1] + 1]
    elif op == "tb":
        ls = ls[:e[1]] + [ls[e[1]][:e[2]]]
        nl = False
    elif op == "dt":
        a, b = tokens(ls[e[1]])[e[2]]
        ls[e[1]] = ls[e[1]][:a] + ls[e[1]][b:]
    elif op == "rt":
        a, b = tokens(ls[e[1]])[e[2]]
        ls[e[1]] = ls[e[1]][:a] + DICT[e[3]] + ls[e[1]][b:]
    elif op == "dup":
        ls = ls[:e[2]] + ls[e[1]:e[2]] + ls[e[2]:]
    else:
        raise ValueError("unknown edit %r" % (e,))
    return ls, nl


def edited(text, edits):
    """Apply edits given in base coordinates; at most one line-structure edit, applied last, so token edits (which
    keep the line structure) stay addressable."""
    ls = lines_of(text)
    tok_edits = [e for e in edits if e[0] in ("dt", "rt")]
    other = [e for e in edits if e[0] not in ("dt", "rt")]
    # token edits on one line: apply from the right so spans stay valid
    for e in sorted(tok_edits, key=lambda e: (e[1], -e[2])):
        ls, _ = apply_edit(ls, e)
    nl = True
    for e in other:
        ls, nl = apply_edit(ls, e)
    s = join(ls)
    return s if nl else s[:-1]


def d1_edits(text, dict_idx=None, with_bytes=True):
    """Every single deviation of a text, simplest first (line edits, token deletions, token replacements)."""
    ls = lines_of(text)
    dict_idx = range(len(DICT)) if dict_idx is None else dict_idx
    out = []
    for i in range(len(ls)):
        out.append(["dl", i])
    for i in range(len(ls) - 1):
        out.append(["tl", i])
    for i in range(len(ls) - 1):
        out.append(["sw", i])
    for a, b, kw in blocks(ls):
        out.append(["dup", a, b])
    for i, l in enumerate(ls):
        for j in range(len(tokens(l))):
            out.append(["dt", i, j])
    for i, l in enumerate(ls):
        for j in range(len(tokens(l))):
            for r in dict_idx:
                out.append(["rt", i, j, r])
    if with_bytes:
        for i in basic_lines(ls):
            for j in range(1, len(ls[i])):
                out.append(["tb", i, j])
    return out


def token_edits_of_block(ls, a, b, dict_idx):
    out = []
    for i in range(a, b):
        for j in range(len(tokens(ls[i]))):
            out.append(["dt", i, j])
            for r in dict_idx:
                out.append(["rt", i, j, r])
    return out


def d2_pairs(text, max_tokens, dict_idx=DICT_SMALL):
    """All pairs of token edits (deletion or replacement by the reduced dictionary) at two different tokens of one
    keyword block, for every block with at most max_tokens tokens."""
    ls = lines_of(text)
    out = []
    for a, b, kw in blocks(ls):
        ntok = sum(len(tokens(ls[i])) for i in range(a, b))
        if ntok > max_tokens or ntok < 2:
            continue
        es = token_edits_of_block(ls, a, b, dict_idx)
        for x in range(len(es)):
            for y in range(x + 1, len(es)):
                if es[x][1:3] != es[y][1:3]:
                    out.append((es[x], es[y]))
    return out


# ------------------------------------------------------------------------------------------ other families
ENT_KINDS = ["solution", "equilibrium_phases", "exchange", "surface", "gas_phase", "solid_solutions", "kinetics", "mix", "reaction",
             "reaction_temperature", "reaction_pressure", "cell"]
ENT_NUMS = ["-1", "0", "7", "1-7", "7-1", "99999999999"]


def entity_texts():
    """Undefined entity numbers: USE / SAVE / COPY / DELETE / RUN_CELLS / MIX / DUMP x kind x number."""
    out = []
    for n in ENT_NUMS:
        for k in ENT_KINDS:
            if k != "cell":
                out.append(("USE %s %s" % (k, n), "USE %s %s\nEND\n" % (k, n)))
            if k in ("solution", "equilibrium_phases", "exchange", "surface", "gas_phase", "solid_solutions", "kinetics"):
                out.append(("SAVE %s %s" % (k, n), "USE solution 1\nSAVE %s %s\nEND\n" % (k, n)))
            out.append(("COPY %s %s 5" % (k, n), "COPY %s %s 5\nEND\n" % (k, n)))
            out.append(("COPY %s 1 %s" % (k, n), "COPY %s 1 %s\nEND\n" % (k, n)))
            out.append(("DELETE -%s %s" % (k, n), "DELETE\n -%s %s\nEND\n" % (k, n)))
            out.append(("DUMP -%s %s" % (k, n), "DUMP\n -%s %s\nEND\n" % (k, n)))
        out.append(("RUN_CELLS -cells %s" % n, "RUN_CELLS\n -cells %s\nEND\n" % n))
        out.append(("MIX 3 ; %s 0.5" % n, "MIX 3\n %s 0.5\n 1 0.5\nEND\n" % n))
        out.append(("MIX %s" % n, "MIX %s\n 1 0.5\n 2 0.5\nEND\n" % n))
        for kw in ("ADVECTION\n -cells 2\n -shifts 1\n -print_cells %s\n", "TRANSPORT\n -cells 2\n -shifts 1\n -punch_cells %s\n",
                   "INVERSE_MODELING 1\n -solutions 1 %s\n", "KINETICS %s\n Calcite\n -m 1\n", "SOLUTION %s\n pH 7\n",
                   "EXCHANGE 5\n X 0.1\n -equilibrate %s\n", "SURFACE 5\n Hfo_w 0.1 600 1\n -equilibrate %s\n", "GAS_PHASE 5\n CO2(g) 0\n -equilibrate %s\n",
                   "SELECTED_OUTPUT %s\n -totals Na\nUSE solution 1\n", "USER_PUNCH %s\n 10 PUNCH 1\nUSE solution 1\n"):
            t = kw % n
            out.append((t.split("\n")[0] + " .. " + n, t + "END\n"))
    return out


GRAM_ARGS = ["", "x", "-1", "1e400", "1 2 3", "true"]
GRAM_ARGS_QUICK = ["", "x"]
HEADS = ["", " 1", " -1", " 1-", " x", " 1-3 description"]


def grammar_texts(args):
    """Grammar-generated blocks: every keyword with each header variant and nothing else; every (keyword, option) with
    each argument of `args` as the only option of an otherwise empty block."""
    out = []
    opts = options()
    for kw in sorted(opts):
        for h in HEADS:
            out.append(("%s%s (empty block)" % (kw, h), "%s%s\nEND\n" % (kw, h)))
        for o in opts[kw]:
            for a in args:
                out.append(("%s -%s %s" % (kw, o, a), "%s 1\n -%s %s\nEND\n" % (kw, o, a)))
    return out


TINY_ALPHABET = ["\n", " ", "-", "#", ";", "\\", "1", "e", "S", "$", "\xff", "\t"]


def tiny_strings(maxlen):
    out = [""]
    layer = [""]
    for _ in range(maxlen):
        layer = [s + c for s in layer for c in TINY_ALPHABET]
        out += layer
    return out


BASIC_HOSTS = {
    "rates": "RATES\n r1\n -start\n%s\n -end\nKINETICS 5\n r1\n -m 1\n -steps 1\nUSE solution 1\nEND\n",
    "user_punch": "SELECTED_OUTPUT 1\n -reset false\nUSER_PUNCH 1\n -headings h\n -start\n%s\n -end\nUSE solution 1\nREACTION 1\n NaCl 1\n 1 mmol\nEND\n",
    "user_print": "USER_PRINT\n -start\n%s\n -end\nUSE solution 1\nREACTION 1\n NaCl 1\n 1 mmol\nEND\n",
    "calc": "CALCULATE_VALUES\n c1\n -start\n%s\n -end\nUSER_PRINT\n 10 PRINT CALC_VALUE(\"c1\")\nUSE solution 1\nREACTION 1\n NaCl 1\n 1 mmol\nEND\n",
}
BASIC_PROGRAMS = [
    '10 FOR i = 1 TO 3 : x = x + i * TOT("Na") : NEXT i\n20 IF (x > 0) THEN y$ = STR$(x) ELSE y$ = "n"\n30 SAVE x',
    '10 DIM a(2, 2) : a(1, 2) = LOG10(ACT("H+")) : GOSUB 100\n20 SAVE a(1, 2)\n30 END\n100 a(1, 2) = a(1, 2) ^ 2\n110 RETURN',
    '10 DATA 1, 2, "s"\n20 READ p, q, r$ : RESTORE 10\n30 WHILE (p < 3) : p = p + 1 : WEND\n40 SAVE p + LEN(r$) + MOL("Cl-") + EQUI("Calcite")',
    '10 n$ = "" : t$ = "" : c = 0\n20 m = SYS("aq", c, n$, t$, conc)\n30 s$ = PAD(TRIM(n$(1)) + CHR$(65), 12) + MID$("abc", 2, 1)\n40 SAVE m + c + EDL("charge", "Hfo") + SURF("Hfo", "Hfo")',
]


def basic_truncations():
    """Every prefix (truncation after every byte) of each BASIC program, in each of the four hosts that give a program
    an accumulator (SAVE works in RATES / CALCULATE_VALUES; it is an error elsewhere - also interesting)."""
    out = []
    for h in sorted(BASIC_HOSTS):
        for pi, p in enumerate(BASIC_PROGRAMS):
            for k in range(len(p) + 1):
                out.append((h, pi, k))
    return out


def basic_text(h, pi, k):
    return BASIC_HOSTS[h] % BASIC_PROGRAMS[pi][:k]
