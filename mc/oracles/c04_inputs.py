"""Generated multi-simulation inputs for C04 (database phreeqc.dat).

An input is  SETUP + b1 + b2 + ...  where every b is one simulation (it ends with END) from the block alphabet below.
Every block depends only on what SETUP defines (solutions 1 2, REACTION 1, EQUILIBRIUM_PHASES 1, RATES r1, KINETICS 1,
SELECTED_OUTPUT 1 / USER_PUNCH 1), so every sequence is a meaningful input; "definition" blocks contain no calculation
(their only effect is on the state that has to persist to the following simulation, i.e. across a cut), "calculation"
blocks use the persisted definitions and produce selected-output rows.
SETUP's SELECTED_OUTPUT also names a species (NaCl) and a phase (Halite2) that only the block `dbadd` adds to the database:
until then the columns hold the engine's "not found" value, afterwards real values, whatever the cut.
Written from the PHREEQC 3 manual (keyword data blocks); no engine constant is used.
"""
import itertools

SETUP = """TITLE C04 generated input
SOLUTION 1
 temp 25
 pH 7 charge
 Na 1
 Cl 1
 Ca 0.5
 C 1
SOLUTION 2
 pH 5
 K 2
 Cl 2 charge
REACTION 1
 NaCl 1
 1 mmol in 2 steps
EQUILIBRIUM_PHASES 1
 Calcite 0 0.01
RATES
 r1
 -start
 10 SAVE PARM(1) * TIME
 -end
KINETICS 1
 r1
  -formula KCl 1
  -m 1
  -parms 1e-6
 -steps 100 in 2 steps
SELECTED_OUTPUT 1
 -reset false
 -high_precision true
 -simulation true
 -state true
 -solution true
 -step true
 -pH true
 -totals Na Cl Ca C K
 -molalities NaCl
 -saturation_indices Halite2
USER_PUNCH 1
 -headings mu water n
 10 PUT(GET(7) + 1, 7)
 20 PUNCH MU, TOT("water"), GET(7)
END
"""

BLOCKS = {
    # ---- calculation blocks (use what persists)
    "react": "USE solution 1\nUSE reaction 1\nSAVE solution 1\nEND\n",
    "equil": "USE solution 1\nUSE equilibrium_phases 1\nSAVE solution 1\nSAVE equilibrium_phases 1\nEND\n",
    "kin": "USE solution 2\nUSE kinetics 1\nSAVE solution 2\nEND\n",
    "mix": "MIX 1\n 1 0.5\n 2 0.5\nSAVE solution 3\nEND\n",
    "runcells": "RUN_CELLS\n -cells 1\n -time_step 50\nEND\n",
    "runcells0": "RUN_CELLS\n -cells 1\nEND\n",          # no time options: falls back to KINETICS -steps, never to an earlier RUN_CELLS
    "advect": "SOLUTION 0\n pH 7\n Na 5\n Cl 5 charge\nADVECTION\n -cells 2\n -shifts 2\n -time_step 10\n -punch_cells 1-2\n -print_cells 1\nEND\n",
    # ---- definition blocks (no calculation of their own, except exch/surf which equilibrate with solution 1)
    "reaction": "REACTION 1\n HCl 1\n LiBr 0.1\n 0.5 mmol\nEND\n",      # brings two elements (Li, Br) nothing else holds: the component list grows
    "rates": "RATES\n r1\n -start\n 10 SAVE PARM(1) * TIME * 3\n -end\nEND\n",
    "selout": "SELECTED_OUTPUT 1\n -reset false\n -high_precision true\n -state true\n -totals K Cl\n -molalities Na+ CaCO3\n -saturation_indices Calcite\nEND\n",
    "upunch": "USER_PUNCH 1\n -headings q n\n 10 PUT(GET(7) + 1, 7)\n 20 PUNCH TOT(\"Cl\") * 2, GET(7)\nEND\n",
    "upunch3": "USER_PUNCH 1\n -headings x\n 10 PUNCH 1, TOT(\"Na\"), 3\nEND\n",        # more values than headings
    "selout2": "SELECTED_OUTPUT 2\n -high_precision true\n -totals Cl\nUSER_PUNCH 2\n -headings la\n 10 PUNCH LA(\"H+\")\nEND\n",
    "punchoff": "PRINT\n -selected_output false\nEND\n",
    "punchon": "PRINT\n -selected_output true\nEND\n",
    "knobs": "KNOBS\n -convergence_tolerance 1e-12\n -tolerance 1e-14\n -step_size 5\n -pe_step_size 2\n -iterations 150\nEND\n",
    "dbadd": "SOLUTION_SPECIES\nNa+ + Cl- = NaCl\n log_k 0.5\nPHASES\nHalite2\n NaCl = Na+ + Cl-\n log_k 1.0\nEND\n",
    "incr": "INCREMENTAL_REACTIONS true\nEND\n",
    "exch": "EXCHANGE 1\n X 0.01\n -equilibrate 1\nEND\n",
    "temp": "REACTION_TEMPERATURE 1\n 40\nEND\n",
    "copy": "COPY solution 2 5\nCOPY equilibrium_phases 1 5\nEND\n",
    "surf": "SURFACE 1\n Hfo_wOH 1e-4 600 0.1\n -equilibrate 1\nEND\n",
    "gas": "GAS_PHASE 1\n -fixed_pressure\n -pressure 1\n -volume 1\n CO2(g) 0.01\n N2(g) 0.99\nEND\n",
    "selact": "SELECTED_OUTPUT 1\n -active false\nEND\n",
    "transport": ("SOLUTION 0\n pH 7\n Na 5\n Cl 5 charge\nTRANSPORT\n -cells 2\n -shifts 2\n -lengths 0.1\n -time_step 10\n"
                  " -dispersivities 0.01\n -punch_cells 1-2\n -print_cells 1\nEND\n"),
    # ---- the numbered store across simulations: a cell with a pressure ramp is copied, its source redefined, other
    # entities copied, the copy used (COPY requests are queued while reading and carried out at the end of a simulation)
    "copycell": "REACTION_PRESSURE 1\n 10 20\nCOPY cell 1 5\nEND\n",
    "press2": "REACTION_PRESSURE 1\n 100 200\nEND\n",
    "run5": "RUN_CELLS\n -cells 5\nEND\n",
    # inverse modelling between solutions 2 and 3 (mole balance: 1 mmol NaCl); its selected-output values are known to
    # be appended to an unfinished table row (finding F3 of C05)
    "inverse": ("SOLUTION 3\n pH 5\n K 2\n Na 1\n Cl 3 charge\nPHASES\nHalite\n NaCl = Na+ + Cl-\n log_k 1.582\n"
                "INVERSE_MODELING 1\n -solutions 2 3\n -uncertainty 0.05\n -phases\n  Halite\n -balances\n  K 0.05\nEND\n"),
}
ORDER = ["react", "selout", "upunch", "upunch3", "punchoff", "punchon", "selout2", "knobs", "dbadd", "rates", "kin", "reaction", "incr",
         "equil", "mix", "exch", "temp", "runcells", "runcells0", "copy", "advect", "surf", "gas", "selact", "transport", "inverse",
         "copycell", "press2", "run5"]
CORE = ["react", "selout", "upunch", "punchoff", "selout2", "knobs", "dbadd", "rates", "kin", "runcells", "runcells0"]
STORE = ["copycell", "press2", "copy", "temp", "run5", "react"]
QUICK = [b for b in ORDER if b not in ("copy", "temp", "gas", "mix", "equil", "surf", "advect", "copycell", "press2", "run5")]
ALPHABETS = {"full": ORDER, "quick": QUICK, "core": CORE, "store": STORE}
# alphabet -> (depth, k): every sequence of 1..depth blocks; k = None: the complete cut x entry-point space of each,
# k = int: every execution within k deviations of the one-call execution
DEPTH = {"quick": {"quick": (2, None), "store": (3, 2)}, "thorough": {"full": (2, None), "core": (3, None), "store": (3, None)}}
assert sorted(ORDER) == sorted(BLOCKS) and set(CORE) <= set(ORDER)


def assemble(seq):
    return SETUP + "".join(BLOCKS[b] for b in seq)


def sequences(tier):
    """[(sequence, k)]: every block sequence of length 1..depth over each alphabet (shorter first, alphabet order); a
    sequence reachable through two alphabets keeps the wider execution bound (None = complete)."""
    best = {}
    for name, (depth, kdev) in sorted(DEPTH[tier].items()):
        alpha = ALPHABETS[name]
        for n in range(1, depth + 1):
            for s in itertools.product(alpha, repeat=n):
                if s not in best or (best[s] is not None and (kdev is None or kdev > best[s])):
                    best[s] = kdev
    out = sorted(best.items(), key=lambda sk: (len(sk[0]), [ORDER.index(b) for b in sk[0]]))
    return out


def describe():
    return {"setup_keywords": ["SOLUTION 1", "SOLUTION 2", "REACTION 1", "EQUILIBRIUM_PHASES 1", "RATES r1", "KINETICS 1",
                               "SELECTED_OUTPUT 1", "USER_PUNCH 1 (PUT/GET counter)"],
            "blocks": ORDER, "core_blocks": CORE, "quick_blocks": QUICK, "store_blocks": STORE, "depth_and_deviation_bound": DEPTH}
