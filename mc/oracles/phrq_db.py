"""Independent reader for PHREEQC thermodynamic database text (DESIGN.md 2.4).

Written from the PHREEQC manual's description of the database keywords, not from the engine: the file is read as
*text*, reactions are parsed with a small formula grammar, and every derived quantity (charge, elemental composition,
alkalinity contribution, log K(T)) is computed here with textbook relations.

API
---
    db = load(path)                      -> Database   (raises DbError if a block that matters cannot be read)
    db.masters   {element name: Master}  element names as in SOLUTION_MASTER_SPECIES ("Fe", "Fe(3)" - "(+3)" -> "(3)");
                                         .species .alk .gfw .gfw_formula .element_gfw .primary .kind ("aq"|"ex"|"surf")
    db.elements  [primary element names of kind "aq" in file order]  (incl. H, O, E, Alkalinity if the file has them)
    db.species   {name: Entry}           every species defined in SOLUTION_/EXCHANGE_/SURFACE_SPECIES, name with the
                                         canonical charge suffix the program uses ("Fe+3", "SO4-2", "Cl-");
                                         .kind "aq"|"ex"|"surf"
    db.phases    {name: Entry}           PHASES (.kind "phase")
    db.named     {lower-case name: Entry} NAMED_EXPRESSIONS (.kind "named")
    db.llnl      dict of LLNL_AQUEOUS_MODEL_PARAMETERS lists (temperatures, dh_a, dh_b, bdot, co2_coefs) or None
    db.model     "ion-association" | "llnl" | "pitzer" | "sit"
    db.blocks    {keyword: number of blocks seen};  db.raw_blocks  {keyword: [list of logical lines]} for keywords that
                 are kept verbatim (RATES, GAS_BINARY_PARAMETERS, PITZER, SIT, ...)
    db.logk(entry, T_kelvin)             log10 K at 1 atm from the text: analytical expression if one is given
                                         (it supersedes log_k/delta_h), else van 't Hoff from log_k and delta_h; plus
                                         coef * value of every -add_logk named expression, plus -add_constant
    db.alk(name)                         alkalinity contribution of a species (eq per mol)
    db.composition(name)                 {element: coef} primary elements of a species / phase read from its formula
    db.stoichiometry(name)               {element: coef} of a species as it enters mole balances (from its equation, or
                                         from -mole_balance); differs from composition() only for -no_check equations
    db.valence_composition(name)         {element-or-valence-state name: coef} in terms of the master species reached by
                                         expanding the species' reaction (or its -mole_balance formula), e.g.
                                         FeCl+2 -> {"Fe(3)": 1, "Cl": 1}
    db.expand(name)                      {master species name: coef} reaction expanded until only master species remain
    parse_formula(text)                  -> ({element: coef}, charge)      e.g. "Fe(OH)2+" -> ({"Fe":1,"O":2,"H":2}, 1.0)
    parse_equation(text)                 -> (lhs, rhs) lists of (coef, species name, charge)

Entry fields: name, kind, reaction {species: nu} such that  log a(entry) = sum nu_j log a(j) + log K  for species
(association) and  log IAP = sum nu_j log a(j), SI = log IAP - log K  for phases (dissociation; the phase itself is not
in the dict), equation (text), log_k, delta_h (kJ/mol), delta_h_units (as written), analytic (list of 6 or None),
add_logk [(name, coef)], add_constant, gamma (a, b) or None, llnl_gamma, co2_llnl_gamma, activity_water, no_check,
mole_balance (text or None), z (charge), formula (phase formula / species name), t_c, p_c, omega, vm (raw numbers,
*ignored* for log K: at exactly 1 atm the program applies no pressure term), other {option: text} (dw, millero,
viscosity, erm_ddl, cd_music, offset, davies ...), line (line number in the file).

Syntax honoured: `#` starts a comment, `;` ends a logical line, a `\\` followed only by white space up to the end of
line continues the line, keywords and identifiers are case-insensitive, identifiers may be abbreviated when written with a
leading `-` (first identifier in the keyword's documented order that starts with the given text) and must be spelled
exactly without it, a later definition of a species / phase / master species replaces an earlier one.

Constants shared with the implementation (cannot be derived from the database text): see CONSTANTS.
"""
import math
import os
import re

CONSTANTS = {
    "R_kJ_per_mol_K": 8.31470e-3,       # gas constant used in the van 't Hoff relation (implementation value)
    "T_ref_K": 298.15,                   # reference temperature of log_k / delta_h
    "J_per_cal": 4.1840,                 # thermochemical calorie
    "celsius_to_kelvin": 273.15,
}
LN10 = math.log(10.0)

KEYWORDS = set("""eof end solution_species solution_master_species solution phases pure_phases reaction mix use save
exchange_species exchange_master_species exchange surface_species surface_master_species surface reaction_temperature
inverse_modeling gas_phase transport debug selected_output select_output knobs print equilibrium_phases equilibria
equilibrium pure title comment advection kinetics incremental_reactions incremental rates solution_s user_print
user_punch solid_solutions solid_solution solution_spread spread_solution selected_out select_out user_graph
llnl_aqueous_model_parameters llnl_aqueous_model database named_analytical_expression named_analytical_expressions
named_expressions named_log_k isotopes calculate_values isotope_ratios isotope_alphas copy pitzer sit
equilibrium_phase solution_raw exchange_raw surface_raw equilibrium_phases_raw kinetics_raw solid_solutions_raw
gas_phase_raw reaction_raw mix_raw reaction_temperature_raw dump solution_modify equilibrium_phases_modify
exchange_modify surface_modify solid_solutions_modify gas_phase_modify kinetics_modify delete run_cells reaction_modify
reaction_temperature_modify solid_solution_modify reaction_pressure reaction_pressures reaction_pressure_raw
reaction_pressure_modify rate_parameters_pk rate_parameters_svd rate_parameters_hermanska mean_gammas
gas_binary_parameters solution_mix mix_solution exchange_mix mix_exchange gas_phase_mix mix_gas_phase kinetics_mix
mix_kinetics equilibrium_phases_mix mix_equilibrium_phases equilibrium_phase_mix mix_equilibrium_phase
solid_solutions_mix mix_solid_solutions solid_solution_mix mix_solid_solution surface_mix mix_surface""".split())

CANON = {"named_analytical_expression": "named_expressions", "named_analytical_expressions": "named_expressions",
         "named_log_k": "named_expressions", "llnl_aqueous_model": "llnl_aqueous_model_parameters", "eof": "end"}

# identifiers in the documented order (abbreviations resolve to the first that starts with the given text)
OPTS = {
    "solution_species": ["no_check", "check", "gamma", "mb", "mass_balance", "log_k", "logk", "delta_h", "deltah",
                         "analytical_expression", "a_e", "ae", "mole_balance", "llnl_gamma", "co2_llnl_gamma",
                         "activity_water", "add_logk", "add_log_k", "add_constant", "dw", "erm_ddl", "millero", "vm",
                         "viscosity"],
    "phases": ["no_check", "check", "log_k", "logk", "delta_h", "deltah", "analytical_expression", "a_e", "ae",
               "add_logk", "add_log_k", "add_constant", "t_c", "p_c", "omega", "vm"],
    "exchange_species": ["no_check", "check", "mb", "mass_balance", "log_k", "logk", "delta_h", "deltah",
                         "analytical_expression", "a_e", "ae", "mole_balance", "gamma", "davies", "offset",
                         "llnl_gamma", "add_logk", "add_log_k", "add_constant", "vm"],
    "surface_species": ["no_check", "check", "mb", "mass_balance", "log_k", "logk", "delta_h", "deltah",
                        "analytical_expression", "a_e", "ae", "mole_balance", "offset", "add_logk", "add_log_k",
                        "add_constant", "cd_music", "music", "vm"],
    "named_expressions": ["log_k", "logk", "delta_h", "deltah", "analytical_expression", "a_e", "ae", "ln_alpha1000",
                          "add_logk", "add_log_k", "vm"],
    "llnl_aqueous_model_parameters": ["temperatures", "temperature", "temp", "adh", "debye_huckel_a", "dh_a", "bdh",
                                      "debye_huckel_b", "dh_b", "bdot", "b_dot", "c_co2", "co2_coefs"],
}
SYN = {"logk": "log_k", "deltah": "delta_h", "a_e": "analytical_expression", "ae": "analytical_expression",
       "mb": "mole_balance", "mass_balance": "mole_balance", "add_log_k": "add_logk", "music": "cd_music",
       "temperature": "temperatures", "temp": "temperatures", "adh": "dh_a", "debye_huckel_a": "dh_a", "bdh": "dh_b",
       "debye_huckel_b": "dh_b", "b_dot": "bdot", "c_co2": "co2_coefs"}


class DbError(Exception):
    pass


# ----------------------------------------------------------------------------------------------- lexical level
def logical_lines(text):
    """Yield (line number, text without comment) for every non-empty logical line."""
    out = []
    i, n = 0, len(text)
    lineno = 1
    start_line = 1
    cur = []
    fresh = True

    def flush():
        s = "".join(cur)
        k = s.find("#")
        if k >= 0:
            s = s[:k]
        if s.strip():
            out.append((start_line, s.replace("\r", " ")))
        cur.clear()

    while i < n:
        c = text[i]
        if fresh:
            start_line = lineno
            fresh = False
        if c == "#":
            j = text.find("\n", i)
            if j < 0:
                j = n
            cur.append(text[i:j])
            i = j
            continue
        if c == ";":
            flush()
            fresh = True
            i += 1
            continue
        if c == "\n":
            flush()
            fresh = True
            lineno += 1
            i += 1
            continue
        if c == "\\":
            # continuation iff only white space follows up to the end of the line
            j = i + 1
            while j < n and text[j] in " \t\r":
                j += 1
            if j < n and text[j] == "\n":
                lineno += 1
                i = j + 1
                continue
            if j >= n:
                i = j
                continue
            cur.append(c)
            i += 1
            continue
        cur.append(c)
        i += 1
    flush()
    return out


_num = r"[-+]?(?:\d+\.?\d*|\.\d+)(?:[eEdD][-+]?\d+)?"
_num_re = re.compile(_num)


def leading_floats(s, nmax=None):
    """Numbers at the start of s (white-space separated), stopping at the first non-number (sscanf semantics)."""
    vals = []
    pos = 0
    while nmax is None or len(vals) < nmax:
        m = re.compile(r"\s*(" + _num + ")").match(s, pos)
        if not m:
            break
        tok = m.group(1)
        vals.append(float(tok.replace("d", "e").replace("D", "e")))
        pos = m.end()
    return vals, s[pos:]


def canon_charge(txt):
    """Charge text as written after a species name -> (value, canonical suffix)."""
    if txt == "":
        return 0.0, ""
    c = txt[0]
    if c not in "+-":
        raise DbError("charge does not start with + or -: %r" % txt)
    if all(ch == c for ch in txt):
        k = len(txt) if c == "+" else -len(txt)
        z = float(k)
    else:
        try:
            z = float(txt)
        except ValueError:
            raise DbError("bad charge %r" % txt)
        if z != int(z):
            return z, txt
        k = int(z)
    if k == 0:
        return 0.0, ""
    if abs(k) == 1:
        return float(k), c
    return float(k), "%+d" % k


def _split_species(side):
    """Split one side of an equation (white space already removed) into (coef, name, z) terms."""
    terms = []
    p, n = 0, len(side)
    while p < n:
        # coefficient
        c = side[p]
        coef = 1.0
        nxt = side[p + 1] if p + 1 < n else ""
        isname = lambda ch: ch.isalpha() or ch in "()[]"
        if isname(c):
            pass
        elif c in "+-" and nxt and isname(nxt):
            coef = 1.0 if c == "+" else -1.0
            p += 1
        else:
            m = re.compile(r"[-+.\d]+").match(side, p)
            if not m:
                raise DbError("illegal construct in equation at %r" % side[p:])
            try:
                coef = float(m.group(0))
            except ValueError:
                raise DbError("bad coefficient %r" % m.group(0))
            p = m.end()
        # name up to the first + or - (brackets protect their content)
        q = p
        while q < n and side[q] not in "+-":
            if side[q] == "[":
                k = side.find("]", q)
                if k < 0:
                    raise DbError("no closing ] in %r" % side)
                q = k
            q += 1
        name = side[p:q]
        if not name:
            raise DbError("empty species name in %r" % side)
        # charge: characters up to the next species; everything before the last + or - belongs to the charge
        r = q
        while r < n and not (side[r].isalpha() or side[r] in "()[]"):
            r += 1
        chg = side[q:r]
        if r < n:
            k = max(chg.rfind("+"), chg.rfind("-"))
            chg = chg[:k]
            r = q + k
        z, suf = canon_charge(chg)
        terms.append((coef, name + suf, z))
        p = r
    return terms


def parse_equation(text):
    s = re.sub(r"\s+", "", text)
    for ch in s:
        if not (ch.isalnum() or ch in "+-=().:_[]"):
            raise DbError("character %r not allowed in equation %r" % (ch, text))
    if "=" not in s:
        raise DbError("equation has no equal sign: %r" % text)
    lhs, rhs = s.split("=", 1)
    return _split_species(lhs), _split_species(rhs)


def parse_formula(text, valence=False):
    """Elemental composition and charge of a species / phase formula.

    Grammar: element = capital letter followed by lower-case letters or '_', or '[name]' + the same tail (isotopes);
    'e-' is the electron (element "e"); a number after an element or a ')' multiplies; 'A:nB' adds n times B (hydrates);
    a trailing charge is '+', '-', '+n', '-n' or repeated signs.  With valence=True an element may be followed by a
    parenthesised valence ("S(-2)2" = two S(-2)); '(+n)' is normalised to '(n)'.
    """
    s = re.sub(r"\s+", "", text)
    comp = {}

    def add(e, x):
        comp[e] = comp.get(e, 0.0) + x

    def number(p):
        m = re.compile(r"(\d+\.?\d*|\.\d+)").match(s, p)
        if m:
            return float(m.group(1)), m.end()
        return 1.0, p

    def group(p, mult, depth):
        items = []
        while p < len(s):
            c = s[p]
            nxt = s[p + 1] if p + 1 < len(s) else ""
            if c in "+-":
                break
            if c == ")":
                if depth == 0:
                    raise DbError("too many ) in %r" % text)
                return p + 1, items, True
            if c.isupper() or c == "[" or (c == "e" and nxt == "-"):
                if c == "[":
                    k = s.find("]", p)
                    if k < 0:
                        raise DbError("no ] in %r" % text)
                    q = k + 1
                else:
                    q = p + 1
                while q < len(s) and (s[q].islower() or s[q] == "_"):
                    q += 1
                el = s[p:q]
                if c == "e" and nxt == "-":
                    el, q = "e", p + 1
                if valence and q < len(s) and s[q] == "(":
                    m = re.compile(r"\(([-+.\d]*)\)").match(s, q)
                    if m and m.group(1) and re.fullmatch(r"[-+]?[\d.]+", m.group(1)):
                        el = "%s(%s)" % (el, m.group(1).replace("+", ""))
                        q = m.end()
                x, q = number(q)
                items.append([el, x * mult])
                p = q
                continue
            if c == "(":
                p2, sub, closed = group(p + 1, mult, depth + 1)
                if not closed:
                    raise DbError("unbalanced ( in %r" % text)
                x, p2 = number(p2)
                for it in sub:
                    it[1] *= x
                items.extend(sub)
                p = p2
                continue
            if c == ":":
                x, p2 = number(p + 1)
                p3, sub, closed = group(p2, mult, depth)
                for it in sub:
                    it[1] *= x
                items.extend(sub)
                return p3, items, closed
            raise DbError("unexpected character %r in formula %r" % (c, text))
        return p, items, False

    p, items, closed = group(0, 1.0, 0)
    if closed:
        raise DbError("too many ) in %r" % text)
    z, _ = canon_charge(s[p:])
    for el, x in items:
        add(el, x)
    return comp, z


# ----------------------------------------------------------------------------------------------- data classes
class Master:
    def __init__(self, element, species, alk, gfw, gfw_formula, element_gfw, primary, kind, line):
        self.element, self.species, self.alk, self.gfw, self.gfw_formula = element, species, alk, gfw, gfw_formula
        self.element_gfw, self.primary, self.kind, self.line = element_gfw, primary, kind, line

    def __repr__(self):
        return "Master(%s -> %s, alk=%g)" % (self.element, self.species, self.alk)


class Entry:
    def __init__(self, name, kind, equation, line):
        self.name, self.kind, self.equation, self.line = name, kind, equation, line
        self.reaction = {}
        self.z = 0.0
        self.formula = name
        self.log_k = 0.0
        self.delta_h = 0.0
        self.delta_h_units = None
        self.analytic = None
        self.add_logk = []
        self.add_constant = 0.0
        self.gamma = None
        self.llnl_gamma = None
        self.co2_llnl_gamma = False
        self.activity_water = False
        self.no_check = False
        self.mole_balance = None
        self.t_c = self.p_c = self.omega = None
        self.vm = None
        self.other = {}
        self.terms = []          # [(coef, name, z)] as written, signed as in .reaction; includes the entry itself for species

    def has_analytic(self):
        return self.analytic is not None and any(a != 0.0 for a in self.analytic)

    def __repr__(self):
        return "Entry(%s %s: %s)" % (self.kind, self.name, self.equation)


class Database:
    def __init__(self, path):
        self.path = path
        self.name = os.path.basename(path)
        self.masters = {}
        self.elements = []
        self.species = {}
        self.phases = {}
        self.named = {}
        self.llnl = None
        self.blocks = {}
        self.raw_blocks = {}
        self.model = "ion-association"
        self.notes = []
        self._phase_ci = {}
        self._exp_cache = {}

    # ---- log K ---------------------------------------------------------------------------------------------
    def _own_logk(self, e, T):
        if e.has_analytic():
            a = e.analytic
            return a[0] + a[1] * T + a[2] / T + a[3] * math.log10(T) + a[4] / (T * T) + a[5] * T * T
        R, T0 = CONSTANTS["R_kJ_per_mol_K"], CONSTANTS["T_ref_K"]
        return e.log_k + e.delta_h / (LN10 * R) * (1.0 / T0 - 1.0 / T)

    def logk(self, e, T, _depth=0):
        """log10 K of a species / phase / named expression at T kelvin and 1 atm, from the database text."""
        if isinstance(e, str):
            e = self.species.get(e) or self.phases.get(e) or self.named[e.lower()]
        if _depth > 16:
            raise DbError("circular named expressions at %s" % e.name)
        v = self._own_logk(e, T) + e.add_constant
        for nm, coef in e.add_logk:
            ne = self.named.get(nm.lower())
            if ne is None:
                raise DbError("named expression %s (used by %s) not defined" % (nm, e.name))
            v += coef * self.logk(ne, T, _depth + 1)
        return v

    # ---- derived stoichiometric data --------------------------------------------------------------------------
    def master_species(self, kind=None):
        """{species name: [Master,...]} for the master species (a species can be master of an element and a valence)."""
        out = {}
        for m in self.masters.values():
            if kind is None or m.kind == kind:
                out.setdefault(m.species, []).append(m)
        return out

    def expand(self, name, stop_at_secondary=True):
        """Reaction of a species expanded until only master species remain: {master species: coef}.
        stop_at_secondary=True stops at secondary master species (valence states), False goes on to primary ones."""
        key = (name, stop_at_secondary)
        if key in self._exp_cache:
            return self._exp_cache[key]
        ms = self.master_species()
        prim = {m.species for m in self.masters.values() if m.primary}
        out = {}

        def rec(nm, coef, depth):
            if depth > 30:
                raise DbError("reaction expansion of %s does not terminate" % name)
            is_master = nm in ms
            e = self.species.get(nm)
            identity = e is None or (len(e.reaction) == 1 and abs(e.reaction.get(nm, 0) - 1) < 1e-12) or not e.reaction
            if (is_master and (stop_at_secondary or nm in prim)) or identity:
                out[nm] = out.get(nm, 0.0) + coef
                return
            for j, nu in e.reaction.items():
                rec(j, coef * nu, depth + 1)

        e = self.species.get(name)
        if e is None:
            raise KeyError(name)
        if name in ms and (stop_at_secondary or name in prim):
            out[name] = 1.0
        else:
            for j, nu in e.reaction.items():
                if j == name:
                    out[j] = out.get(j, 0.0) + nu
                else:
                    rec(j, nu, 1)
        out = {k: v for k, v in out.items() if abs(v) > 1e-13}
        self._exp_cache[key] = out
        return out

    def alk(self, name):
        """Alkalinity contribution (eq/mol) = sum over the master species of the expanded reaction of coef x the
        alkalinity assigned to that master species in SOLUTION_MASTER_SPECIES."""
        ms = self.master_species()
        tot = 0.0
        for j, nu in self.expand(name, True).items():
            if j in ms:
                # a species that is master of an element and of one of its valence states has one assigned value
                cands = [m for m in ms[j] if not m.primary] or ms[j]
                cands = [m for m in cands if m.element != "Alkalinity"] or cands
                tot += nu * cands[0].alk
        return tot

    def composition(self, name):
        """{element: coef} read from the *formula* (name) of a species or phase."""
        e = self.species.get(name) or self.phases.get(name)
        comp, _ = parse_formula(e.formula if e is not None and e.kind == "phase" else name)
        return comp

    def stoichiometry(self, name):
        """{primary element: coef} of a species as used in mole balances.  Manual (SOLUTION_SPECIES): "normally, both the
        stoichiometry and the mass-action expression for the species are determined from the chemical equation";
        -mole_balance gives it explicitly.  For a balanced equation this equals composition(name); for -no_check
        equations (polysulfides in equilibrium with an implicit solid) it does not."""
        e = self.species[name]
        comp = {}
        if e.mole_balance:
            for k, v in parse_formula(e.mole_balance, valence=True)[0].items():
                comp[k.split("(")[0]] = comp.get(k.split("(")[0], 0.0) + v
        else:
            for j, nu in self.expand(name, True).items():
                for k, v in parse_formula(j)[0].items():
                    comp[k] = comp.get(k, 0.0) + nu * v
        return {k: v for k, v in comp.items() if abs(v) > 1e-12 and k != "e"}

    def valence_composition(self, name):
        """{element or valence-state name: coefficient} used for mole balances.  If the species has -mole_balance that
        formula is authoritative; otherwise every atom of a redox element is attributed to the valence state of the
        master species it came from when the reaction is expanded to master species."""
        e = self.species[name]
        ms = self.master_species()
        if e.mole_balance:
            comp, _ = parse_formula(e.mole_balance, valence=True)
            return comp
        out = {}
        for j, nu in self.expand(name, True).items():
            if j not in ms:
                continue
            jcomp, _ = parse_formula(j)
            for m in ms[j]:
                base = m.element.split("(")[0]
                if base in ("E", "Alkalinity"):
                    continue
                if m.primary and any((not mm.primary) for mm in ms[j]):
                    continue          # counted under the valence state
                out[m.element] = out.get(m.element, 0.0) + nu * jcomp.get(base, 0.0)
        return {k: v for k, v in out.items() if abs(v) > 1e-13}

    def valence_states(self, element):
        return [m.element for m in self.masters.values() if not m.primary and m.element.split("(")[0] == element]

    def aqueous(self):
        return [e for e in self.species.values() if e.kind == "aq"]

    def check_balance(self, e):
        """Element and charge balance of the written equation; returns a description of the imbalance or None."""
        tot = {}
        zsum = 0.0
        for coef, nm, z in e.terms:
            try:
                comp, _ = parse_formula(re.sub(r"\((aq|AQ|s|S|g|G|l|L)\)$", "", nm) if e.kind == "phase" else nm)
            except DbError as ex:
                return "formula %s: %s" % (nm, ex)
            for el, x in comp.items():
                tot[el] = tot.get(el, 0.0) + coef * x
            zsum += coef * z
        bad = {k: v for k, v in tot.items() if abs(v) > 1e-6 and k != "e"}
        # electrons carry charge -1 and no element
        if bad or abs(zsum) > 1e-6:
            return "elements %s charge %g" % (bad, zsum)
        return None


# ----------------------------------------------------------------------------------------------- block readers
def _first_token(s):
    m = re.match(r"\s*(\S+)", s)
    return m.group(1) if m else ""


def _match_option(line, opts):
    """-> (canonical option, rest) or (None, line).  '-abc' = prefix match in order; bare word = exact match."""
    tok = _first_token(line)
    rest = line[line.find(tok) + len(tok):]
    if len(tok) > 1 and tok[0] == "-" and tok[1].isalpha():
        t = tok[1:].lower()
        for o in opts:
            if o.startswith(t):
                return SYN.get(o, o), rest
        raise DbError("unknown option %r" % tok)
    t = tok.lower()
    if t in opts:
        return SYN.get(t, t), rest
    return None, line


def _delta_h(rest):
    rest = rest.replace("=", " ")
    toks = rest.split()
    if not toks:
        raise DbError("delta_h without value")
    v = float(toks[0].replace("d", "e").replace("D", "e"))
    units = toks[1] if len(toks) > 1 else None
    if units is not None and units[0].isalpha():
        u = units.lower()
        if not u.startswith("k"):
            v /= 1000.0
        if "c" in u:
            v *= CONSTANTS["J_per_cal"]
    else:
        units = None
    return v, units


def _apply_common(e, opt, rest, ctx):
    if opt == "log_k":
        vals, _ = leading_floats(rest.replace("=", " "), 1)
        if not vals:
            raise DbError("log_k without value (%s)" % e.name)
        e.log_k = vals[0]
    elif opt == "delta_h":
        e.delta_h, e.delta_h_units = _delta_h(rest)
    elif opt == "analytical_expression":
        vals, _ = leading_floats(rest, 6)
        if not vals:
            raise DbError("analytical expression without numbers (%s)" % e.name)
        e.analytic = (vals + [0.0] * 6)[:6]
    elif opt == "ln_alpha1000":
        vals, _ = leading_floats(rest, 6)
        if not vals:
            raise DbError("ln_alpha1000 without numbers (%s)" % e.name)
        a = (vals + [0.0] * 6)[:6]
        # 1000 ln(alpha) = A1 + A2 T + A3/T + A4 log10 T + A5/T^2 (five documented terms) -> log10 alpha
        e.analytic = [x / (1000.0 * LN10) for x in a[:5]] + [a[5]]
    elif opt == "add_logk":
        toks = rest.split()
        if not toks:
            raise DbError("add_logk without name (%s)" % e.name)
        vals, _ = leading_floats(" ".join(toks[1:]), 1)
        e.add_logk.append((toks[0], vals[0] if vals else 1.0))
    elif opt == "add_constant":
        vals, _ = leading_floats(rest, 1)
        if not vals:
            raise DbError("add_constant without value (%s)" % e.name)
        e.add_constant += vals[0]
    elif opt == "no_check":
        e.no_check = True
    elif opt == "check":
        e.no_check = False
    elif opt == "mole_balance":
        e.mole_balance = _first_token(rest)
    elif opt == "gamma":
        vals, _ = leading_floats(rest, 2)
        e.gamma = tuple((vals + [0.0, 0.0])[:2])
    elif opt == "llnl_gamma":
        vals, _ = leading_floats(rest, 1)
        if not vals:
            raise DbError("llnl_gamma without value (%s)" % e.name)
        e.llnl_gamma = vals[0]
    elif opt == "co2_llnl_gamma":
        e.co2_llnl_gamma = True
    elif opt == "activity_water":
        e.activity_water = True
    elif opt == "t_c":
        e.t_c = leading_floats(rest.replace("=", " "), 1)[0][0]
    elif opt == "p_c":
        e.p_c = leading_floats(rest.replace("=", " "), 1)[0][0]
    elif opt == "omega":
        e.omega = leading_floats(rest.replace("=", " "), 1)[0][0]
    elif opt == "vm":
        e.vm = rest.strip()
    else:
        e.other[opt] = rest.strip()


def _read_species_block(db, lines, kw, kind):
    opts = OPTS[kw]
    cur = None
    for ln, line in lines:
        opt, rest = _match_option(line, opts)
        if opt is None:
            lhs, rhs = parse_equation(line)
            if not rhs:
                raise DbError("%s:%d no product in %r" % (db.name, ln, line))
            coef0, name, z = rhs[0]
            e = Entry(name, kind, line.strip(), ln)
            e.z = z
            # association reaction: the defined species is the first one on the right-hand side
            rx = {}
            for c, nm, zz in lhs:
                rx[nm] = rx.get(nm, 0.0) + c / coef0
            for c, nm, zz in rhs[1:]:
                rx[nm] = rx.get(nm, 0.0) - c / coef0
            e.reaction = {k: v for k, v in rx.items() if v != 0.0}
            e.terms = [(c, nm, zz) for c, nm, zz in lhs] + [(-c, nm, zz) for c, nm, zz in rhs]
            if kind == "aq" and z == 0.0:
                pass
            db.species[name] = e
            cur = e
        else:
            if cur is None:
                raise DbError("%s:%d option before any reaction: %r" % (db.name, ln, line))
            _apply_common(cur, opt, rest, db)


def _read_phases(db, lines):
    opts = OPTS["phases"]
    cur = None
    it = iter(lines)
    for ln, line in it:
        opt, rest = _match_option(line, opts)
        if opt is not None:
            if cur is None:
                raise DbError("%s:%d option before any phase: %r" % (db.name, ln, line))
            _apply_common(cur, opt, rest, db)
            continue
        name = _first_token(line)
        try:
            ln2, eq = next(it)
        except StopIteration:
            db.notes.append("line %d: phase name %s at the end of a PHASES block has no equation (ignored)" % (ln, name))
            break
        if _match_option(eq, opts)[0] is not None and _first_token(eq).startswith("-"):
            raise DbError("%s:%d expecting equation for phase %s" % (db.name, ln2, name))
        lhs, rhs = parse_equation(eq)
        e = Entry(name, "phase", eq.strip(), ln)
        coef0, fname, z0 = lhs[0]
        e.formula = re.sub(r"\((g|s|G|S)\)", "", fname)
        rx = {}

        def clean(nm):
            nm = nm.replace("(aq)", "").replace("(AQ)", "")
            if nm == "H2O(l)":
                nm = "H2O"
            return nm
        # dissociation reaction: the phase is the first species on the left-hand side
        for c, nm, zz in lhs[1:]:
            rx[clean(nm)] = rx.get(clean(nm), 0.0) - c / coef0
        for c, nm, zz in rhs:
            rx[clean(nm)] = rx.get(clean(nm), 0.0) + c / coef0
        e.reaction = {k: v for k, v in rx.items() if v != 0.0}
        e.terms = [(-c, nm, zz) for c, nm, zz in lhs] + [(c, clean(nm), zz) for c, nm, zz in rhs]
        old = db._phase_ci.get(name.lower())
        if old is not None and old in db.phases:
            del db.phases[old]
        db._phase_ci[name.lower()] = name
        db.phases[name] = e
        cur = e


def _read_named(db, lines):
    opts = OPTS["named_expressions"]
    cur = None
    for ln, line in lines:
        opt, rest = _match_option(line, opts)
        if opt is None:
            name = _first_token(line)
            cur = Entry(name, "named", "", ln)
            db.named[name.lower()] = cur
        else:
            if cur is None:
                raise DbError("%s:%d option before any name: %r" % (db.name, ln, line))
            _apply_common(cur, opt, rest, db)


def _read_masters(db, lines, kind):
    for ln, line in lines:
        toks = line.split()
        if len(toks) < 2:
            raise DbError("%s:%d master species line too short: %r" % (db.name, ln, line))
        el = toks[0].replace("(+", "(")
        if not (el[0].isupper() or el[0] == "["):
            raise DbError("%s:%d element name expected: %r" % (db.name, ln, line))
        sp_txt = toks[1]
        terms = _split_species(sp_txt)
        sp = terms[0][1]
        alk = gfw = egfw = None
        gfwf = None
        primary = "(" not in el
        if kind == "aq":
            if len(toks) < 4:
                raise DbError("%s:%d alkalinity and gfw expected: %r" % (db.name, ln, line))
            alk = float(toks[2])
            if re.fullmatch(_num, toks[3]):
                gfw = float(toks[3])
            else:
                gfwf = toks[3]
            if primary and el != "E":
                if len(toks) < 5:
                    raise DbError("%s:%d element gfw expected: %r" % (db.name, ln, line))
                egfw = float(toks[4])
        else:
            alk = 0.0
        if el in db.masters:
            if el in db.elements:
                db.elements.remove(el)
        db.masters[el] = Master(el, sp, alk, gfw, gfwf, egfw, primary, kind, ln)
        if primary and kind == "aq":
            db.elements.append(el)


def _read_llnl(db, lines):
    opts = OPTS["llnl_aqueous_model_parameters"]
    d = db.llnl or {}
    cur = None
    for ln, line in lines:
        tok = _first_token(line)
        if tok[0] == "-" and len(tok) > 1 and tok[1].isalpha():
            cur, rest = _match_option(line, opts)
            d[cur] = []
        else:
            rest = line
            t = tok.lower()
            if t in opts:
                cur = SYN.get(t, t)
                d[cur] = []
                rest = line[line.find(tok) + len(tok):]
        if cur is None:
            raise DbError("%s:%d numbers before any identifier in LLNL_AQUEOUS_MODEL_PARAMETERS" % (db.name, ln))
        vals, tail = leading_floats(rest)
        if tail.strip():
            raise DbError("%s:%d unreadable numbers %r" % (db.name, ln, tail))
        d[cur].extend(vals)
    db.llnl = d


_RAW = {"rates", "gas_binary_parameters", "pitzer", "sit", "isotopes", "isotope_ratios", "isotope_alphas",
        "calculate_values", "mean_gammas", "rate_parameters_pk", "rate_parameters_svd", "rate_parameters_hermanska",
        "user_print", "user_punch", "user_graph", "title", "print", "knobs", "selected_output"}


def load(path):
    """Parse a database file; raises DbError when a block this module is responsible for cannot be read."""
    with open(path, encoding="latin-1") as f:
        text = f.read()
    if text.startswith("\xef\xbb\xbf"):
        text = text[3:]                      # UTF-8 byte-order mark
    db = Database(path)
    lines = logical_lines(text)
    # split into keyword blocks
    blocks = []
    cur_kw, cur_lines = None, []
    for ln, line in lines:
        tok = _first_token(line).lower()
        if tok in KEYWORDS:
            if cur_kw is not None:
                blocks.append((cur_kw, cur_lines))
            cur_kw, cur_lines = CANON.get(tok, tok), []
        else:
            if cur_kw is None:
                raise DbError("%s:%d data before any keyword: %r" % (db.name, ln, line))
            cur_lines.append((ln, line))
    if cur_kw is not None:
        blocks.append((cur_kw, cur_lines))
    for kw, bl in blocks:
        db.blocks[kw] = db.blocks.get(kw, 0) + 1
        if kw == "solution_master_species":
            _read_masters(db, bl, "aq")
        elif kw == "exchange_master_species":
            _read_masters(db, bl, "ex")
        elif kw == "surface_master_species":
            _read_masters(db, bl, "surf")
        elif kw == "solution_species":
            _read_species_block(db, bl, kw, "aq")
        elif kw == "exchange_species":
            _read_species_block(db, bl, kw, "ex")
        elif kw == "surface_species":
            _read_species_block(db, bl, kw, "surf")
        elif kw == "phases":
            _read_phases(db, bl)
        elif kw == "named_expressions":
            _read_named(db, bl)
        elif kw == "llnl_aqueous_model_parameters":
            _read_llnl(db, bl)
        elif kw == "end":
            pass
        elif kw in _RAW:
            db.raw_blocks.setdefault(kw, []).extend(bl)
        else:
            raise DbError("%s: keyword %s is not expected in a database" % (db.name, kw))
    if "pitzer" in db.blocks:
        db.model = "pitzer"
    elif "sit" in db.blocks:
        db.model = "sit"
    elif db.llnl:
        db.model = "llnl"
    # every master species must be defined as a species (identity reaction) - the program requires it as well
    for m in db.masters.values():
        if m.species not in db.species:
            db.notes.append("master species %s of %s has no reaction" % (m.species, m.element))
    # named expressions referenced must exist
    for e in list(db.species.values()) + list(db.phases.values()) + list(db.named.values()):
        for nm, coef in e.add_logk:
            if nm.lower() not in db.named:
                raise DbError("%s: %s refers to undefined named expression %s" % (db.name, e.name, nm))
    return db


def self_check(db):
    """Sanity of the *reader*: every equation not marked -no_check balances in elements and charge.
    Returns the list of imbalances (the program refuses such a database, so a non-empty list means this reader
    misunderstood the text)."""
    bad = []
    for e in list(db.species.values()) + list(db.phases.values()):
        if e.no_check:
            continue
        if e.kind == "phase" and any(re.search(r"\((s|S|g|G)\)$", nm) for c, nm, z in e.terms[1:]):
            continue                      # reactions among solids / gases (solid-solution components): not species
        r = db.check_balance(e)
        if r:
            bad.append("%s %s (line %d): %s" % (e.kind, e.name, e.line, r))
    return bad
