"""C07 alphabets: history operations (each leaves a different kind of residue in an instance), failing operations,
final loads, and probes (the reader for each writer).  Everything is plain PHREEQC input written from the manual;
nothing here is derived from the engine source.

An operation is a list of steps; a step is (function, argument...) executed through the C binding on slot 0:
  ("RunString", text) ("RunFile", name) ("writefile", name, text: creates the file in the scratch directory) ("LoadDatabase", db-file-name) ("LoadDatabaseString", key) (setter, value...)
Database names are resolved against <repo>/database; "LoadDatabaseString" keys name a text in DBTEXT.
"""
import os

from .. import build

DBDIR = os.path.join(build.REPO, "database")
DATA = os.path.join(build.ROOT, "data", "c07")


def dbpath(name):
    return os.path.join(DBDIR, name)


_dbtext = {}


def dbtext(key):
    """'mini' = data/c07/mini.dat ; any other key = the text of <repo>/database/<key>."""
    if key not in _dbtext:
        p = os.path.join(DATA, "mini.dat") if key == "mini" else dbpath(key)
        with open(p, encoding="latin-1") as f:
            _dbtext[key] = f.read()
    return _dbtext[key]


SOL1 = "SOLUTION 1\n pH 7 charge\n Na 1\n Cl 1\n Ca 0.5\n C 1\n"

# ------------------------------------------------------------------------------------------ successful history ops
S = {}

S["spec"] = [("RunString", SOL1 + "END\n")]

S["t80"] = [("RunString", "SOLUTION 1\n temp 80\n pressure 50\n pH 6.5\n Na 10\n Cl 10\n Ca 2\n C 4\n"
             "REACTION_TEMPERATURE 1\n 60\nREACTION_PRESSURE 1\n 200\nEND\n")]

S["kin"] = [("RunString", "RATES\n decay\n -start\n 10 rate = 1e-3 * M\n 20 SAVE rate * TIME\n -end\n"
             "SOLUTION 1\n pH 7\n Na 1\n Cl 1\nKINETICS 1\n decay\n  -formula NaCl 1\n  -m0 1e-3\n -steps 100 in 2 steps\n"
             " -cvode true\n -cvode_order 3\n -cvode_steps 200\n -tol 1e-9\n -bad_step_max 600\n -step_divide 10\nEND\n")]

S["adv"] = [("RunString", "SOLUTION 0\n pH 7\n Ca 1\n Cl 2\nSOLUTION 1-3\n pH 7\n Na 1\n Cl 1\n"
             "ADVECTION\n -cells 3\n -shifts 2\n -punch_cells 2\n -print_cells 1\n -punch_frequency 2\n -print_frequency 2\n"
             " -time_step 10\n -initial_time 100\n -warnings false\nEND\n")]

S["trs"] = [("RunString", "SOLUTION 0\n pH 7\n Ca 1\n Cl 2\nSOLUTION 1-4\n pH 7\n Na 1\n Cl 1\nSOLUTION 5-7\n pH 7\n Na 2\n Cl 2\n"
             "TRANSPORT\n -cells 3\n -shifts 2\n -time_step 100\n -flow_direction back\n -boundary_conditions constant closed\n"
             " -lengths 0.5\n -dispersivities 0.05\n -correct_disp true\n -diffusion_coefficient 1e-9\n -stagnant 1 6.8e-6 0.3 0.1\n"
             " -print_cells 1\n -punch_cells 2\n -print_frequency 2\n -punch_frequency 2\n -warnings false\n"
             " -thermal_diffusion 3.0 0.5e-6\n -initial_time 1000\nEND\n")]

S["trm"] = [("RunString", "SOLUTION 0\n pH 7\n Ca 1\n Cl 2\nSOLUTION 1-3\n pH 7\n Na 1\n Cl 1\n"
             "TRANSPORT\n -cells 3\n -shifts 2\n -flow_direction diffusion_only\n -boundary_conditions constant closed\n -time_step 1000\n"
             " -multi_d true 1e-9 0.3 0.05 1.0\n -implicit true 1 -30\n -porosities 0.3 0.25 0.2\nEND\n")]

S["tre"] = [("RunString", "SOLUTION 0\n pH 7\n Ca 1\n Cl 2\nSOLUTION 1-4\n pH 7\n Na 1\n Cl 1\nEXCHANGE 1-3\n X 0.001\n -equilibrate 1\n"
             "TRANSPORT\n -cells 3\n -shifts 2\n -flow_direction diffusion_only\n -boundary_conditions constant constant\n -time_step 500\n"
             " -multi_d true 2e-9 0.4 0.02 1.5\n -interlayer_d true 0.1 0.01 100\n -fix_current 1e-6\n"
             " -dump hist_transport.dmp\n -dump_frequency 1\n -dump_restart 1\n -temp_retardation_factor 2.5\n -output_frequency 3\n -selected_output_frequency 3\nEND\n")]

S["inv"] = [("RunString", "SOLUTION 1\n pH 7\n Na 1\n Cl 1\nSOLUTION 2\n pH 7\n Na 2\n Cl 2\n"
             "INVERSE_MODELING 1\n -solutions 1 2\n -uncertainty 0.05\n -phases\n  Halite\n -range\n -tolerance 1e-9\n -mineral_water false\nEND\n")]

S["so1"] = [("RunString", "SELECTED_OUTPUT 1\n -reset false\n -ph true\n -totals Ca\n -molalities Na+ Cl-\n -saturation_indices Calcite\n"
             " -high_precision true\n" + SOL1 + "END\n")]

S["so2"] = [("RunString", "SELECTED_OUTPUT 2\n -totals Na Cl\n -high_precision true\nUSER_PUNCH 2\n -headings a b\n 10 PUNCH 1.5, TOT(\"Na\")\n"
             + SOL1 + "END\n")]

S["sofile"] = [("RunString", "SELECTED_OUTPUT 1\n -file hist_sel.txt\n -totals Na\n" + SOL1 + "END\n")]

S["knobs"] = [("RunString", "KNOBS\n -iterations 5\n -tolerance 1e-5\n -convergence_tolerance 1e-5\n -step_size 3\n -pe_step_size 2\n"
               " -diagonal_scale true\n -tries 2\n -delay_mass_water true\n -equi_delay 2\n -numerical_derivatives true\n -min_total 1e-20\nEND\n")]

S["knoblog"] = [("RunString", "KNOBS\n -logfile true\nEND\n")]

S["knobdbg"] = [("RunString", "KNOBS\n -debug_model true\n -debug_prep true\n -debug_set true\n -debug_inverse true\n -debug_mass_action true\n"
                 " -debug_mass_balance true\nSOLUTION 1\n pH 7\n Na 1\n Cl 1\nEND\n")]

S["prreset"] = [("RunString", "PRINT\n -reset false\n -warnings 0\n -censor_species 1e-8\n -alkalinity true\n -high_precision true\n -status false\nEND\n")]
S["prso"] = [("RunString", "PRINT\n -selected_output false\nEND\n")]
S["prdump"] = [("RunString", "PRINT\n -dump false\nEND\n")]
S["precho"] = [("RunString", "PRINT\n -echo_input false\n -headings false\n -user_print false\nEND\n")]

S["defs"] = [("RunString", "RATES\n myrate\n -start\n 10 SAVE 1e-6 * TIME\n -end\nCALCULATE_VALUES\n myval\n -start\n 10 SAVE 42\n -end\n"
              "USER_PRINT\n 10 PRINT \"stored\", CALC_VALUE(\"myval\")\n"
              "SELECTED_OUTPUT 1\n -reset false\nUSER_PUNCH 1\n -headings stored\n 10 PUT(3.25, 1)\n 20 PUT(7.5, 2, 3)\n 30 PUT$(\"kept\", 4)\n 40 PUNCH CALC_VALUE(\"myval\")\n"
              + SOL1 + "END\n")]

S["redef"] = [("RunString", "SOLUTION_MASTER_SPECIES\n Xx Xx+ 0 Xx 50\nSOLUTION_SPECIES\n Xx+ = Xx+\n log_k 0\n Ca+2 + CO3-2 = CaCO3\n log_k 5.0\n"
               "PHASES\n Xxite\n XxCl = Xx+ + Cl-\n log_k -1\n Calcite\n CaCO3 = CO3-2 + Ca+2\n log_k -7.0\n"
               "SOLUTION 1\n pH 7\n Na 1\n Cl 1\n Ca 0.5\n C 1\n Xx 1\nEND\n")]

S["redef2"] = [("RunString", "EXCHANGE_MASTER_SPECIES\n Y Y-\nEXCHANGE_SPECIES\n Y- = Y-\n log_k 0\n Na+ + Y- = NaY\n log_k 0.5\n"
                "SURFACE_MASTER_SPECIES\n Sfx SfxOH\nSURFACE_SPECIES\n SfxOH = SfxOH\n log_k 0\n SfxOH + Ca+2 = SfxOCa+ + H+\n log_k -2\n"
                "SOLUTION_SPECIES\n Na+ = Na+\n -gamma 4.0 0.075\n -dw 2.0e-9\n -Vm 1 1 1 1\n H2O = OH- + H+\n log_k -13.5\n"
                + SOL1 + "EXCHANGE 1\n Y 0.01\n -equilibrate 1\nSURFACE 1\n Sfx 0.001 100 1\n -equilibrate 1\nEND\n")]

S["incr"] = [("RunString", "INCREMENTAL_REACTIONS true\nSOLUTION 1\n pH 7\n Na 1\n Cl 1\nREACTION 1\n NaCl 1\n 1 2 mmol\nEND\n")]

S["save"] = [("RunString", "SOLUTION 1\n pH 7\n Na 1\n Cl 1\n Ca 0.5\n C 1\nEQUILIBRIUM_PHASES 1\n Calcite 0 1\n CO2(g) -2 1\n"
              "GAS_PHASE 1\n -fixed_pressure\n -pressure 1\n -volume 1\n CO2(g) 0.01\nREACTION 1\n NaCl 1\n 1 mmol\n"
              "SAVE solution 2\nSAVE equilibrium_phases 2\nSAVE gas_phase 2\nEND\n"
              "MIX 3\n 1 0.5\n 2 0.5\nSAVE solution 3-4\nEND\nCOPY solution 3 9\nEND\nRUN_CELLS\n -cells 1\n -time_step 10\n -start_time 5\nEND\n")]

S["exsurf"] = [("RunString", "SOLUTION 1\n pH 7\n Na 1\n Cl 1\n Ca 0.5\n C 1\nEXCHANGE 1\n X 0.01\n -equilibrate 1\n"
                "SURFACE 1\n Hfo_w 0.001 600 1\n Hfo_s 0.00005\n -equilibrate 1\nSAVE exchange 2\nSAVE surface 2\nEND\n"
                "USE solution 1\nUSE exchange 2\nUSE surface 2\nREACTION 1\n NaCl 1\n 1 mmol\nEND\n")]

S["surfdl"] = [("RunString", "SOLUTION 1\n pH 7\n Na 1\n Cl 1\nSURFACE 1\n Hfo_w 0.001 600 1\n -equilibrate 1\n -diffuse_layer 1e-8\nEND\n")]

S["ss"] = [("RunString", "SOLUTION 1\n pH 7\n Na 1\n Cl 1\n Ca 0.5\n C 1\n S(6) 1\n Ba 0.01\n Sr 0.01\nSOLID_SOLUTIONS 1\n BaSrSO4\n"
            "  -comp Barite 0.001\n  -comp Celestite 0.001\nSAVE solid_solutions 2\nEND\n")]

S["pitz"] = [("RunString", "PITZER\n -MacInnes true\n -use_etheta false\n -B0\n Na+ Cl- 0.0765\n -B1\n Na+ Cl- 0.2664\n -C0\n Na+ Cl- 0.00127\n"
              "SOLUTION 1\n pH 7\n Na 100\n Cl 100\nEND\n")]

S["sit"] = [("RunString", "SIT\n -epsilon\n Na+ Cl- 0.03\nSOLUTION 1\n pH 7\n Na 100\n Cl 100\nEND\n")]

S["brine"] = [("RunString", "SOLUTION 1\n temp 40\n pH 7 charge\n Na 3000\n Cl 3000\n Ca 200\n S(6) 100\n K 100\n Mg 50\nEQUILIBRIUM_PHASES 1\n Gypsum 0 0\nEND\n")]

S["dumpf"] = [("SetDumpFileOn", 1), ("RunString", SOL1 + "DUMP\n -file hist_dump.txt\n -append true\n -solution 1\nEND\n")]

S["userprint"] = [("RunString", "TITLE residue of an earlier run\nUSER_PRINT\n 10 PRINT \"history user print\", TOT(\"Na\")\nUSER_PUNCH 1\n -headings hp\n 10 PUNCH 77\n" + SOL1 + "END\n")]

S["spread"] = [("RunString", "SOLUTION_SPREAD\n -units mmol/kgw\n -temp 30\n Number\tpH\tNa\tCl\n 1\t7\t1\t1\n 2\t8\t2\t2\nEND\n"
                "NAMED_EXPRESSIONS\n My_expr\n H2O = H2O\n log_k 1.5\nEND\n")]

S["params"] = [("RunString", "RATE_PARAMETERS_PK\nMymin -30 0 0 -13.4 90.9 -30 0 0\nRATE_PARAMETERS_HERMANSKA\nMymin -10 1 50 0.5 -12 1 60 -30 0 0 0\n"
                "RATE_PARAMETERS_SVD\nMymin 3350 2500 1680 1200 3100 14.6 0.5 0.4 0.4 0.4 0.5 16.8 0.15 4 0.15 200 3 900 16.05 0.6 14.7 0.5 5 15.4 0.3 0.1 12 0.5 5 3 900\n"
                "MEAN_GAMMAS\nMysalt Na+ 1 Cl- 1\nGAS_BINARY_PARAMETERS\nH2O(g) CO2(g) 0.9\nCO2(g) Mtg(g) 0.35\n" + SOL1 + "END\n")]

S["runfile"] = [("writefile", "hist_input.pqi", "TITLE from a file\n" + SOL1 + "END\n"), ("RunFile", "hist_input.pqi")]

# database switches
S["db_pitzer"] = [("LoadDatabase", "pitzer.dat")]
S["db_sit"] = [("LoadDatabase", "sit.dat")]
S["db_llnl"] = [("LoadDatabase", "llnl.dat")]
S["db_rates"] = [("LoadDatabase", "phreeqc_rates.dat")]
S["db_mini"] = [("LoadDatabaseString", "mini")]
S["db_same"] = [("LoadDatabase", "phreeqc.dat")]
# every other shipped database as the history of a load (kept out of S: they are explored in a bound of their own)
DBX = {"dbx_" + n[:-4]: [("LoadDatabase", n)] for n in (
    "Amm.dat", "ColdChem.dat", "Concrete_PHR.dat", "Concrete_PZ.dat", "Kinec.v2.dat", "Kinec_v3.dat", "Tipping_Hurley.dat", "core10.dat",
    "frezchem.dat", "iso.dat", "minimum.dat", "minteq.dat", "minteq.v4.dat", "wateq4f.dat")}

# setter calls
S["sw_on"] = [("SetOutputFileOn", 1), ("SetOutputStringOn", 1), ("SetErrorFileOn", 1), ("SetLogFileOn", 1), ("SetLogStringOn", 1),
              ("SetDumpFileOn", 1), ("SetDumpStringOn", 1)]
S["sw_errfile"] = [("SetErrorFileOn", 1)]
S["sw_outfile"] = [("SetOutputFileOn", 1), ("SetDumpStringOn", 1)]
S["sw_erroff"] = [("SetErrorOn", 0), ("SetErrorStringOn", 0)]
S["names"] = [("SetOutputFileName", "o.txt"), ("SetErrorFileName", "e.txt"), ("SetLogFileName", "l.txt"), ("SetDumpFileName", "d.txt"),
              ("SetCurrentSelectedOutputUserNumber", 2), ("SetSelectedOutputFileName", "s2.txt"),
              ("SetCurrentSelectedOutputUserNumber", 1), ("SetSelectedOutputFileName", "s1.txt")]
S["user2"] = [("SetSelectedOutputFileOn", 1), ("SetSelectedOutputStringOn", 1), ("SetCurrentSelectedOutputUserNumber", 2),
              ("SetSelectedOutputFileOn", 1), ("SetSelectedOutputStringOn", 1)]
S["cb"] = [("SetBasicCallback", 1)]
S["acc"] = [("AccumulateLine", "SOLUTION 5"), ("AccumulateLine", " pH 3")]
S["adderr"] = [("AddError", "history error text\n"), ("AddWarning", "history warning text\n")]

# ------------------------------------------------------------------------------------------ failing ops
BADRATE = "RATES\n badrate\n -start\n 10 IF (M < 0.95e-3) THEN GOTO 999\n 20 SAVE 1e-5 * TIME\n -end\n"
F = {}
F["f_syntax"] = [("RunString", "SOLUTION 1\n pH 7\n Na 1\n Cl 1 as as as\n -bogus_option 3\nKNOBS\n -iterations none\n -bogus\nEND\n")]
F["f_phase"] = [("RunString", SOL1 + "EQUILIBRIUM_PHASES 1\n NoSuchPhase 0 1\nEND\n")]
F["f_conv"] = [("RunString", "SOLUTION 1\n pH 7\n Na 1\nPHASES\n Fix_H+\n H+ = H+\n log_k 0\nEQUILIBRIUM_PHASES\n Fix_H+ -10 HCl 10\nEND\n")]
CONVFAIL = "SOLUTION 1\n pH 7\n Na 1\nPHASES\n Fix_H+\n H+ = H+\n log_k 0\nEQUILIBRIUM_PHASES\n Fix_H+ -10 HCl 10\n"
# requests that are read with the input but carried out only after the calculations: the run stops before they are
F["f_dump"] = [("SetDumpFileOn", 1), ("SetDumpStringOn", 1), ("RunString", CONVFAIL + "DUMP\n -file pending_dump.txt\n -all\nEND\n")]
F["f_pending"] = [("RunString", CONVFAIL + "COPY solution 1 8\nDELETE\n -solution 1\nRUN_CELLS\n -cells 1\n -time_step 10\nEND\n")]
F["f_runfile"] = [("RunFile", "no_such_input_file.pqi")]
F["f_basic"] = [("RunString", BADRATE + "SOLUTION 1\n pH 7\n Na 1\n Cl 1\nKINETICS 1\n badrate\n  -formula NaCl 1\n  -m0 1e-3\n -steps 100 in 4 steps\nEND\n")]
F["f_trans"] = [("RunString", BADRATE + "SOLUTION 0\n pH 7\n Ca 1\n Cl 2\nSOLUTION 1-3\n pH 7\n Na 1\n Cl 1\n"
                 "KINETICS 1-3\n badrate\n  -formula NaCl 1\n  -m0 1e-3\n"
                 "TRANSPORT\n -cells 3\n -shifts 12\n -time_step 2\n -multi_d true 1e-9 0.3 0.05 1.0\nEND\n")]
F["f_load"] = [("LoadDatabase", "no_such_database.dat")]
F["f_loadstr"] = [("LoadDatabaseString", "bad")]
_dbtext["bad"] = "SOLUTION_MASTER_SPECIES\nH H+ -1 H 1.008\nQq\nSOLUTION_SPECIES\nH+ = H+\n log_k zero\nH+ + = \n"

# ------------------------------------------------------------------------------------------ final loads
LOADS = {
    "phreeqc": ("LoadDatabase", "phreeqc.dat"),
    "pitzer": ("LoadDatabase", "pitzer.dat"),
    "phreeqc-str": ("LoadDatabaseString", "phreeqc.dat"),
}

# ------------------------------------------------------------------------------------------ probes
ALL_ON = [("SetOutputStringOn", 1), ("SetOutputFileOn", 1), ("SetErrorStringOn", 1), ("SetErrorFileOn", 1), ("SetErrorOn", 1),
          ("SetLogStringOn", 1), ("SetLogFileOn", 1), ("SetDumpStringOn", 1), ("SetDumpFileOn", 1),
          ("SetSelectedOutputStringOn", 1), ("SetSelectedOutputFileOn", 1)]
HP = "SELECTED_OUTPUT 1\n -high_precision true\n -temperature true\n -ionic_strength true\n -water true\n -charge_balance true\n -alkalinity true\n"

P = {}
# probes that run under the surviving switches only (before the check switches every sink on)
BARE = ("none", "bare")
# nothing but observation: state right after the load
P["none"] = []
# a run under the surviving switches only (nothing switched on by the probe)
P["bare"] = [("RunString", HP + " -totals Na Ca C\n" + SOL1 + "END\n")]
# default printing + temperature/pressure-sensitive speciation at full precision (no temperature given: must be 25 C, 1 atm)
P["spec"] = [("RunString", HP + " -totals Na Ca C\n -molalities CO3-2 HCO3- CaCO3 OH-\n -activities Ca+2 H+\n -saturation_indices Calcite CO2(g)\n"
                       "USER_PUNCH\n -headings tc pr lk_species lk_phase rho sc\n 10 PUNCH TC, PRESSURE, LK_SPECIES(\"CaCO3\"), LK_PHASE(\"Calcite\"), RHO, SC\n"
                       + SOL1 + "END\n")]
# needs more than 5 iterations and is sensitive to the convergence tolerance / step sizes
P["iter"] = [("RunString", HP + " -totals Ca C S(6)\n -equilibrium_phases Calcite Gypsum CO2(g)\nUSER_PUNCH\n -headings iters\n 10 PUNCH STEP_NO\n"
                       "SOLUTION 1\n pH 7 charge\n Na 100\n Cl 100\n K 5\n Mg 3\nEQUILIBRIUM_PHASES 1\n Calcite 0 1\n Gypsum 0 1\n CO2(g) -1.5 10\nEND\n")]
# BASIC memory, calculate-values, callback: everything must be empty
P["basic"] = [("RunString", "USER_PRINT\n 10 PRINT \"get\", GET(1), GET(2, 3), \"[\" + GET$(4) + \"]\"\n 20 PRINT \"callback\", CALLBACK(1, 2, \"abc\")\n"
                        "USER_PUNCH\n -headings g1 g23 cb\n 10 PUNCH GET(1), GET(2, 3), CALLBACK(1, 2, \"abc\")\n" + HP + SOL1 + "END\n")]
P["calc"] = [("RunString", "USER_PRINT\n 10 PRINT CALC_VALUE(\"myval\")\n" + SOL1 + "END\n")]
P["rate"] = [("RunString", SOL1 + "KINETICS 1\n myrate\n  -formula NaCl 1\n  -m0 1e-3\n -steps 10\nEND\n")]
P["rate2"] = [("RunString", SOL1 + "KINETICS 1\n decay\n  -formula NaCl 1\n  -m0 1e-3\n -steps 10\nEND\n")]
# parameter tables that only an earlier definition / another database provides
P["ratepk"] = [("RunString", "USER_PRINT\n 10 PRINT \"pk\", RATE_PK(\"Mymin\")\n" + SOL1 + "END\n")]
P["ratedb"] = [("RunString", "USER_PRINT\n 10 PRINT \"pk\", RATE_PK(\"Quartz\")\n" + SOL1 + "END\n")]
P["ratesvd"] = [("RunString", "USER_PRINT\n 10 PRINT \"svd\", RATE_SVD(\"Albite\")\n" + SOL1 + "END\n")]
P["rateher"] = [("RunString", "USER_PRINT\n 10 PRINT \"hermanska\", RATE_HERMANSKA(\"Mymin\")\n" + SOL1 + "END\n")]
P["meang"] = [("RunString", "USER_PRINT\n 10 PRINT \"mean gamma\", MEANG(\"NaCl\")\n 20 PRINT MEANG(\"Mysalt\")\n" + SOL1 + "END\n")]
P["gasbin"] = [("RunString", HP + " -gases CO2(g) H2O(g) Mtg(g)\nUSER_PUNCH\n -headings phi_co2 p_h2o phi_mtg\n 10 PUNCH PR_PHI(\"CO2(g)\"), PR_P(\"H2O(g)\"), PR_PHI(\"Mtg(g)\")\n"
                "SOLUTION 1\n temp 50\n pH 7\n Na 1\n Cl 1\nGAS_PHASE 1\n -fixed_volume\n -volume 1\n -temperature 50\n CO2(g) 30\n H2O(g) 0.1\n Mtg(g) 20\nEND\n")]
# no SELECTED_OUTPUT / USER_PUNCH / USER_PRINT defined: nothing may be left of the history's definitions
P["noso"] = [("SetCurrentSelectedOutputUserNumber", 2), ("SetSelectedOutputStringOn", 1), ("SetSelectedOutputFileOn", 1),
                      ("RunString", SOL1 + "END\n")]
# selected output for two user numbers to string and file, default file names
P["so"] = [("SetCurrentSelectedOutputUserNumber", 2), ("SetSelectedOutputStringOn", 1), ("SetSelectedOutputFileOn", 1),
                    ("RunString", "SELECTED_OUTPUT 1\n -totals Na\nSELECTED_OUTPUT 2\n -totals Cl\n -high_precision true\nUSER_PUNCH 2\n -headings q\n 10 PUNCH SIM_NO\n"
                     + SOL1 + "END\nUSE solution 1\nREACTION 1\n NaCl 1\n 1 mmol\nEND\n")]
# entities of the history must be gone
P["use"] = [("RunString", "USE solution 2\nUSE equilibrium_phases 2\nEND\n")]
P["use1"] = [("RunString", "USE solution 1\nREACTION 1\n NaCl 1\n 1 mmol\nEND\n")]
# reaction steps (incremental or not), temperature default
P["react"] = [("RunString", HP + " -totals Na Cl\n -reaction true\n" "SOLUTION 1\n pH 7\n Na 1\n Cl 1\nREACTION 1\n NaCl 1\n 1 2 mmol\nEND\n")]
# transport / advection with every parameter left at its default
P["trans"] = [("RunString", HP + " -totals Na Ca Cl\n -distance true\n -time true\n -step true\nSOLUTION 0\n pH 7\n Ca 1\n Cl 2\nSOLUTION 1-3\n pH 7\n Na 1\n Cl 1\n"
                        "TRANSPORT\n -cells 3\n -shifts 2\nEND\n")]
# stagnant-numbered solutions are defined but no -stagnant option is given: they must stay untouched
P["trans7"] = [("RunString", HP + " -totals Na Ca Cl\n -distance true\n -time true\n -step true\nSOLUTION 0\n pH 7\n Ca 1\n Cl 2\nSOLUTION 1-4\n pH 7\n Na 1\n Cl 1\n"
                "SOLUTION 5-7\n pH 7\n K 5\n Cl 5\nTRANSPORT\n -cells 3\n -shifts 2\n -time_step 1000\n -punch_cells 1-7\nEND\n")]
P["adv"] = [("RunString", HP + " -totals Na Ca Cl\n -distance true\n -time true\n -step true\nSOLUTION 0\n pH 7\n Ca 1\n Cl 2\nSOLUTION 1-3\n pH 7\n Na 1\n Cl 1\n"
                      "ADVECTION\n -cells 3\n -shifts 2\nEND\n")]
# kinetics with default integration parameters, database rate if there is one
P["kin"] = [("RunString", "RATES\n lin\n -start\n 10 SAVE 1e-6 * TIME * (1 + M)\n -end\n" + HP + " -totals Na\n -kinetic_reactants lin\n"
                      "SOLUTION 1\n pH 7\n Na 1\n Cl 1\nKINETICS 1\n lin\n  -formula NaCl 1\n  -m0 1e-3\n -steps 100 in 2 steps\nEND\n")]
# dump to string and file
P["dump"] = [("RunString", SOL1 + "EQUILIBRIUM_PHASES 1\n Calcite 0 1\nSAVE solution 2\nDUMP\n -all\nEND\n")]
# redefined species / phases / elements must be back at the database values
P["elem"] = [("RunString", HP + " -totals Xx Ca\n -saturation_indices Xxite Calcite\nSOLUTION 1\n pH 7\n Na 1\n Cl 1\n Ca 0.5\n C 1\n Xx 1\nEND\n")]
P["elem2"] = [("RunString", HP + " -totals Na Y Sfx\n -molalities NaY SfxOCa+ OH-\nUSER_PUNCH\n -headings dwNa\n 10 PUNCH DIFF_C(\"Na+\")\n" + SOL1 + "EXCHANGE 1\n Y 0.01\n -equilibrate 1\nSURFACE 1\n Sfx 0.001 100 1\n -equilibrate 1\nEND\n")]
P["eqxx"] = [("RunString", SOL1 + "EQUILIBRIUM_PHASES 1\n Xxite 0 1\nEND\n")]
# exchange + surface, default surface options
P["exsurf"] = [("RunString", HP + " -totals Na Ca\n -molalities NaX CaX2 Hfo_wOH\n" + SOL1 + "EXCHANGE 1\n X 0.01\n -equilibrate 1\nSURFACE 1\n Hfo_w 0.001 600 1\n -equilibrate 1\nEND\n")]
# concentrated solution: activity-model caches (Pitzer / SIT parameters) and density
P["brine"] = [("RunString", HP + " -totals Na Ca S(6)\n -activities Na+ Cl- Ca+2\n -saturation_indices Halite Gypsum\nUSER_PUNCH\n -headings gNa osm\n 10 PUNCH GAMMA(\"Na+\"), OSMOTIC\n"
                        "SOLUTION 1\n pH 7 charge\n Na 3000\n Cl 3000\n Ca 200\n S(6) 100\n K 100\n Mg 50\nEND\n")]
# inverse modelling with default options
P["inv"] = [("RunString", "SOLUTION 1\n pH 7\n Na 1\n Cl 1\nSOLUTION 2\n pH 7\n Na 2\n Cl 2\nINVERSE_MODELING 1\n -solutions 1 2\n -phases\n  Halite\nEND\n")]
# an input error, then a good run (error / warning channels)
P["err"] = [("RunString", "SOLUTION 1\n pH 7\n Na 1\n Qq 1\nEQUILIBRIUM_PHASES 1\n NoSuchPhase 0 1\nEND\n")]
# accumulate / run accumulated
P["acc"] = [("AccumulateLine", "SOLUTION 1"), ("AccumulateLine", " pH 7"), ("AccumulateLine", " Na 1"), ("RunAccumulated",)]
P["runfile"] = [("writefile", "probe_input.pqi", SOL1 + "END\n"), ("RunFile", "probe_input.pqi")]
# KNOBS-free log capture is part of every ALL_ON probe; one probe asks for the log explicitly (the fresh instance must agree)
P["log"] = [("RunString", "KNOBS\n -logfile true\n" + SOL1 + "EQUILIBRIUM_PHASES 1\n Calcite 0 1\nEND\n")]

# Probe chains: every chain starts on its own forked copy of the untouched post-load instance and runs its probes one after
# the other (full observation after each), so the first probe of a chain is the first call after the load.  The chain
# 'bare' runs before the check switches every sink on.
CHAINS = [
    ("bare", ["none", "bare"]),
    ("speciation", ["spec", "iter", "brine", "react", "exsurf", "elem", "elem2", "gasbin"]),
    ("definitions", ["basic", "calc", "rate", "rate2", "ratepk", "ratedb", "ratesvd", "rateher", "meang", "use", "use1", "eqxx", "err"]),
    ("sinks", ["noso", "so", "dump", "acc", "runfile", "log"]),
    ("transport", ["trans", "adv"]),
    ("stagnant", ["trans7"]),
    ("kinetics", ["kin", "inv"]),
]
PROBE_ORDER = [p for _, ps in CHAINS for p in ps]
assert sorted(PROBE_ORDER) == sorted(P)

# ops that must not run under the sanitizer build (UBSan reports a benign one-before-the-array pointer in integrate.cpp for
# -diffuse_layer surfaces; that is not part of the statement)
NOSAN = {"surfdl"}
# probes that must not run under the sanitizer build: on a new instance they take the not-found branch of RATE_PK / RATE_SVD /
# RATE_HERMANSKA / MEANG, which prints the looked-up name from an already freed buffer (ASan: heap-use-after-free in PBasic.cpp)
NOSAN_PROBES = {"ratepk", "ratedb", "ratesvd", "rateher", "meang",
                # the sanitizer build has the debug assertions on; these input-error probes trip one on any instance
                # (IPhreeqc.cpp:1672 output_msg, PPassemblageComp.cxx:336 totalize via GetComponentCount;
                # IPhreeqc.cpp punch_msg asserts in 'dump' when it follows the selected-output probes of its chain)
                "elem2", "eqxx", "err", "dump",
                # ... and so do the remaining probes of the chains 'sinks' and 'definitions' once an earlier probe of their chain
                # has defined selected output with file sinks or stopped with an input error: the sanitizer pass keeps the
                # calculation chains (bare, speciation, transport, stagnant, kinetics)
                "noso", "so", "acc", "runfile", "log", "basic", "calc", "rate", "rate2", "use", "use1"}


def probes(variant):
    return [p for p in PROBE_ORDER if not (variant == "san" and p in NOSAN_PROBES)]


def chains(variant):
    return [(c, [p for p in ps if not (variant == "san" and p in NOSAN_PROBES)]) for c, ps in CHAINS]
