"""Independent reference relations for surface complexation (property C20).

Everything here is written from the PHREEQC manual (Parkhurst & Appelo 1999, 2013: SURFACE, SURFACE_SPECIES,
SURFACE_MASTER_SPECIES; eqs. for surface mass action with the Boltzmann factor, Gouy-Chapman charge/potential
relation, Borkovec-Westall diffuse-layer composition), from Dzombak & Morel (1990) and Hiemstra & Van Riemsdijk (1996)
and from the *text* of the database (reactions and log K are parsed from the database file / the input text).
Nothing is imported from the engine.  The physical constants below are the ones the implementation uses (they are
listed as assumptions in the evidence): with CODATA values the relations would differ in the 4th digit, which is a
choice of constants and not a property of the code.
"""
import math
import re

# ---- constants shared with the implementation (global_structures.h) - listed in ev.assumptions
F_C_MOL = 96493.5            # C/mol
R_J = 8.31470                # J/K/mol
EPS0 = 8.854e-12             # C^2/(J m)
LN10 = math.log(10.0)

KEYWORDS = set("""ADVECTION CALCULATE_VALUES COPY DATABASE DELETE DUMP END EQUILIBRIUM_PHASES EQUILIBRIUM_PHASE PURE_PHASES
PURE_PHASE PHASES EXCHANGE EXCHANGE_MASTER_SPECIES EXCHANGE_SPECIES GAS_PHASE INCREMENTAL_REACTIONS INVERSE_MODELING
ISOTOPES ISOTOPE_ALPHAS ISOTOPE_RATIOS KINETICS KNOBS LLNL_AQUEOUS_MODEL_PARAMETERS MIX NAMED_EXPRESSIONS PITZER PRINT
RATES REACTION REACTION_PRESSURE REACTION_TEMPERATURE RUN_CELLS SAVE SELECTED_OUTPUT SIT SOLID_SOLUTIONS SOLUTION
SOLUTION_MASTER_SPECIES SOLUTION_SPECIES SOLUTION_SPREAD SURFACE SURFACE_MASTER_SPECIES SURFACE_SPECIES TITLE TRANSPORT
USE USER_GRAPH USER_PRINT USER_PUNCH MEAN_GAMMAS GAS_BINARY_PARAMETERS""".split())

_CHG = re.compile(r"([+-])(\d*\.?\d*)$")


def charge(name):
    """Charge of a species as written in its formula: trailing +/- with optional magnitude (Ca+2, Cl-, X-0.5)."""
    if name == "e-":
        return -1.0
    m = _CHG.search(name)
    if not m:
        return 0.0
    mag = float(m.group(2)) if m.group(2) not in ("", ".") else 1.0
    return mag if m.group(1) == "+" else -mag


def logical_lines(text):
    """Database syntax: '#' comment, ';' separates logical lines, '\\' continues a line."""
    out = []
    pend = ""
    for raw in text.splitlines():
        line = raw.split("#", 1)[0].rstrip()
        if line.endswith("\\"):
            pend += line[:-1] + " "
            continue
        line = pend + line
        pend = ""
        for part in line.split(";"):
            part = part.strip()
            if part:
                out.append(part)
    return out


def parse_side(tokens):
    """[(coef, species)] from whitespace tokens of one side of an equation; '+' tokens separate terms."""
    terms = []
    cur = []
    for t in tokens + ["+"]:
        if t == "+":
            if not cur:
                continue
            if len(cur) == 2:
                terms.append((float(cur[0]), cur[1]))
            elif len(cur) == 1:
                m = re.match(r"^(\d+\.?\d*)([A-Za-z(\[].*)$", cur[0])
                if m:
                    terms.append((float(m.group(1)), m.group(2)))
                else:
                    terms.append((1.0, cur[0]))
            else:
                raise ValueError("cannot parse term %r" % (cur,))
            cur = []
        else:
            cur.append(t)
    return terms


class SurfSpecies:
    __slots__ = ("name", "lhs", "rhs", "logk", "delta_h", "analytic", "cd", "z", "identity")

    def __repr__(self):
        return "<%s logk=%s cd=%s>" % (self.name, self.logk, self.cd)


class SurfDB:
    """SURFACE_MASTER_SPECIES and SURFACE_SPECIES of a database / input text."""

    def __init__(self):
        self.masters = {}      # site type name (e.g. Hfo_w) -> master species name (Hfo_wOH)
        self.species = {}      # name -> SurfSpecies (later definitions replace earlier ones, as in PHREEQC)
        self.sol_masters = {}  # SOLUTION_MASTER_SPECIES: element or element(valence) -> master species as written

    def read(self, text):
        block = None
        cur = None
        for line in logical_lines(text):
            toks = line.split()
            kw = toks[0].upper()
            if kw in KEYWORDS:
                block = kw
                cur = None
                continue
            if block == "SURFACE_MASTER_SPECIES":
                if len(toks) >= 2:
                    self.masters[toks[0]] = toks[1]
            elif block == "SOLUTION_MASTER_SPECIES":
                if len(toks) >= 2:
                    self.sol_masters[toks[0]] = toks[1]
            elif block == "SURFACE_SPECIES":
                if "=" in toks:
                    i = toks.index("=")
                    sp = SurfSpecies()
                    sp.lhs = parse_side(toks[:i])
                    sp.rhs = parse_side(toks[i + 1:])
                    sp.logk = 0.0
                    sp.delta_h = None
                    sp.analytic = None
                    sp.cd = None
                    sp.identity = (len(sp.lhs) == 1 and len(sp.rhs) == 1 and sp.lhs[0][1] == sp.rhs[0][1])
                    # the defined species: the surface species on the right-hand side
                    sp.name = None
                    for c, n in sp.rhs:
                        if self.is_surface(n):
                            sp.name = n
                            break
                    if sp.name is None:
                        cur = None
                        continue
                    sp.z = charge(sp.name)
                    self.species[sp.name] = sp
                    cur = sp
                elif cur is not None:
                    opt = toks[0].lstrip("-").lower()
                    if opt in ("log_k", "logk"):
                        cur.logk = float(toks[1])
                    elif opt in ("delta_h", "deltah"):
                        cur.delta_h = (float(toks[1]), toks[2].lower() if len(toks) > 2 else "kj")
                    elif opt in ("analytic", "analytical_expression", "a_e", "ae"):
                        cur.analytic = [float(x) for x in toks[1:]]
                    elif opt in ("cd_music", "music"):
                        v = [float(x) for x in toks[1:6]]
                        v += [0.0] * (5 - len(v))
                        cur.cd = v
        return self

    def site_of(self, name):
        """Site type (longest master-element prefix) a species name starts with, or None."""
        best = None
        for st in self.masters:
            if name.startswith(st) and (best is None or len(st) > len(best)):
                best = st
        return best

    def is_surface(self, name):
        return self.site_of(name) is not None

    def species_of_site(self, st):
        return [s for s in self.species.values() if self.site_of(s.name) == st]

    def site_coef(self, sp, st):
        """Number of sites of type st occupied by species sp = coefficient of st-species among the reactants
        (the defined species is written with coefficient 1)."""
        n = 0.0
        for c, r in sp.lhs:
            if self.site_of(r) == st:
                n += c * self.site_count(r, st)
        return n

    def site_count(self, name, st):
        if name == self.masters.get(st):
            return 1.0
        sp = self.species.get(name)
        if sp is None or sp.identity:
            return 1.0
        return self.site_coef(sp, st)

    def secondary_redox_masters(self):
        """{species: element} of the master species of a valence state `X(n)` that is not the master species of the
        element `X` itself (database text only): selenite where the element's master is selenate, arsenite, Co+2 ...
        Used for coverage counting / vacuity guards only, never by an oracle relation."""
        out = {}
        for el, sp in self.sol_masters.items():
            if "(" in el:
                base = el.split("(", 1)[0]
                if base in self.sol_masters and self.sol_masters[base] != sp:
                    out[sp] = base
        return out

    def surface_name(self, st):
        """Name of the surface (charge entity): the part of the site-type name before the underscore."""
        return st.split("_")[0]


# ---------------------------------------------------------------------------------------------------------
def cd_dz(sp):
    """Charge changes on planes 0,1,2 of a CD-MUSIC species: -cd_music dz0 dz1 dz2 f z_central:
    the central ion's charge is split f : (1-f) between planes 0 and 1."""
    v = sp.cd or [0.0] * 5
    return (v[0] + v[3] * v[4], v[1] + (1.0 - v[3]) * v[4], v[2])


def logk_T(sp, tk):
    """log K at temperature tk: constant, or van't Hoff with delta_h; None if the species has an analytic expression
    (not needed on the C20 lattice)."""
    if sp.analytic:
        a = sp.analytic + [0.0] * (6 - len(sp.analytic))
        return a[0] + a[1] * tk + a[2] / tk + a[3] * math.log10(tk) + a[4] / tk ** 2 + a[5] * tk ** 2
    if sp.delta_h and sp.delta_h[0] != 0.0:
        dh = sp.delta_h[0]
        u = sp.delta_h[1]
        if u.startswith("kc"):
            dh *= 4.184
        elif u.startswith("j"):
            dh /= 1000.0
        elif u.startswith("c"):
            dh *= 4.184 / 1000.0
        return sp.logk - dh * 1000.0 / (LN10 * R_J) * (1.0 / tk - 1.0 / 298.15)
    return sp.logk


def gouy_chapman_sigma(psi, mu, eps_r, tk):
    """Dzombak & Morel eq. 2.4 / PHREEQC manual: sigma = (8000 eps eps0 R T I)^(1/2) sinh(F psi / 2RT)  [C/m2]."""
    return math.sqrt(8.0 * eps_r * EPS0 * R_J * tk * 1000.0 * mu) * math.sinh(F_C_MOL * psi / (2.0 * R_J * tk))


def grahame_sigma(psi, aq, eps_r, tk):
    """General (mixed electrolyte) Gouy-Chapman / Grahame equation for the charge of the diffuse layer that faces a
    plane at potential psi; `aq` = [(z, molality)] of all aqueous species.  Charge imbalance of the listed species is
    carried by a fictitious monovalent counter ion (PHREEQC manual, CD-MUSIC).  Returns the charge of the *surface
    side* (= - sigma_d)."""
    y = F_C_MOL * psi / (R_J * tk)
    s = 0.0
    zsum = 0.0
    for z, m in aq:
        if z != 0.0 and m > 0.0:
            s += m * (math.exp(-z * y) - 1.0)
            zsum += z * m
    if zsum > 0:
        s += abs(zsum) * (math.exp(y) - 1.0)       # monovalent anion
    elif zsum < 0:
        s += abs(zsum) * (math.exp(-y) - 1.0)      # monovalent cation
    if s < 0:
        return None
    mag = math.sqrt(2.0 * eps_r * EPS0 * R_J * tk * 1000.0 * s)
    return mag if psi >= 0 else -mag


def rel(a, b):
    d = max(abs(a), abs(b))
    return 0.0 if d == 0.0 else abs(a - b) / d
