"""Reference relations for property C11 (transport only moves dissolved mass).

Nothing here is derived from the engine source.  The relations are the conservation / translation / maximum
principles of the advection-dispersion equation as discretised in the PHREEQC manual (cells of equal water content,
advection = moving whole cell solutions, dispersion/diffusion = mixing with neighbours with fractions in [0,1]):

* inventory(rows, ...)        column inventory (moles of every element, charge) per shift
* check_inventory             closed column: inventory is the same at every shift (relative 1e-9)
* classify                    names the mechanism of an inventory mismatch for the fingerprint (never part of the verdict)
* check_shift                 pure advection: cell i at shift s == upstream neighbour at shift s-1
* check_convex                single diffusion coefficient: each molality within the hull of initial + boundary
* check_balance               pure advection with solids: inventory(s) = inventory(s-1) + inflow - outflow

All functions take plain dicts (one per selected-output row) and return lists of (fingerprint, explanation).
"""

TOL = 1e-9           # the only tolerance in the property statement
ABS_FLOOR = 1e-18    # moles; an element that is absent (inventory exactly 0) must stay absent


def inventory(rows, cells, fields):
    """Sum of `fields` over the rows of `cells` -> dict field -> moles."""
    inv = dict((f, 0.0) for f in fields)
    for c in cells:
        r = rows[c]
        for f in fields:
            inv[f] += r[f]
    return inv


def solute_scale(inv, elements):
    return sum(abs(inv[e]) for e in elements if e not in ("H", "O"))


def like_named(e, elements):
    """Elements of the lattice whose symbol starts with the same letter as e (e included)."""
    return [x for x in elements if x[0] == e[0]]


def classify(e, elements, base, last, announced):
    """Names the *mechanism* of an element-inventory mismatch from observables only (used in the fingerprint, never in
    the verdict).  announced: {element: moles the engine itself says (WARNING) it added to the system in this run}.
      engine-announced-addition    the change of the inventory over the whole run equals the amount the engine
                                   announces to have added for this element (announced with 5 digits: relative 2e-4)
      like-named-element-exchange  the element alone is not conserved, but the sum over the elements whose symbol starts
                                   with the same letter is (corrected for announced additions) while at least two of them
                                   are off: moles were moved from one element to another one
      unannounced                  neither: mass appeared or vanished without the engine saying so
    """
    delta = last[e] - base[e]
    a = announced.get(e, 0.0)
    if a > 0 and abs(delta - a) <= 2e-4 * a + TOL * abs(base[e]):
        return "engine-announced-addition"
    grp = like_named(e, [x for x in elements if x not in ("H", "O")])
    if len(grp) > 1:
        gd = sum(last[x] - base[x] - announced.get(x, 0.0) for x in grp)
        gs = sum(abs(base[x]) for x in grp)
        off = [x for x in grp if abs(last[x] - base[x] - announced.get(x, 0.0)) > 2e-4 * announced.get(x, 0.0) + TOL * abs(base[x]) + ABS_FLOOR]
        if len(off) >= 2 and abs(gd) <= 2e-4 * sum(announced.get(x, 0.0) for x in grp) + TOL * gs + ABS_FLOOR:
            return "like-named-element-exchange"
    return "unannounced"


def check_inventory(by_step, cells, elements, tag, charge="cb", announced=None):
    """by_step: {step: {cell: row}}; compares every step > 0 with step 0 (the only tolerance: relative 1e-9).
    The fingerprint of an element mismatch carries the mechanism found by classify()."""
    problems = []
    announced = announced or {}
    steps = sorted(by_step)
    fields = list(elements) + [charge]
    invs = dict((s, inventory(by_step[s], cells, fields)) for s in steps)
    base = invs[steps[0]]
    last = invs[steps[-1]]
    scale = solute_scale(base, elements)
    worst = 0.0
    seen = set()
    for si, s in enumerate(steps):
        if si == 0:
            continue
        inv = invs[s]
        for e in elements:
            d = abs(inv[e] - base[e])
            if base[e] != 0:
                worst = max(worst, d / abs(base[e]))
            # an element absent from the column (inventory exactly 0) has no relative scale of its own: use the dissolved total
            if d > (TOL * abs(base[e]) if base[e] != 0 else TOL * scale) + ABS_FLOOR:
                if e in ("H", "O"):
                    kind = "water-element"
                else:
                    kind = "element " + classify(e, elements, base, last, announced)
                if kind in seen:
                    continue
                seen.add(kind)
                problems.append(("inventory %s %s" % (kind, tag),
                                 "column inventory of %s changes from %.17g mol (shift %d) to %.17g mol (shift %d): relative %.3g > 1e-9%s" % (
                                     e, base[e], steps[0], inv[e], s, d / abs(base[e]) if base[e] else float("inf"),
                                     "; the engine announces to have added %.5g mol of it during the run" % announced[e] if announced.get(e) else "")))
        d = abs(inv[charge] - base[charge])
        if d > TOL * max(abs(base[charge]), scale) + ABS_FLOOR and "charge" not in seen:
            seen.add("charge")
            problems.append(("inventory charge %s" % tag,
                             "column charge changes from %.17g eq (shift %d) to %.17g eq (shift %d); difference %.3g eq > 1e-9 x max(|charge|, dissolved moles %.3g)" % (
                                 base[charge], steps[0], inv[charge], s, d, scale)))
    return problems, worst


def _close(a, b, scale=0.0):
    return abs(a - b) <= TOL * max(abs(a), abs(b), scale) + ABS_FLOOR


def check_shift(by_step, boundary_row, n, direction, fields, tag, scale_fields):
    """direction +1: cell i (s) == cell i-1 (s-1), cell 1 == inflow solution; -1 mirrored."""
    problems = []
    steps = sorted(by_step)
    worst = 0.0
    for a, b in zip(steps[:-1], steps[1:]):
        for i in range(1, n + 1):
            up = i - direction
            src = boundary_row if (up < 1 or up > n) else by_step[a][up]
            dst = by_step[b][i]
            sc = sum(abs(src[f]) for f in scale_fields)
            for f in fields:
                ok = _close(src[f], dst[f], sc if f == "cb" else 0.0)
                if src[f] != 0 and f != "cb":
                    worst = max(worst, abs(src[f] - dst[f]) / abs(src[f]))
                if not ok:
                    what = "charge" if f == "cb" else ("water" if f in ("w", "H", "O") else ("temperature" if f == "tc" else "element"))
                    where = "entry-cell" if (up < 1 or up > n) else "inner-cell"
                    problems.append(("shift %s %s %s" % (what, where, tag),
                                     "pure advection: cell %d after shift %d has %s = %.17g but its upstream neighbour (%s) had %.17g before the shift" % (
                                         i, b, f, dst[f], "inflow solution" if (up < 1 or up > n) else "cell %d at shift %d" % (up, a), src[f])))
                    return problems, worst
    return problems, worst


def check_convex(by_step, hull_rows, cells, elements, tag):
    """molality (moles / kg water) of every element in every cell at every step > first within [min, max] of hull_rows."""
    problems = []
    lo, hi = {}, {}
    for e in elements:
        v = [r[e] / r["w"] for r in hull_rows]
        lo[e], hi[e] = min(v), max(v)
    steps = sorted(by_step)
    worst = 0.0
    for s in steps[1:]:
        for c in cells:
            r = by_step[s][c]
            for e in elements:
                m = r[e] / r["w"]
                slack = TOL * max(abs(hi[e]), abs(lo[e])) + ABS_FLOOR
                ex = max(lo[e] - m, m - hi[e])
                if hi[e] > 0:
                    worst = max(worst, ex / hi[e])
                if ex > slack:
                    side = "above-max" if m > hi[e] else "below-min"
                    problems.append(("convex %s %s" % (side, tag),
                                     "single diffusion coefficient: molality of %s in cell %d at shift %d is %.17g, outside [%.17g, %.17g] spanned by the initial column and the boundary solutions (excess %.3g relative)" % (
                                         e, c, s, m, lo[e], hi[e], ex / max(abs(hi[e]), 1e-300))))
                    return problems, worst
    return problems, worst


def check_balance(by_step, inflow_row, n, direction, elements, aq, tot, tag):
    """pure advection with solids; aq(el) / tot(el) name the columns with the dissolved / whole-cell moles."""
    problems = []
    steps = sorted(by_step)
    worst = 0.0
    last = n if direction > 0 else 1
    for a, b in zip(steps[:-1], steps[1:]):
        for e in elements:
            inv_a = sum(by_step[a][c][tot(e)] for c in range(1, n + 1))
            inv_b = sum(by_step[b][c][tot(e)] for c in range(1, n + 1))
            want = inv_a + inflow_row[aq(e)] - by_step[a][last][aq(e)]
            d = abs(inv_b - want)
            if want != 0:
                worst = max(worst, d / abs(want))
            if d > TOL * max(abs(want), abs(inv_a)) + ABS_FLOOR:
                kind = "water-element" if e in ("H", "O") else "element"
                problems.append(("balance-with-solids %s %s" % (kind, tag),
                                 "column inventory incl. solids of %s after shift %d is %.17g mol; inventory before (%.17g) + inflow (%.17g) - outflow (%.17g) = %.17g (relative %.3g > 1e-9)" % (
                                     e, b, inv_b, inv_a, inflow_row[aq(e)], by_step[a][last][aq(e)], want, d / max(abs(want), 1e-300))))
                return problems, worst
    return problems, worst
