"""Base inputs of C15 as structured models (see c15_model.py), with their observables.

Every base is physically well conditioned: batch reactions carry dissolved oxygen (or a fixed pe in pure speciation) so
that pe is determined by amounts that are far above rounding level.
Observables: (heading, BASIC expression, kind) with kind 'i' = intensive (must be equal), 'x' = extensive (must scale
by the water/amount factor).
"""
m = 1e-3


def S(n, pH, els, **kw):
    b = {"k": "SOLUTION", "n": n, "pH": pH, "els": [dict(el=e[0], c=e[1], **({"extra": e[2]} if len(e) > 2 else {})) for e in els]}
    b.update(kw)
    return b


def common_obs(els, species=(), phases=(), extra=()):
    o = [("pH", '-LA("H+")', "i"), ("pe", '-LA("e-")', "i"), ("mu", "MU", "i"), ("alk", "ALK", "i"),
         ("aH2O", 'ACT("H2O")', "i"), ("rho", "RHO", "i"), ("sc", "SC", "i"), ("tc", "TC", "i"),
         ("water", 'TOT("water")', "x"), ("vol", "SOLN_VOL", "x"), ("cb", "CHARGE_BALANCE", "xs"),
         ("totH", 'TOTMOLE("H")', "x"), ("totO", 'TOTMOLE("O")', "x")]
    # 'r' marks quantities that the engine derives from the electron balance (dissolved O2 in a reacted solution is
    # the small difference of the H and O balances): see REDOX note in mc/props/c15.py
    for e in els:
        r = "r" if e == "O(0)" else ""
        o.append(("tot_" + e, 'TOT("%s")' % e, "i" + r))
        o.append(("totmole_" + e, 'TOTMOLE("%s")' % e, "x" + r))
    for s in species:
        o.append(("mol_" + s, 'MOL("%s")' % s, "i" + ("r" if s == "O2" else "")))
    for p in phases:
        r = "r" if p == "O2(g)" else ""
        o.append(("sr_" + p, 'SR("%s")' % p, "i" + r))
        o.append(("si_" + p, 'SI("%s")' % p, "i" + r))
    o += list(extra)
    return o


RATES = """RATES
 Halite_k
 -start
 10 rate = PARM(1) * M
 20 SAVE rate * TIME
 -end
 Calcite_k
 -start
 10 IF (M <= 0) THEN GOTO 50
 20 rate = PARM(1) * M0 * (M / M0)^0.67 * (1 - SR("Calcite"))
 30 SAVE rate * TIME
 40 END
 50 SAVE 0
 -end
"""


def bases():
    B = {}
    # ---- 1 speciation, major ions
    B["spec"] = {
        "sims": [[S(1, 7.2, [("Na", 2 * m), ("K", .3 * m), ("Ca", 1.5 * m), ("Mg", .8 * m), ("Cl", 2.5 * m), ("S(6)", .6 * m),
                             ("C(4)", 2.2 * m), ("Si", .2 * m)], temp=25.0, pe=4.0)]],
        "obs": common_obs(["Na", "K", "Ca", "Mg", "Cl", "S(6)", "C(4)", "Si"], ["CaSO4", "CaHCO3+", "HCO3-", "CO3-2", "MgSO4", "H4SiO4"],
                          ["Calcite", "Gypsum", "CO2(g)", "Quartz", "Dolomite"]),
        "kinds": ["speciation"],
    }
    # ---- 2 speciation with redox states, alkalinity, charge balance, phase-fixed element
    B["specx"] = {
        "sims": [[S(1, 6.8, [("Fe(2)", .02 * m), ("Fe(3)", .001 * m), ("N(5)", .3 * m), ("N(-3)", .05 * m), ("Alkalinity", 1.8 * m),
                             ("Cl", 1.0 * m, "charge"), ("Ca", 1.2 * m), ("Na", .7 * m), ("Si", .1 * m, "Quartz 0.0")], temp=15.0, pe=2.0)]],
        "obs": common_obs(["Fe(2)", "Fe(3)", "N(5)", "N(-3)", "C(4)", "Cl", "Ca", "Na", "Si"], ["Fe+2", "FeOH+2", "NH4+", "NO3-", "HCO3-"],
                          ["Calcite", "Siderite", "Fe(OH)3(a)", "CO2(g)", "Chalcedony"]),
        "kinds": ["speciation"],
    }
    # ---- 3 batch reaction: equilibrium phases + reaction steps
    sol3 = S(1, 7.0, [("Na", 1 * m), ("Cl", 1.6 * m), ("Ca", .5 * m), ("C(4)", .4 * m), ("O(0)", .3 * m), ("S(6)", .2 * m), ("Mg", .1 * m)],
             temp=20.0, pe=4.0, pe_extra=None)
    B["batch"] = {
        "sims": [[sol3,
                  {"k": "EQUILIBRIUM_PHASES", "n": 1, "items": [("Calcite", 0.0, .05), ("Gypsum", 0.0, .02), ("CO2(g)", -2.0, 1.0), ("Dolomite", 0.0, 0.0)]},
                  {"k": "REACTION", "n": 1, "items": [("NaCl", 1.0), ("HCl", .2), ("MgSO4", .1)], "total": 2 * m, "steps": 2}]],
        "obs": common_obs(["Na", "Cl", "Ca", "C(4)", "O(0)", "S(6)", "Mg"], ["CaSO4", "HCO3-", "O2"], ["Aragonite", "Anhydrite", "O2(g)"],
                          [("eq_Calcite", 'EQUI("Calcite")', "x"), ("eq_Gypsum", 'EQUI("Gypsum")', "x"), ("eq_CO2", 'EQUI("CO2(g)")', "x"),
                           ("eq_Dolomite", 'EQUI("Dolomite")', "x"), ("d_Calcite", 'EQUI_DELTA("Calcite")', "x"), ("rxn", "RXN", "x")]),
        "kinds": ["batch reaction"],
    }
    # ---- 4 exchange: equilibrate with solution 1, then react with solution 2
    sol4a = S(1, 7.5, [("Na", 5 * m), ("K", .5 * m), ("Ca", 2 * m), ("Mg", 1 * m), ("Cl", 11.5 * m), ("O(0)", .25 * m)], temp=25.0)
    sol4b = S(2, 6.5, [("Na", 1 * m), ("K", 2 * m), ("Ca", .2 * m), ("Cl", 3.4 * m), ("O(0)", .25 * m)], temp=25.0)
    B["exch"] = {
        "sims": [[sol4a, sol4b, {"k": "EXCHANGE", "n": 1, "items": [("X", .05)], "equil": 1}, {"k": "USE", "what": "solution", "n": 1}],
                 [{"k": "USE", "what": "solution", "n": 2}, {"k": "USE", "what": "exchange", "n": 1}]],
        "obs": common_obs(["Na", "K", "Ca", "Mg", "Cl", "X"], ["NaX", "KX", "CaX2", "MgX2"], ["Halite"]),
        "kinds": ["exchange"],
    }
    # ---- 5 exchange with explicit composition (constituent permutations)
    sol5 = S(1, 7.0, [("Na", 1 * m), ("Ca", 1 * m), ("Cl", 3 * m), ("O(0)", .25 * m)], temp=25.0)
    B["exch2"] = {
        "sims": [[sol5, {"k": "EXCHANGE", "n": 1, "items": [("NaX", .02), ("CaX2", .01), ("KX", .005), ("MgX2", .004)], "equil": None}]],
        "obs": common_obs(["Na", "K", "Ca", "Mg", "Cl", "X"], ["NaX", "KX", "CaX2", "MgX2"], ["Halite"]),
        "kinds": ["exchange"],
    }
    # ---- 6 surface complexation (Dzombak-Morel, electrostatic): equilibrate with 1, react with 2
    sol6a = S(1, 7.0, [("Na", 10 * m), ("Cl", 10 * m, "charge"), ("Ca", .5 * m), ("Zn", .01 * m), ("O(0)", .25 * m)], temp=25.0)
    sol6b = S(2, 6.0, [("Na", 10 * m), ("Cl", 10 * m, "charge"), ("Zn", .05 * m), ("S(6)", .3 * m), ("O(0)", .25 * m)], temp=25.0)
    B["surf"] = {
        "sims": [[sol6a, sol6b, {"k": "SURFACE", "n": 1, "items": [("Hfo_w", 2e-4, 600.0, .09), ("Hfo_s", 5e-6, None, None)], "equil": 1},
                  {"k": "USE", "what": "solution", "n": 1}],
                 [{"k": "USE", "what": "solution", "n": 2}, {"k": "USE", "what": "surface", "n": 1}]],
        "obs": common_obs(["Na", "Cl", "Ca", "Zn", "S(6)", "Hfo_w", "Hfo_s"], ["Hfo_wOZn+", "Hfo_sOZn+", "Hfo_wOH", "Hfo_wOH2+", "Hfo_wSO4-", "Zn+2"], [],
                          [("psi", 'EDL("psi","Hfo")', "i"), ("sigma", 'EDL("sigma","Hfo")', "i"), ("charge", 'EDL("charge","Hfo")', "x")]),
        "kinds": ["surface"],
    }
    # ---- 7 gas phase, fixed pressure
    sol7 = S(1, 7.0, [("Na", 1 * m), ("Cl", 1 * m), ("Ca", 1 * m), ("C(4)", 2 * m), ("O(0)", .25 * m)], temp=25.0)
    gobs = [("g_CO2", 'GAS("CO2(g)")', "x"), ("g_O2", 'GAS("O2(g)")', "xr"), ("g_N2", 'GAS("Ntg(g)")', "x"), ("p_CO2", 'PR_P("CO2(g)")', "i"),
            ("p_O2", 'PR_P("O2(g)")', "ir"), ("p_N2", 'PR_P("Ntg(g)")', "i"), ("gas_p", "GAS_P", "i"), ("gas_vm", "GAS_VM", "i")]
    B["gasp"] = {
        "sims": [[sol7, {"k": "GAS_PHASE", "n": 1, "kind": "fixed_pressure", "pressure": 1.2, "volume": .5, "temp": 25.0,
                         "items": [("CO2(g)", .02), ("O2(g)", .2), ("Ntg(g)", .98)]}]],
        "obs": common_obs(["Na", "Cl", "Ca", "C(4)", "O(0)", "Ntg"], ["CO2", "O2", "Ntg"], ["Calcite"], gobs),
        "kinds": ["gas"],
    }
    # ---- 8 gas phase, fixed volume
    B["gasv"] = {
        "sims": [[sol7, {"k": "GAS_PHASE", "n": 1, "kind": "fixed_volume", "pressure": 1.0, "volume": .8, "temp": 25.0,
                         "items": [("CO2(g)", .05), ("O2(g)", .15), ("Ntg(g)", .7)]}]],
        "obs": common_obs(["Na", "Cl", "Ca", "C(4)", "O(0)", "Ntg"], ["CO2", "O2", "Ntg"], ["Calcite"], gobs),
        "kinds": ["gas"],
    }
    # ---- 9 kinetics
    sol9 = S(1, 6.5, [("Na", 1 * m), ("Cl", 1 * m), ("Ca", .2 * m), ("C(4)", .5 * m), ("O(0)", .25 * m)], temp=25.0)
    B["kin"] = {
        "sims": [[{"k": "RATES", "text": RATES}, sol9,
                  {"k": "KINETICS", "n": 1, "steps": "3600 in 3 steps",
                   "items": [{"name": "Halite_k", "formula": "NaCl 1", "m": 2 * m, "m0": 2 * m, "parms": [2e-4], "tol": 1e-13},
                             {"name": "Calcite_k", "formula": "CaCO3 1", "m": 5 * m, "m0": 5 * m, "parms": [1e-5], "tol": 1e-13}]}]],
        "obs": common_obs(["Na", "Cl", "Ca", "C(4)", "O(0)"], ["HCO3-", "CaHCO3+"], ["Calcite", "CO2(g)"],
                          [("k_Halite", 'KIN("Halite_k")', "x"), ("k_Calcite", 'KIN("Calcite_k")', "x"), ("kd_Calcite", 'KIN_DELTA("Calcite_k")', "x")]),
        "kinds": ["kinetics"],
    }
    # ---- 10 mixing of three solutions
    sa = S(1, 7.8, [("Na", 3 * m), ("Cl", 3 * m), ("Ca", 1 * m), ("C(4)", 1.5 * m), ("O(0)", .25 * m)], temp=10.0)
    sb = S(2, 5.5, [("K", 2 * m), ("S(6)", 1.2 * m), ("Mg", .5 * m), ("Cl", 1 * m), ("O(0)", .1 * m)], temp=25.0)
    sc = S(3, 9.0, [("Na", 6 * m), ("C(4)", 2.5 * m), ("Cl", 1 * m), ("Si", .3 * m), ("O(0)", .3 * m)], temp=40.0)
    B["mix"] = {
        "sims": [[sa, sb, sc], [{"k": "MIX", "n": 1, "items": [(1, .5), (2, .3), (3, .2)]}]],
        "obs": common_obs(["Na", "K", "Cl", "Ca", "Mg", "C(4)", "S(6)", "Si", "O(0)"], ["CaSO4", "HCO3-", "MgCO3", "H3SiO4-"], ["Calcite", "Gypsum", "CO2(g)"]),
        "kinds": ["speciation", "mix"],
    }
    import copy
    B["mixiso"] = copy.deepcopy(B["mix"])
    for b in B["mixiso"]["sims"][0]:
        b["temp"] = 25.0
    # ---- 11 everything at once
    sol11 = S(1, 7.0, [("Na", 4 * m), ("Cl", 5.2 * m), ("Ca", 1 * m), ("C(4)", 1 * m), ("Zn", .02 * m), ("K", .2 * m), ("O(0)", .25 * m)], temp=25.0)
    B["all"] = {
        "sims": [[sol11,
                  {"k": "EQUILIBRIUM_PHASES", "n": 1, "items": [("Calcite", 0.0, .01), ("Gypsum", 0.0, 0.0)]},
                  {"k": "EXCHANGE", "n": 1, "items": [("X", .01)], "equil": 1},
                  {"k": "SURFACE", "n": 1, "items": [("Hfo_w", 1e-4, 600.0, .05), ("Hfo_s", 2.5e-6, None, None)], "equil": 1},
                  {"k": "GAS_PHASE", "n": 1, "kind": "fixed_volume", "pressure": 1.0, "volume": .3, "temp": 25.0,
                   "items": [("CO2(g)", .01), ("O2(g)", .2), ("Ntg(g)", .79)]},
                  {"k": "REACTION", "n": 1, "items": [("CaSO4", 1.0), ("HCl", .5)], "amounts": [.5 * m, 1.5 * m]}]],
        "obs": common_obs(["Na", "Cl", "Ca", "C(4)", "Zn", "K", "S(6)", "O(0)", "X", "Hfo_w"], ["CaX2", "NaX", "ZnX2", "Hfo_wOZn+", "Hfo_sOZn+", "HCO3-"],
                          ["Aragonite", "Anhydrite"],
                          [("eq_Calcite", 'EQUI("Calcite")', "x"), ("eq_Gypsum", 'EQUI("Gypsum")', "x"), ("g_CO2", 'GAS("CO2(g)")', "x"),
                           ("gas_p", "GAS_P", "i"), ("psi", 'EDL("psi","Hfo")', "i"), ("charge", 'EDL("charge","Hfo")', "x")]),
        "kinds": ["batch reaction", "exchange", "surface", "gas"],
    }
    return B


def trailer(obs):
    heads = " ".join(h for h, _, _ in obs)
    lines = ["KNOBS", " -convergence_tolerance 1e-12", "SELECTED_OUTPUT 1", " -reset false", " -simulation true", " -state true", " -solution true", " -step true",
             " -high_precision true", "USER_PUNCH 1", " -headings %s" % heads]
    n = 10
    for h, e, _ in obs:
        lines.append(" %d PUNCH %s" % (n, e))
        n += 10
    return "\n".join(lines) + "\n"
