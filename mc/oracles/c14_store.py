"""Reference model for C14: the numbered reactants of an instance as a map (kind, number) -> content.

Nothing in here calls the library.  The model is deliberately boring: a dict {(kind, n): body text of the RAW block}.
The semantics of the keyword data blocks are taken from the PHREEQC documentation shipped in the repository
(phreeqc3-doc/RELEASE.TXT: "COPY keyword index index_start[-index_end]", "COPY cell n range", "DELETE -cell list",
"the final events of a simulation occur in the order of RUN_CELLS, _MIX, COPY, DUMP, and DELETE", the *_MIX data blocks
"mostly involve a summation of moles of the various reactants") and the version-3 manual's description of
SAVE / USE / RUN_CELLS / *_MODIFY / DELETE (-all, -cells, `-keyword` without a list = every entity of that kind):

  definition  KEYWORD n[-m]            entries n..m of that kind are (re)defined, all with the same content;
                                       no number = 1
  SAVE kind n[-m]                      the result of the simulation's reaction calculation is stored in n..m
  COPY kind s t[-u]                    entries t..u become content-identical to s (s itself is not touched);
                                       a missing source copies nothing
  COPY cell s t[-u]                    the same for every kind that has an entry s
  DELETE -kind list / -cells list / -all     removes exactly the named entries
  KIND_MODIFY n  -identifier value     only the named quantity of entry n changes; a missing entry is ignored
  KIND_MIX t[-u] / s f ...             entries t..u = sum over s of f x (extensive quantities of s)
  RUN_CELLS -cells list                for each listed n that has a solution or a mix: react MIX n (or else SOLUTION n)
                                       with every reactant numbered n and store the results under n

Expectations are returned as data (dicts), the comparison with the observed dump is done by `judge`.
"""
import re

# ------------------------------------------------------------------------------------------------ kinds
# name, definition keyword, RAW keyword, DELETE/DUMP identifier, SAVE-able, has *_MIX
KINDS = [
    ("solution", "SOLUTION", "SOLUTION_RAW", "solution", True, "SOLUTION_MIX"),
    ("equilibrium_phases", "EQUILIBRIUM_PHASES", "EQUILIBRIUM_PHASES_RAW", "equilibrium_phases", True, "EQUILIBRIUM_PHASES_MIX"),
    ("exchange", "EXCHANGE", "EXCHANGE_RAW", "exchange", True, "EXCHANGE_MIX"),
    ("surface", "SURFACE", "SURFACE_RAW", "surface", True, "SURFACE_MIX"),
    ("gas_phase", "GAS_PHASE", "GAS_PHASE_RAW", "gas_phase", True, "GAS_PHASE_MIX"),
    ("solid_solutions", "SOLID_SOLUTIONS", "SOLID_SOLUTIONS_RAW", "solid_solutions", True, "SOLID_SOLUTIONS_MIX"),
    ("kinetics", "KINETICS", "KINETICS_RAW", "kinetics", False, "KINETICS_MIX"),
    ("mix", "MIX", "MIX_RAW", "mix", False, None),
    ("reaction", "REACTION", "REACTION_RAW", "reaction", False, None),
    ("reaction_temperature", "REACTION_TEMPERATURE", "REACTION_TEMPERATURE_RAW", "reaction_temperature", False, None),
    ("reaction_pressure", "REACTION_PRESSURE", "REACTION_PRESSURE_RAW", "reaction_pressure", False, None),
]
KIND_NAMES = [k[0] for k in KINDS]
KEYWORD = {k[0]: k[1] for k in KINDS}
RAWKEY = {k[0]: k[2] for k in KINDS}
KIND_OF_RAW = {k[2]: k[0] for k in KINDS}
DELOPT = {k[0]: k[3] for k in KINDS}
SAVEABLE = [k[0] for k in KINDS if k[4]]
MIXKEY = {k[0]: k[5] for k in KINDS if k[5]}
REACTANTS = ["equilibrium_phases", "exchange", "surface", "gas_phase", "solid_solutions", "kinetics", "reaction",
             "reaction_temperature", "reaction_pressure"]

# two contents per kind.  Exchangers and surfaces are given explicitly (no -equilibrate) so that the content of a
# definition depends on the definition text only.
DEFS = {
    "solution": {"A": " pH 7\n Na 1\n Cl 1\n Ca 1\n C(4) 2\n",
                 "B": " pH 8\n K 2\n Cl 2\n Mg 0.5\n S(6) 0.5\n"},
    "equilibrium_phases": {"A": " Calcite 0 0.01\n",
                           "B": " Calcite 0.5 0.02\n Gypsum 0 0.003\n"},
    "exchange": {"A": " NaX 0.01\n",
                 "B": " NaX 0.002\n KX 0.004\n"},
    "surface": {"A": " Hfo_wOH 0.001 600 1\n",
                "B": " Hfo_wOH 0.002 600 0.5\n Hfo_sOH 0.00005\n"},
    "gas_phase": {"A": " -fixed_pressure\n -pressure 1\n CO2(g) 0.01\n N2(g) 0.9\n",
                  "B": " -fixed_pressure\n -pressure 1.5\n -volume 2\n CO2(g) 0.002\n N2(g) 0.5\n"},
    "solid_solutions": {"A": " CaSrCO3\n  -comp Calcite 0.01\n  -comp Strontianite 0.001\n",
                        "B": " CaSrCO3\n  -comp Calcite 0.002\n  -comp Strontianite 0.0005\n"},
    "kinetics": {"A": " Quartz\n  -m 1\n  -parms 1 1\n -steps 100\n",
                 "B": " Quartz\n  -m 0.5\n  -parms 2 1\n K-feldspar\n  -m 0.1\n  -parms 1 1\n -steps 50\n"},
    "mix": {"A": " 1 0.5\n",
            "B": " 1 0.25\n 2 0.5\n"},
    "reaction": {"A": " NaCl 1\n 1 mmol\n",
                 "B": " KBr 1\n HCl 0.5\n 0.2 0.4 mmol\n"},
    "reaction_temperature": {"A": " 30\n",
                             "B": " 35 45\n"},
    "reaction_pressure": {"A": " 2\n",
                          "B": " 3 5\n"},
}

# one named quantity per kind for *_MODIFY (identifier path, value).  A path element "component X" selects the
# nested object.  The quantities exist in both contents of the kind and in every content derived from them.
MODIFY = {
    "solution": [(("temp",), "31.5"), (("totals", "Cl"), "0.00375")],
    "equilibrium_phases": [(("component Calcite", "moles"), "0.0125")],
    "exchange": [(("exchange_gammas",), "0")],
    "surface": [(("thickness",), "2.5e-08")],
    "gas_phase": [(("component CO2(g)", "moles"), "0.00625")],
    "solid_solutions": [(("solid_solution CaSrCO3", "component Calcite", "moles"), "0.0075")],
    "kinetics": [(("component Quartz", "m"), "0.75")],
    "reaction": [(("units",), "Mol"), (("reactant_list", "LiF"), "0.5")],      # the second one adds a reactant with elements no other entry holds
    "reaction_temperature": [(("temps", "#0"), "33 44")],
    "reaction_pressure": [(("pressures", "#0"), "7 9")],
}
# quantities that are not "named quantities" of an entity but bookkeeping flags / derived prints of the dump; a change of
# these is not judged (see the C14 report: SURFACE_MODIFY clears new_def, no consequence could be demonstrated):
#   new_def, tidied                       flags "needs initial calculation / has been tidied"
#   count_temps (REACTION_TEMPERATURE)    printed from the length of the -temps list
#   eltList (EQUILIBRIUM_PHASES)          "List of all elements in phases", rebuilt from the components when read
#   activities/<element> (SOLUTION)       log-activity *estimates*; SOLUTION_MODIFY -totals rescales the estimate of
#                                         the element whose total it changes
def modify_ignored(kind, target, path):
    if path[-1] in ("new_def", "tidied"):
        return True
    if kind == "reaction_temperature" and path == ("count_temps",):
        return True
    if kind == "equilibrium_phases" and path[0] == "eltList":
        return True
    if kind == "solution" and target[0] == "totals" and path[0] == "activities" and path[-1].split("(")[0] == target[-1].split("(")[0]:
        return True
    return False


# ------------------------------------------------------------------------------------------------ number specs
def span(spec):
    """'2' -> (2,2); '2-3' -> (2,3); '' -> (1,1) (no number given = 1); '-1' -> (-1,-1)"""
    if spec == "":
        return 1, 1
    m = re.match(r"^(-?\d+)(?:-(-?\d+))?$", spec)
    a = int(m.group(1))
    b = int(m.group(2)) if m.group(2) is not None else a
    return a, b


def numbers(listspec):
    """DELETE / RUN_CELLS list: '1 3', '2-3' -> sorted list of numbers"""
    out = set()
    for tok in listspec.split():
        a, b = span(tok)
        out.update(range(a, b + 1))
    return sorted(out)


# ------------------------------------------------------------------------------------------------ op -> input text
def modify_text(kind, n, path, value):
    lines = ["%s_MODIFY %d" % (KEYWORD[kind], n)]
    ind = " "
    for p in path[:-1]:
        lines.append("%s-%s" % (ind, p))
        ind += " "
    if (kind == "solution" and path[0] == "totals") or (kind == "reaction" and path[0] == "reactant_list"):
        lines.append("%s%s %s" % (ind, path[-1], value))
    elif path[-1].startswith("#"):
        lines[-1] = lines[-1] + " " + value
    else:
        lines.append("%s-%s %s" % (ind, path[-1], value))
    return "\n".join(lines) + "\n"


def use_save_text(sol, uses, saves):
    """sol = ('solution'|'mix', n); uses = [(kind, n)]; saves = [(kind, spec)]"""
    t = "USE %s %d\n" % sol
    for k, n in uses:
        t += "USE %s %d\n" % (k, n)
    for k, spec in saves:
        t += "SAVE %s %s\n" % (k, spec)
    return t


def op_text(op):
    """PHREEQC input of one operation (one simulation, closed by END)."""
    o = op["op"]
    if o == "def":
        return "%s %s\n%sEND\n" % (KEYWORD[op["kind"]], op["spec"], DEFS[op["kind"]][op["var"]])
    if o == "copy":
        return "COPY %s %d %s\nEND\n" % (op["kind"], op["src"], op["spec"])
    if o == "delete":
        def line(what, lst):
            return " -all\n" if what == "all" else " -cells %s\n" % lst if what == "cells" else " -%s %s\n" % (DELOPT[what], lst)
        # "more": further option lines of the same DELETE block (the block removes the union of what its lines name)
        return "DELETE\n" + line(op["what"], op["list"]) + "".join(line(w, l) for w, l in op.get("more", [])) + "END\n"
    if o == "modify":
        return modify_text(op["kind"], op["n"], tuple(op["path"]), op["value"]) + "END\n"
    if o == "mix":
        t = "%s %s\n" % (MIXKEY[op["kind"]], op["spec"])
        for s, f in op["parts"]:
            t += " %d %s\n" % (s, f)
        return t + "END\n"
    if o == "react":
        return use_save_text(tuple(op["sol"]), [tuple(u) for u in op["uses"]], [tuple(s) for s in op["saves"]]) + PUNCH + "END\n"
    if o == "run_cells":
        return "RUN_CELLS\n -cells %s\n%sEND\n" % (op["list"], PUNCH)
    if o in ("combo", "failing", "text"):
        return op["text"]
    raise ValueError(o)


def op_name(op):
    o = op["op"]
    if o == "def":
        return "def %s %s=%s" % (op["kind"], op["spec"] or "(none)", op["var"])
    if o == "copy":
        return "copy %s %d->%s" % (op["kind"], op["src"], op["spec"])
    if o == "delete":
        return "delete %s %s" % (op["what"], op.get("list", "")) + "".join(" + %s %s" % (w, l) for w, l in op.get("more", []))
    if o == "modify":
        return "modify %s %d %s=%s" % (op["kind"], op["n"], "/".join(op["path"]), op["value"])
    if o == "mix":
        return "mix %s %s<-%s" % (op["kind"], op["spec"], "+".join("%sx%d" % (f, s) for s, f in op["parts"]))
    if o == "react":
        return "react %s%d+%s save %s" % (op["sol"][0], op["sol"][1], ",".join("%s%d" % tuple(u) for u in op["uses"]),
                                          ",".join("%s:%s" % tuple(s) for s in op["saves"]))
    if o == "run_cells":
        return "run_cells %s" % op["list"]
    if o == "combo":
        return "combo %s" % op["name"]
    if o == "failing":
        return "failing-simulation+%s" % op["name"]
    return repr(op)


# read-outs of "the calculated result" in the simulation that SAVEs it (BASIC functions, PHREEQC manual)
PUNCH_ITEMS = [
    ("tot_Na", 'TOT("Na")*TOT("water")'), ("tot_Cl", 'TOT("Cl")*TOT("water")'), ("tot_Ca", 'TOT("Ca")*TOT("water")'),
    ("tot_K", 'TOT("K")*TOT("water")'), ("tot_Mg", 'TOT("Mg")*TOT("water")'), ("water", 'TOT("water")'),
    ("pH", '-LA("H+")'), ("pe", '-LA("e-")'), ("tc", "TC"),
    ("equi_Calcite", 'EQUI("Calcite")'), ("equi_Gypsum", 'EQUI("Gypsum")'),
    ("gas_CO2", 'GAS("CO2(g)")'), ("gas_N2", 'GAS("N2(g)")'),
    ("ss_Calcite", 'S_S("Calcite")'), ("ss_Strontianite", 'S_S("Strontianite")'),
    ("kin_Quartz", 'KIN("Quartz")'), ("kin_Kfs", 'KIN("K-feldspar")'),
    ("x_NaX", 'MOL("NaX")*TOT("water")'), ("x_KX", 'MOL("KX")*TOT("water")'), ("x_CaX2", 'MOL("CaX2")*TOT("water")'),
    ("cell", "CELL_NO"),
]
PUNCH = ("SELECTED_OUTPUT 1\n -reset false\n -high_precision true\nUSER_PUNCH 1\n -headings %s\n" % " ".join(h for h, _ in PUNCH_ITEMS)
         + "".join(" %d PUNCH %s\n" % (10 * (i + 1), e) for i, (_, e) in enumerate(PUNCH_ITEMS)))


# ------------------------------------------------------------------------------------------------ dump text -> store
_HDR = re.compile(r"^([A-Z][A-Z_]*_RAW)[ \t]+(-?\d+)(?:-(-?\d+))?[ \t]?(.*)$")


def split(text):
    """DUMP text -> ({(kind, n): body}, {(kind, n): (n_end, description)}, [other top-level lines]).
    body = the block's lines after the header line, verbatim."""
    store, meta, others = {}, {}, []
    cur = None
    for line in text.split("\n"):
        if line[:1].isupper():
            m = _HDR.match(line)
            if m and m.group(1) in KIND_OF_RAW:
                cur = (KIND_OF_RAW[m.group(1)], int(m.group(2)))
                store[cur] = []
                meta[cur] = (int(m.group(3)) if m.group(3) is not None else int(m.group(2)), m.group(4).strip())
                continue
            cur = None
            if line.strip():
                others.append(line)
            continue
        if cur is not None:
            store[cur].append(line)
    return {k: "\n".join(v) for k, v in store.items()}, meta, others


_NUM = re.compile(r"^[+-]?(\d+\.?\d*|\.\d+)([eE][+-]?\d+)?$")


def body_paths(body):
    """body text -> {path tuple: [value tokens]} ; nesting from indentation; rows without '-name' get the row's first
    token as last path element (NameDouble rows) or '#i' (pure number rows)."""
    out = {}
    stack = []          # (indent, name)
    counters = {}
    for raw_line in body.split("\n"):
        line = raw_line.split("#")[0].rstrip()
        if not line.strip():
            continue
        exp = line.expandtabs(8)
        ind = len(exp) - len(exp.lstrip(" "))
        toks = line.split()
        while stack and stack[-1][0] >= ind:
            stack.pop()
        if toks[0].startswith("-") and len(toks[0]) > 1 and not _NUM.match(toks[0]):
            name = toks[0][1:]
            val = toks[1:]
            if name in ("component", "solid_solution", "charge_component"):
                name = "%s %s" % (name, " ".join(val))
                val = []
            path = tuple(s[1] for s in stack) + (name,)
            stack.append((ind, name))
        else:
            parent = tuple(s[1] for s in stack)
            if not _NUM.match(toks[0]) and len(toks) == 2:
                path = parent + (toks[0],)
                val = toks[1:]
            else:
                i = counters.get(parent, 0)
                counters[parent] = i + 1
                path = parent + ("#%d" % i,)
                val = toks
        if path in out:
            j = 2
            while path[:-1] + ("%s~%d" % (path[-1], j),) in out:
                j += 1
            path = path[:-1] + ("%s~%d" % (path[-1], j),)
        out[path] = val
    return out


def numeric_diff(a, b, rtol, atol=0.0):
    """Compare two body texts token-wise: same structure, non-numeric tokens equal, numbers within rtol/atol.
    Returns None if equal, else a short description of the first difference."""
    if a == b:
        return None
    la, lb = a.split("\n"), b.split("\n")
    if len(la) != len(lb):
        return "different number of lines (%d vs %d)" % (len(la), len(lb))
    for x, y in zip(la, lb):
        if x == y:
            continue
        tx, ty = x.split(), y.split()
        if len(tx) != len(ty):
            return "%r | %r" % (x.strip(), y.strip())
        for p, q in zip(tx, ty):
            if p == q:
                continue
            if _NUM.match(p) and _NUM.match(q):
                u, v = float(p), float(q)
                if abs(u - v) <= atol + rtol * max(abs(u), abs(v)):
                    continue
            return "%r | %r" % (x.strip(), y.strip())
    return None


# ------------------------------------------------------------------------------------------------ the model
def model_apply(store, op):
    """Expected effect of `op` on the store (dict (kind,n)->body).  Returns a dict:
        keys      : set of keys expected after the operation
        same      : keys whose body must be bitwise what it was
        equal_to  : {key: old key}  body must be bitwise the body the old key had before the operation
        define    : {key: (kind, var)}  body must be the content of that definition
        modified  : {key: (path, value)}
        mixed     : {key: [(old key, fraction)]}  extensive quantities = linear combination
        saved     : {key: None}  result of the reaction calculation (judged by read-outs / differential)
        may_change: keys that exist before and after but whose body may change (kinetics used in a reaction)
        must_fail : the run is expected to end with an error and change nothing
        groups    : lists of keys that must be content-identical to each other after the operation
    Entries with negative numbers are not visible in a dump and are not modelled."""
    keys = set(store)
    e = {"keys": None, "same": set(), "equal_to": {}, "define": {}, "modified": {}, "mixed": {}, "saved": {},
         "may_change": set(), "must_fail": False, "error_allowed": False, "groups": [], "note": ""}
    o = op["op"]
    touched = set()
    if o == "def":
        a, b = span(op["spec"])
        b = max(a, b)
        g = []
        if op["kind"] == "mix":       # a MIX that names a solution which does not exist is an input error (entry still read)
            if any(("solution", n) not in store for n in mix_fractions(DEFS["mix"][op["var"]])):
                e["error_allowed"] = True
        for n in range(a, b + 1):
            if n < 0:
                continue
            k = (op["kind"], n)
            e["define"][k] = (op["kind"], op["var"])
            touched.add(k)
            g.append(k)
        e["groups"].append(g)
        keys |= touched
    elif o == "copy":
        a, b = span(op["spec"])
        kinds = KIND_NAMES if op["kind"] == "cell" else [op["kind"]]
        for kind in kinds:
            src = (kind, op["src"])
            if src not in store or op["src"] < 0:
                continue
            for n in range(a, b + 1):
                if n < 0 or n == op["src"]:
                    continue
                e["equal_to"][(kind, n)] = src
                touched.add((kind, n))
        keys |= touched
    elif o == "delete":
        gone = set()
        for what, lst in [(op["what"], op["list"])] + [tuple(x) for x in op.get("more", [])]:
            if what == "all":
                gone |= set(keys)
            else:
                kinds = KIND_NAMES if what == "cells" else [what]
                if lst.strip() == "":
                    gone |= {k for k in keys if k[0] in kinds}
                else:
                    ns = set(numbers(lst))
                    gone |= {k for k in keys if k[0] in kinds and k[1] in ns}
        keys -= gone
        touched |= gone
    elif o == "modify":
        k = (op["kind"], op["n"])
        if k in store:
            e["modified"][k] = (tuple(op["path"]), op["value"])
            touched.add(k)
    elif o == "mix":
        a, b = span(op["spec"])
        g = []
        if op["kind"] == "solution" and any(("solution", s) not in store for s, _ in op["parts"]):
            # a solution named in SOLUTION_MIX that does not exist is reported as an error; like the other *_MIX
            # blocks the engine still stores the sum over the sources that exist (possibly an empty entry)
            e["error_allowed"] = True
        for n in range(a, max(a, b) + 1):
            k = (op["kind"], n)
            e["mixed"][k] = [((op["kind"], s), float(f)) for s, f in op["parts"]]
            touched.add(k)
            g.append(k)
        e["groups"].append(g)
        keys |= touched
    elif o == "react":
        need = [tuple(op["sol"])] + [tuple(u) for u in op["uses"]]
        if op["sol"][0] == "mix" and tuple(op["sol"]) in store:
            need += [("solution", n) for n in mix_fractions(store[tuple(op["sol"])])]
        if any(k not in store for k in need):
            e["must_fail"] = True
        else:
            for kind, spec in op["saves"]:
                a, b = span(spec)
                g = []
                for n in range(a, max(a, b) + 1):
                    e["saved"][(kind, n)] = None
                    touched.add((kind, n))
                    g.append((kind, n))
                e["groups"].append(g)
            keys |= touched
            for kind, n in op["uses"]:
                if kind == "kinetics":
                    e["may_change"].add((kind, n))
                    touched.add((kind, n))
    elif o in ("run_cells", "combo"):
        e["keys"] = None            # judged differentially
        return e
    elif o == "text":               # free text used to build an initial state: declares the entries it defines
        touched |= {tuple(k) for k in op["keys"]}
        keys |= touched
    elif o == "failing":
        e["must_fail"] = True
    e["keys"] = keys
    e["same"] = {k for k in keys if k in store and k not in touched}
    return e


def mix_fractions(body):
    """MIX body (definition or RAW): lines `solution number  fraction` -> {number: fraction}"""
    out = {}
    for line in body.split("\n"):
        toks = line.split("#")[0].split()
        if len(toks) == 2:
            out[int(float(toks[0]))] = float(toks[1])
    return out


def solution_only(store, n):
    """Cell n holds a solution and nothing to react it with: RUN_CELLS still re-speciates and stores it, whereas the
    spelled-out `USE solution n / SAVE solution n` is no reaction calculation at all - no equivalence is claimed."""
    return ("solution", n) in store and ("mix", n) not in store and not any((k, n) in store for k in REACTANTS)


def spelled_out(store, n):
    """The explicit USE ... SAVE ... equivalent of RUN_CELLS for cell n, or None when the cell has neither a solution
    nor a mix (then RUN_CELLS skips it) or is solution-only."""
    if ("mix", n) in store:
        sol = ("mix", n)
    elif ("solution", n) in store:
        sol = ("solution", n)
    else:
        return None
    uses = [(k, n) for k in REACTANTS if (k, n) in store]
    if not uses and sol[0] == "solution":
        return None
    saves = [("solution", str(n))] + [(k, str(n)) for k in SAVEABLE[1:] if (k, n) in store]
    return {"op": "react", "sol": list(sol), "uses": [list(u) for u in uses], "saves": [list(s) for s in saves]}
