"""Out-of-tree builds of the library under test, always from the repository's
current working tree (VERIF_REPO, default /repo).

ensure(variant) -> directory containing libIPhreeqc.a.  Ninja's own dependency
tracking (mtime + depfiles) makes an up-to-date build a ~50 ms no-op and a
`git apply` / `git checkout -- .` in the repository a partial rebuild; a file lock
serialises concurrent callers.
"""
import fcntl
import hashlib
import os
import subprocess
import sys

ROOT = os.path.dirname(os.path.dirname(os.path.abspath(__file__)))
REPO = os.path.realpath(os.environ.get("VERIF_REPO", "/repo"))
BUILD = os.path.join(ROOT, "build")
GUARD = "IPHREEQC_VERIF"

VARIANTS = {
    # name: (c compiler, c++ compiler, flags, extra cmake args)
    "rel": ("gcc", "g++", "-O2 -DNDEBUG", []),
    "san": ("clang", "clang++",
            "-O1 -g -fno-omit-frame-pointer -fsanitize=address,undefined "
            "-fno-sanitize-recover=undefined -fno-sanitize=vptr", []),
    "tsabi": ("clang", "clang++", "-O2 -fsanitize=thread -fno-pie", []),
    "tsan": ("clang", "clang++", "-O1 -g -fsanitize=thread", []),
    "f77": ("gcc", "g++", "-O2 -DNDEBUG", ["-DIPHREEQC_ENABLE_MODULE=OFF"]),
}

INCLUDES = ["src", "src/phreeqcpp", "src/phreeqcpp/common", "src/phreeqcpp/PhreeqcKeywords"]


def _tag():
    return "" if REPO == "/repo" else "-" + hashlib.sha1(REPO.encode()).hexdigest()[:8]


def libdir(variant):
    return os.path.join(BUILD, "lib-%s%s" % (variant, _tag()))


def include_flags():
    return ["-I" + os.path.join(REPO, d) for d in INCLUDES]


def _run(cmd, cwd=None, log=None):
    p = subprocess.run(cmd, cwd=cwd, stdout=subprocess.PIPE, stderr=subprocess.STDOUT, text=True)
    if p.returncode != 0:
        sys.stderr.write("BUILD FAILED: %s\n%s\n" % (" ".join(cmd), p.stdout[-6000:]))
        raise SystemExit(2)
    return p.stdout


def ensure(variant):
    """Build (or refresh) the library variant; return path of libIPhreeqc.a."""
    cc, cxx, flags, extra = VARIANTS[variant]
    d = libdir(variant)
    os.makedirs(BUILD, exist_ok=True)
    with open(os.path.join(BUILD, ".lock-%s%s" % (variant, _tag())), "w") as lk:
        fcntl.flock(lk, fcntl.LOCK_EX)
        if not os.path.exists(os.path.join(d, "build.ninja")):
            os.makedirs(d, exist_ok=True)
            _run(["cmake", "-G", "Ninja", "-S", REPO, "-B", d,
                  "-DCMAKE_BUILD_TYPE=Release", "-DBUILD_TESTING=OFF",
                  "-DCMAKE_C_COMPILER=" + cc, "-DCMAKE_CXX_COMPILER=" + cxx,
                  "-DCMAKE_CXX_FLAGS_RELEASE=", "-DCMAKE_C_FLAGS_RELEASE=",
                  "-DCMAKE_CXX_FLAGS=%s -D%s" % (flags, GUARD),
                  "-DCMAKE_C_FLAGS=%s -D%s" % (flags, GUARD)] + extra)
        _run(["ninja", "-C", d, "IPhreeqc"])
    lib = os.path.join(d, "libIPhreeqc.a")
    assert os.path.exists(lib), lib
    return lib


def _newer(target, deps):
    if not os.path.exists(target):
        return False
    t = os.path.getmtime(target)
    return all(os.path.getmtime(x) <= t for x in deps)


def ensure_exe(name, variant, sources, extra_flags=(), extra_link=(), headers=()):
    """Compile a native harness against the library variant.  Rebuilt when the
    library, a source or a header changed."""
    lib = ensure(variant)
    cc, cxx, flags, _ = VARIANTS[variant]
    out = os.path.join(BUILD, "bin%s" % _tag(), "%s-%s" % (name, variant))
    os.makedirs(os.path.dirname(out), exist_ok=True)
    srcs = [os.path.join(ROOT, s) for s in sources]
    hdrs = [os.path.join(ROOT, h) for h in headers]
    with open(out + ".lock", "w") as lk:
        fcntl.flock(lk, fcntl.LOCK_EX)
        if not _newer(out, srcs + hdrs + [lib, os.path.abspath(__file__)]):
            tmp = out + ".tmp%d" % os.getpid()
            _run([cxx] + flags.split() + ["-D" + GUARD, "-std=c++17"] + list(extra_flags) + include_flags()
                 + ["-o", tmp] + srcs + [lib] + list(extra_link) + ["-lpthread", "-ldl"])
            os.replace(tmp, out)
    return out


if __name__ == "__main__":
    for v in sys.argv[1:] or ["rel"]:
        print(ensure(v))
