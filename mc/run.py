"""Entry point: python3-vt -m mc.run <ID> quick|thorough | <ID> --replay <file>"""
import importlib
import os
import sys


def main(argv):
    if len(argv) < 2:
        print(__doc__)
        return 2
    prop = argv[0].upper()
    try:
        mod = importlib.import_module("mc.props.%s" % prop.lower())
    except ModuleNotFoundError as e:
        if e.name != "mc.props.%s" % prop.lower():
            raise
        print("no check for %s" % prop)
        return 2
    if argv[1] == "--replay":
        return mod.replay(argv[2])
    tier = argv[1]
    if tier not in ("quick", "thorough"):
        tier = os.environ.get("VERIF_TIER", "quick")
    # (re)build the library and the driver from the repository's working tree BEFORE the check starts its deadline:
    # after a source change the rebuild must not eat into the exploration budget
    from . import drv
    drv.exe("rel")
    return mod.run(tier)


if __name__ == "__main__":
    sys.exit(main(sys.argv[1:]))
