"""C15  Results are invariant under physically irrelevant changes of the input.

Shape L (metamorphic, rule R6): base inputs x *complete* transformation families.  Every case builds two descriptions
of the same chemical system from one structured model (mc/oracles/c15_model.py), runs both on the real library (each
on a freshly loaded database) and compares every cell of a high-precision USER_PUNCH table:
    intensive quantities equal to relative 1e-8, extensive quantities equal to factor x reference (relative 1e-8).
The only "expected values" are the numbers written into the transformed input by the unit oracle
(value = mol/kgw / prefix x gram formula weight, weights parsed from the database text by mc/oracles/c15_gfw.py).

Families (each enumerated completely over its stated value sets, per base input):
  units      default unit of the block x {mol,mmol,umol,g,mg,ug}/{kgw,L,kgs} (+ppt/ppm/ppb), one element in its own unit,
             `as` formulas, `gfw` overrides, eq/meq/ueq for Alkalinity, every element in its own unit (cyclic assignments);
             per litre with no / a fixed / a calculated density
  water      water mass and every extensive amount x f (extensive cells must scale by f)
  renumber   all injective maps of the used numbers into a target set, all kinds together and one kind alone
  permb/permc  all permutations of the blocks of a simulation / of the constituents of a block (up to 4 (quick) / 6)
  dup        an identical definition repeated (adjacent, at the end, at the start, in a simulation of its own)
  spread     SOLUTION_SPREAD rows (one block per solution / one joint block) instead of SOLUTION blocks, with unit variants
  mix        MIX: order inside the block (permc), self-mix (fraction f; f + (1-f) of an identical copy), sequential mixing,
             and "mixwater": one solution defined with water mass f and mixed with fraction/f

Sub-claims that are NOT judged (they only produce diagnostics) and why:
  REDOX    Dissolved O2 of a *reacted* solution (TOT/TOTMOLE("O(0)"), MOL("O2"), SI/SR/GAS/PR_P of O2(g); kind 'r' in
           c15_bases) under transformations that change the iteration path (water scaling, sequential/self mixing).  The
           engine has no mole balance for O(0) in a reaction step: it follows from the difference of the total-H and
           total-O balances, whose documented convergence criterion is relative to the moles of H and O (111 + 55.5 per
           kg water).  With the tightest tolerance (-high_precision => convergence_tolerance 1e-12; 1e-14 no longer
           converges) O(0) = 3e-4 mol/kgw is resolved to 1e-12 x 166 / 3e-4 = 5e-7 relative only; observed 1.1e-7.  The
           statement's 1e-8 cannot be demanded below the solver's resolution; every other quantity of those runs is judged.
  MIXTEMP  Sequential mixing ((a+b) saved, then +c) of solutions of *different temperature*.  The temperature of a mixture
           is the water-mass-weighted mean (manual, MIX); the saved intermediate has gained/lost ~1e-7 kg of water by
           reaction, so the final temperature legitimately differs by ~3e-8.  Sequential mixing is judged on the
           isothermal base (mixiso); the order *inside* one MIX block is judged at all temperatures (family permc).
  LINES    Rotations of all body lines of a SOLUTION block (options mixed with constituents): options are not
           "constituents" in the statement.  (No deviation is observed; diagnostics only by rule R1.)
  per-litre / per-kg-solution descriptions are compared only inside one denominator family with one density keyword.

Genuine deviations found on the unchanged tree (reported to the coordinator; their fingerprints are narrow):
  * `units den=kgs per-element Alkalinity:eq/kgs` - prep.cpp convert_units adds the solute mass of a constituent given in
    Mol/kgs, Mol/l, eq/l, g/kgs, g/l to the solution mass but not of one given in eq/kgs.
  * `water-scale fixed-volume-gas reported-pressure maxdev<1e-7` - GAS_P / PR_P of a fixed-volume Peng-Robinson gas phase
    are not part of the convergence test (only to 1e-3 atm): the reported pressure misses the equation of state at the
    reported moles by a remainder that halves per iteration (2.6e-8 at water 1e-3 kg, 8e-10 at 1e3 kg).
"""
import itertools
import json
import os

from .. import core, build, phr
from ..oracles import c15_bases, c15_gfw, c15_model as cm

PROP = "C15"
DBNAME = "phreeqc.dat"
TOL = 1e-8                      # the statement's tolerance (relative)
TINY = 1e-30                    # |a|,|b| below this are both "zero" (absent species are reported as 0 or 1e-99)

_W = None
_B = None


def weights():
    global _W
    if _W is None:
        _W = c15_gfw.Weights(open(phr.dbpath(DBNAME), encoding="latin-1").read())
    return _W


def bases():
    global _B
    if _B is None:
        _B = c15_bases.bases()
    return _B


# ------------------------------------------------------------------------------------------------ helpers on models
def blocks_of(model, kind):
    return [(i, j, b) for i, sim in enumerate(model) for j, b in enumerate(sim) if b["k"] == kind]


NUMBERED = ("SOLUTION", "EQUILIBRIUM_PHASES", "EXCHANGE", "SURFACE", "GAS_PHASE", "REACTION", "KINETICS", "MIX")
USE_KIND = {"solution": "SOLUTION", "equilibrium_phases": "EQUILIBRIUM_PHASES", "exchange": "EXCHANGE", "surface": "SURFACE",
            "gas_phase": "GAS_PHASE", "reaction": "REACTION", "kinetics": "KINETICS", "mix": "MIX"}
UNITS_KGW = ["mol/kgw", "mmol/kgw", "umol/kgw", "g/kgw", "mg/kgw", "ug/kgw"]
UNITS_L = ["mol/L", "mmol/L", "umol/L", "g/L", "mg/L", "ug/L"]
UNITS_KGS = ["mol/kgs", "mmol/kgs", "umol/kgs", "g/kgs", "mg/kgs", "ug/kgs", "ppt", "ppm", "ppb"]
ALK_EQ = {"kgw": ["eq/kgw", "meq/kgw", "ueq/kgw"], "l": ["eq/L", "meq/L", "ueq/L"], "kgs": ["eq/kgs", "meq/kgs", "ueq/kgs"]}
FAMILY_UNITS = {"kgw": UNITS_KGW, "l": UNITS_L, "kgs": UNITS_KGS}
# alternative formulas for "as" (one atom of the element per formula, so moles of formula = moles of element)
AS = {"C(4)": ["HCO3", "CO3", "CO2", "C"], "S(6)": ["SO4", "S", "H2SO4"], "N(5)": ["NO3", "N"], "N(-3)": ["NH4", "NH3", "N"],
      "Si": ["SiO2", "H4SiO4", "Si"], "Alkalinity": ["CaCO3", "HCO3", "Ca0.5(CO3)0.5"], "Ca": ["Ca", "CaCO3"], "Na": ["NaCl"],
      "Mg": ["MgO"], "Fe(2)": ["FeO"], "Fe(3)": ["Fe(OH)3"], "Cl": ["NaCl"], "K": ["KCl"], "Zn": ["ZnO"], "O(0)": ["O"]}
GFWS = [100.0, 1.0, 55.847]


def scale_model(model, f):
    """Scale the water mass and every extensive amount by f."""
    for sim in model:
        for b in sim:
            k = b["k"]
            if k == "SOLUTION":
                b["water"] = b.get("water", 1.0) * f
            elif k == "EQUILIBRIUM_PHASES":
                b["items"] = [(it[0], it[1], it[2] * f) + tuple(it[3:]) for it in b["items"]]
            elif k == "EXCHANGE":
                b["items"] = [(n, a * f) for n, a in b["items"]]
            elif k == "SURFACE":
                b["items"] = [(it[0], it[1] * f, it[2], None if it[3] is None else it[3] * f) for it in b["items"]]
            elif k == "GAS_PHASE":
                b["volume"] = b["volume"] * f
            elif k == "REACTION":
                if "amounts" in b:
                    b["amounts"] = [a * f for a in b["amounts"]]
                else:
                    b["total"] = b["total"] * f
            elif k == "KINETICS":
                for it in b["items"]:
                    it["m"] *= f
                    it["m0"] *= f
                    it["tol"] *= f
    return model


def renumber_model(model, maps):
    """maps: {KIND: {old: new}}"""
    def mp(kind, n):
        return maps.get(kind, {}).get(n, n)
    for sim in model:
        for b in sim:
            k = b["k"]
            if k in NUMBERED:
                b["n"] = mp(k, b["n"])
            if k in ("EXCHANGE", "SURFACE", "GAS_PHASE") and b.get("equil") is not None:
                b["equil"] = mp("SOLUTION", b["equil"])
            if k == "MIX":
                b["items"] = [(mp("SOLUTION", s), fr) for s, fr in b["items"]]
            if k in ("USE", "SAVE") and b["n"] is not None:
                b["n"] = mp(USE_KIND[b["what"]], b["n"])
    return model


def used_numbers(model):
    d = {}
    for sim in model:
        for b in sim:
            if b["k"] in NUMBERED:
                d.setdefault(b["k"], set()).add(b["n"])
            if b["k"] == "SAVE":
                d.setdefault(USE_KIND[b["what"]], set()).add(b["n"])
    return {k: sorted(v) for k, v in d.items()}


def constituents(b):
    """Name of the list that holds the order-free constituents of a block (or None)."""
    return {"SOLUTION": "els", "EQUILIBRIUM_PHASES": "items", "EXCHANGE": "items", "SURFACE": "items", "GAS_PHASE": "items",
            "REACTION": "items", "KINETICS": "items", "MIX": "items"}.get(b["k"])


def bounded_perms(n, full):
    """All permutations of range(n) if n <= full; otherwise all permutations of the first `full` positions (rest fixed)
    plus all rotations, all adjacent transpositions and the reversal of the whole list."""
    if n <= full:
        return [list(p) for p in itertools.permutations(range(n))]
    out = [list(p) + list(range(full, n)) for p in itertools.permutations(range(full))]
    for r in range(1, n):
        out.append(list(range(r, n)) + list(range(r)))
    for i in range(n - 1):
        p = list(range(n))
        p[i], p[i + 1] = p[i + 1], p[i]
        out.append(p)
    out.append(list(range(n - 1, -1, -1)))
    seen, uniq = set(), []
    for p in out:
        if tuple(p) not in seen:
            seen.add(tuple(p))
            uniq.append(p)
    return uniq


# ------------------------------------------------------------------------------------------------ case -> two models
def build_pair(case):
    """-> (ref_model, var_model, info) ; info: factor, mode ('all'|'lastsim'|'lastrow'), solmap (var soln number -> ref)"""
    base = bases()[case["base"]]
    ref = cm.clone(base["sims"])
    var = cm.clone(base["sims"])
    info = {"factor": 1.0, "mode": "all", "solmap": {}, "diag_only": False}
    fam = case["fam"]
    if fam == "identity":
        pass
    elif fam == "units":
        # same solution stated in another denominator family first (both sides), then the variant's unit description
        den = case.get("den", "kgw")
        for model in (ref, var):
            for _, _, b in blocks_of(model, "SOLUTION"):
                b["fam"] = den
                if case.get("density") is not None:
                    b["density"] = tuple(case["density"])
        sols = blocks_of(var, "SOLUTION")
        for si in (range(len(sols)) if case["sol"] == "all" else [case["sol"]]):
            b = sols[si][2]
            per = {el: d for el, d in case.get("per", {}).items() if any(e["el"] == el for e in b["els"])}
            b["ud"] = {"per": per}
            if case.get("default"):
                b["ud"]["default"] = case["default"]
        if case.get("ref_per"):
            rb = blocks_of(ref, "SOLUTION")[case["sol"]][2]
            rb["ud"] = {"per": case["ref_per"]}
        if case.get("spread"):
            to_spread(var, case["spread"])
    elif fam == "water":
        if case.get("den"):          # both sides stated per litre / per kg solution; only the variant is scaled
            for model in (ref, var):
                for _, _, b in blocks_of(model, "SOLUTION"):
                    b["fam"] = case["den"]
        scale_model(var, case["f"])
        info["factor"] = case["f"]
        info["path_changes"] = True
    elif fam == "renum":
        maps = {k: {int(a): b for a, b in v.items()} for k, v in case["maps"].items()}
        renumber_model(var, maps)
        info["solmap"] = {v: k for k, v in maps.get("SOLUTION", {}).items()}
        info["mixmap"] = {v: k for k, v in maps.get("MIX", {}).items()}
        info["mix_sims"] = [i + 1 for i, sim in enumerate(var) if any(b["k"] == "MIX" for b in sim)]
    elif fam == "permb":
        sim = var[case["sim"]]
        var[case["sim"]] = [sim[i] for i in case["perm"]]
    elif fam == "permc":
        b = var[case["sim"]][case["blk"]]
        key = constituents(b)
        b[key] = [b[key][i] for i in case["perm"]]
    elif fam == "permlines":
        b = var[case["sim"]][case["blk"]]
        b["line_order"] = case["perm"]
        info["diag_only"] = True
    elif fam == "dup":
        sim = var[case["sim"]]
        blk = cm.clone([[sim[case["blk"]]]])[0][0]
        w = case["where"]
        if w == "adjacent":
            sim.insert(case["blk"] + 1, blk)
        elif w == "end":
            sim.append(blk)
        elif w == "start":
            sim.insert(0, blk)
        elif w == "prev_sim":
            # the same definition given once more in a simulation of its own, before the simulation that uses it
            var.insert(case["sim"], [blk])
            info["mode"] = "skip_sim"
            info["skip"] = case["sim"]
    elif fam == "spread":
        if case.get("water") is not None:       # the same scaled system on both sides: -water f  vs  the water column
            scale_model(ref, case["water"])
            scale_model(var, case["water"])
        to_spread(var, case["mode"])
    elif fam == "mixseq":
        # ((a,b) saved as 4, then 4 + c) instead of one MIX of a, b, c
        (i, j, mix), = blocks_of(var, "MIX")
        items = dict(mix["items"])
        a, b_, c = case["order"]
        var[i][j:j + 1] = [{"k": "MIX", "n": 1, "items": [(a, items[a]), (b_, items[b_])]}, {"k": "SAVE", "what": "solution", "n": 4}]
        var.insert(i + 1, [{"k": "MIX", "n": 1, "items": [(4, 1.0), (c, items[c])] if case.get("first", True) else [(c, items[c]), (4, 1.0)]}])
        info["mode"] = "lastrow"
        info["path_changes"] = True
        info["diag_only"] = case["base"] != "mixiso"     # see MIXTEMP note
    elif fam == "mixwater":
        # solution k is defined with water mass f (same molalities) and enters the MIX with its fraction divided by f:
        # the same water and solutes enter the mixture
        k, f = case["sol"], case["f"]
        for _, _, b in blocks_of(var, "SOLUTION"):
            if b["n"] == k:
                b["water"] = b.get("water", 1.0) * f
        (i, j, mix), = blocks_of(var, "MIX")
        mix["items"] = [(s_, fr / f if s_ == k else fr) for s_, fr in mix["items"]]
        info["mode"] = "lastrow"
    elif fam == "mixsplit":
        # the fraction of solution k is given in several lines of the MIX block (portions that add up to it)
        k, parts = case["sol"], case["parts"]
        (i, j, mix), = blocks_of(var, "MIX")
        items = []
        for s_, fr in mix["items"]:
            if s_ == k:
                items += [(s_, fr * p) for p in parts]
            else:
                items.append((s_, fr))
        mix["items"] = items
        info["mode"] = "lastrow"
    elif fam == "selfmix":
        # reference: MIX of solution 1 alone with fraction 1
        for model in (ref, var):
            (i, j, mix), = blocks_of(model, "MIX")
            mix["items"] = [(1, 1.0)]
        (i, j, mix), = blocks_of(var, "MIX")
        how = case["how"]
        if how == "fraction":
            mix["items"] = [(1, case["f"])]
            info["factor"] = case["f"]
        else:
            f = case["f"]
            if how == "copyblock":           # solution 4 is defined by an identical SOLUTION block
                s1 = [b for _, _, b in blocks_of(var, "SOLUTION") if b["n"] == 1][0]
                s4 = cm.clone([[s1]])[0][0]
                s4["n"] = 4
                var[0].append(s4)
            else:                            # solution 4 is a COPY of solution 1 (made after the initial solution calculation)
                var.insert(1, [{"k": "RAW", "text": "COPY solution 1 4"}])
            mix["items"] = [(1, f), (4, 1.0 - f)] if case.get("first", True) else [(4, 1.0 - f), (1, f)]
        info["mode"] = "lastrow"
        info["path_changes"] = True
    else:
        raise ValueError(fam)
    return ref, var, info


def to_spread(model, mode):
    for sim in model:
        idx = [j for j, b in enumerate(sim) if b["k"] == "SOLUTION"]
        if not idx:
            continue
        if mode == "each":
            for j in idx:
                sim[j] = {"k": "SPREAD", "solutions": [sim[j]]}
        else:
            sp = {"k": "SPREAD", "solutions": [sim[j] for j in idx]}
            sim[idx[0]] = sp
            for j in reversed(idx[1:]):
                del sim[j]


# ------------------------------------------------------------------------------------------------ running and judging
_cache = {}
DB = phr.dbpath(DBNAME)


def run_text(text):
    """Rows of the USER_PUNCH table of `text` on a brand-new instance with a freshly loaded database.  Cached per
    process (the engine is deterministic: C06); the cache only saves re-running the same reference description."""
    key = core.sha(text)
    if key in _cache:
        return _cache[key]
    d = core.get_drv("rel")
    d.reset()
    d.new("c")
    if d.call("s0", "c", "LoadDatabase", DB) != 0:
        raise RuntimeError("database does not load")
    rc = d.call("s0", "c", "RunString", text)
    if isinstance(rc, dict):
        res = {"rc": -99, "err": "exit() called: %r" % (rc,), "rows": [], "heads": [], "script": d.script()}
    else:
        err = d.call("s0", "c", "GetErrorString") if rc != 0 else ""
        t = d.obs("s0", "c", "t")["sel"].get("1", {}).get("table") or []
        rows = [dict(zip(t[0], [c["l"] if isinstance(c, dict) and "l" in c else c for c in r])) for r in t[1:]] if t else []
        res = {"rc": rc, "err": err, "rows": rows, "heads": t[0] if t else [], "script": d.script()}
    if len(_cache) > 300:
        _cache.clear()
    _cache[key] = res
    return res


def row_key(row, info):
    """(simulation, state, step, solution number mapped back through the renumbering); batch-reaction rows of a
    simulation that mixes carry the MIX number instead of a solution number."""
    s = row["soln"]
    if row["state"] == "react" and row["sim"] in info.get("mix_sims", ()):
        s = info.get("mixmap", {}).get(s, s)
    else:
        s = info.get("solmap", {}).get(s, s)
    return (row["sim"], row["state"], row["step"], s)


def close(a, b, factor=1.0, scale=0.0):
    """variant value b against reference value a (b should be factor*a).  `scale` is only given for the charge
    balance: a signed sum whose terms have the size of the ionic strength, so that a balanced solution reports
    rounding noise (1e-15) instead of 0; it is compared relative to the size of its terms."""
    a = a * factor
    if a == b:
        return True
    if abs(a) < TINY and abs(b) < TINY:
        return True
    return abs(a - b) <= TOL * max(abs(a), abs(b), scale)


def compare(base, ref, var, info):
    """-> (list of (heading, key, ref value, var value, kind), structural problem or None)"""
    obs = bases()[base]["obs"]
    kinds = {h: k for h, _, k in obs}
    rr, vr = ref["rows"], var["rows"]
    mode = info["mode"]
    if mode == "lastrow":
        rr, vr = rr[-1:], vr[-1:]
        keyf = lambda row, m: ("last", row["state"], 0, 0)
    else:
        if mode == "skip_sim":
            sk = info["skip"] + 1          # 1-based number of the inserted simulation
            vr = [dict(r, sim=r["sim"] - 1) if r["sim"] > sk else r for r in vr if r["sim"] != sk]
        keyf = row_key
    rk = {}
    for r in rr:
        rk.setdefault(keyf(r, {}), []).append(r)
    vk = {}
    for r in vr:
        vk.setdefault(keyf(r, info), []).append(r)
    if sorted(rk) != sorted(vk) or any(len(rk[k]) != len(vk[k]) for k in rk):
        return [], [], "row sets differ: reference %s, variant %s" % (sorted(rk), sorted(vk))
    bad, soft = [], []
    f = info["factor"]
    for k in sorted(rk):
        for a, b in zip(rk[k], vk[k]):
            for h, kind in kinds.items():
                if h not in a or h not in b:
                    raise RuntimeError("observable %s missing from the selected-output table" % h)
                x, y = a[h], b[h]
                if not isinstance(x, (int, float)) or not isinstance(y, (int, float)):
                    if x != y:
                        bad.append((h, k, x, y, kind))
                    continue
                scale = abs(a["mu"] * a["water"] * f) if kind == "xs" else 0.0
                if not close(x, y, f if kind[0] == "x" else 1.0, scale):
                    (soft if "r" in kind and info.get("path_changes") and k[1] == "react" else bad).append((h, k, x, y, kind))
    return bad, soft, None


def obs_group(h):
    """Which part of the system an observable belongs to (used to keep water-scale fingerprints narrow)."""
    if h.startswith("p_") or h == "gas_p":
        return "gas-pressure"
    if h.startswith(("g_", "gas_")):
        return "gas"
    if h.startswith(("k_", "kd_")):
        return "kinetics"
    if h.startswith(("eq_", "d_")):
        return "phases"
    if h in ("psi", "sigma", "charge") or "Hfo" in h:
        return "surface"
    if h.endswith("X") or h.endswith("X2"):
        return "exchange"
    return "solution"


def unit_class(el, d):
    """Element + unit kind without the metric prefix (Alkalinity in mol is documented to mean equivalents)."""
    t = el + ":"
    if d.get("unit"):
        pre, base, den = cm.split_unit(d["unit"])
        if el.lower().startswith("alk") and base == "mol":
            base = "eq"
        t += base + "/" + den
    # the `as` formula is named for Alkalinity only (documented special case: as CaCO3 = equivalent weight)
    a = (" as=%s" % d["as"] if el.lower().startswith("alk") else " as") if d.get("as") else ""
    return t + a + (" gfw" if d.get("gfw") is not None else "")


def fingerprint(case):
    fam = case["fam"]
    b = case["base"]
    if fam == "units":
        # the conversion of the input happens before any chemistry: the mechanism is (denominator, unit kind, as/gfw),
        # not the base input
        per = case.get("per", {})
        if not per:
            what = "default=%s" % case.get("default")
        elif len(per) == 1:
            (el, d), = per.items()
            what = "per-element " + unit_class(el, d)
        else:
            what = "per-element mixed"
        return "units den=%s %s%s%s" % (case.get("den", "kgw"), what,
                                        " density=%s" % ("calc" if case["density"][1] else "fixed") if case.get("density") else "",
                                        " spread" if case.get("spread") else "")
    if fam == "water":
        return "water-scale base=%s%s" % (b, (" den=%s" % case["den"]) if case.get("den") else "")
    if fam == "renum":
        return "renumber kinds=%s base=%s" % ("+".join(sorted(case["maps"])) if len(case["maps"]) < 3 else "all", b)
    if fam == "permb":
        return "block-order base=%s" % b
    if fam == "permc":
        return "constituent-order block=%s base=%s" % (bases()[b]["sims"][case["sim"]][case["blk"]]["k"], b)
    if fam == "permlines":
        return "body-line-order block=SOLUTION base=%s" % b
    if fam == "dup":
        return "duplicate-definition block=%s where=%s base=%s" % (bases()[b]["sims"][case["sim"]][case["blk"]]["k"], case["where"], b)
    if fam == "spread":
        # reading the spreadsheet happens before any chemistry: the mechanism does not depend on the base input
        return "solution-spread mode=%s%s" % (case["mode"], " water-column" if case.get("water") is not None else "")
    if fam == "mixseq":
        return "mix-sequential base=%s" % b
    if fam == "selfmix":
        return "self-mix how=%s base=%s" % (case["how"], b)
    if fam == "mixwater":
        return "mix water-mass-vs-fraction base=%s" % b
    if fam == "mixsplit":
        return "mix fraction-given-in-several-lines base=%s" % b
    return "%s base=%s" % (fam, b)


def run_case(case):
    W = weights()
    base = bases()[case["base"]]
    ref_m, var_m, info = build_pair(case)
    head = c15_bases.trailer(base["obs"])
    ref_t = head + cm.render(ref_m, W)
    var_t = head + cm.render(var_m, W)
    ref = run_text(ref_t)
    var = run_text(var_t)
    problems, diags = [], []
    fp = fingerprint(case)
    not_completed = False
    ops = 2
    if ref["rc"] != 0 or not ref["rows"]:
        # the reference description itself does not complete: nothing to compare (counted; a floor guards vacuity)
        not_completed = True
        diags.append("reference does not complete: %s: %s" % (json.dumps(case, sort_keys=True), ref["err"][:200]))
    elif var["rc"] != 0:
        problems.append((fp + " : error in one description only",
                         "reference input completes, the equivalent input fails:\n%s\n--- reference input\n%s--- equivalent input\n%s" % (
                             var["err"][:600], ref_t, var_t)))
    else:
        bad, soft, structural = compare(case["base"], ref, var, info)
        for h, k, x, y, kind in soft[:2]:
            diags.append("redox-derived quantity outside 1e-8 (not claimed, see REDOX): %s %s row %s reference %r equivalent %r" % (fp, h, k, x, y))
        what = None
        if structural:
            what = structural
        elif bad:
            worst = max(bad, key=lambda t: (abs(t[2] * (info["factor"] if t[4][0] == "x" else 1.0) - t[3]) / max(abs(t[3]), abs(t[2] * (info["factor"] if t[4][0] == "x" else 1.0)), 1e-300))
                        if isinstance(t[2], (int, float)) and isinstance(t[3], (int, float)) else 1e9)
            lines = ["%d of the compared cells differ by more than 1e-8 relative (factor for extensive cells: %r)" % (len(bad), info["factor"])]
            for h, k, x, y, kind in bad[:8] + ([worst] if worst not in bad[:8] else []):
                lines.append("  %-14s row %s  reference %r  equivalent %r  (%s)" % (h, k, x, y, "extensive" if kind[0] == "x" else "intensive"))
            what = "\n".join(lines)
            if case["fam"] == "water":
                # part of the system that deviates + size class of the deviation: a wrong factor gives deviations far
                # above 1e-7, the fixed-volume-gas finding (see report) stays below
                dev = max(abs(t[2] * (info["factor"] if t[4][0] == "x" else 1.0) - t[3]) / max(abs(t[3]), 1e-300) for t in bad)
                groups = sorted(set(obs_group(t[0]) for t in bad))
                size = "<1e-7" if dev < 1e-7 else ">=1e-7"
                fixed_volume_gas = any(b["k"] == "GAS_PHASE" and b["kind"] == "fixed_volume" for sim in base["sims"] for b in sim)
                if groups == ["gas-pressure"] and fixed_volume_gas and dev < 1e-7:
                    # one demonstrated mechanism (module docstring): the same line whatever the base input
                    fp = "water-scale fixed-volume-gas reported-pressure maxdev<1e-7"
                else:
                    fp += " failing=%s maxdev%s" % ("+".join(groups), size)
        if what and case["fam"] == "units" and len(case.get("per", {})) > 1 and not case.get("_sub"):
            # several elements carry their own unit: name the single description that fails on its own, if one does
            for el in sorted(case["per"]):
                sub = dict(case, per={el: case["per"][el]}, _sub=True)
                r = run_case(sub)
                ops += r["ops"]
                if r["problems"]:
                    fp = r["problems"][0][0]
                    what += "\n(the deviation is reproduced by the description of %s alone)" % el
                    break
        if what:
            what += "\n--- reference input\n%s--- equivalent input\n%s" % (ref_t, var_t)
            if info["diag_only"]:
                diags.append("%s: %s" % (fp, what.splitlines()[0]))
            else:
                problems.append((fp, what))
    rows = var["rows"]
    outcome = core.sha(repr([[("%.5e" % v) if isinstance(v, float) else v for v in r.values()] for r in rows]) + str(var["rc"]))
    sample = {"case": case, "rc": [ref["rc"], var["rc"]], "rows": len(rows),
              "last_row": {k: rows[-1][k] for k in list(rows[-1])[:9]} if rows else None,
              "reference_input": ref_t[len(head):][:900], "equivalent_input": var_t[len(head):][:900]}
    res = {"case": case, "problems": problems, "ops": ops, "states": [core.sha(var_t)], "outcome": outcome,
           "not_completed": not_completed, "script": ref["script"] + var["script"], "diagnostics": diags}
    if case.get("_sample"):
        res["sample"] = sample
    return res


# ------------------------------------------------------------------------------------------------ enumeration
def unit_cases(name, base, tier):
    out = []
    W = weights()
    sols = blocks_of(base["sims"], "SOLUTION")
    thorough = tier == "thorough"
    for si, (_, _, b) in enumerate(sols):
        els = [e["el"] for e in b["els"]]
        full = thorough or name in ("spec", "specx")      # quick: the complete family on the two speciation bases
        for den in ("kgw", "l", "kgs"):
            fam_units = FAMILY_UNITS[den]
            densities = [None]
            if den == "l":
                densities = [None, (1.02, False), (1.0, True)] if full else [None, (1.0, True)]
            for dens in densities:
                def mk(**kw):
                    c = {"base": name, "fam": "units", "sol": si, "den": den}
                    if dens is not None:
                        c["density"] = list(dens)
                    c.update(kw)
                    return c
                # (a) default unit of the block
                for u in fam_units:
                    out.append(mk(default=u))
                if not full and den != "kgw":
                    continue
                # (b) one element in its own unit, the others in the default
                for el in els:
                    alk = el.lower().startswith("alk")
                    for u in fam_units + (ALK_EQ[den] if alk else []):
                        if u in ("ppt", "ppm", "ppb") and not full:
                            continue
                        for default in ([None, fam_units[1]] if full else [None]):
                            out.append(mk(per={el: {"unit": u}}, **({"default": default} if default else {})))
                # (c) "as" formulas, (d) gfw overrides: mass units only.  Per kg water the reference is the plain mol/kgw
                # description.  Per litre / per kg solution the stated formula also fixes the solute mass that enters the
                # conversion to kg water, so there the reference carries the same formula in another mass unit.
                mass = [u for u in fam_units if "g/" in u or u.startswith("pp")]
                for el in els:
                    for formula in AS.get(el, []):
                        if den == "kgw":
                            for u in (mass if full else mass[1:2]):
                                out.append(mk(per={el: {"unit": u, "as": formula}}))
                            out.append(mk(default=mass[1], per={el: {"as": formula}}))
                        else:
                            for u in mass[1:]:
                                out.append(mk(per={el: {"unit": u, "as": formula}}, ref_per={el: {"unit": mass[0], "as": formula}}))
                    for g in (GFWS if full else GFWS[:1]):
                        if den == "kgw":
                            for u in (mass if full else mass[1:2]):
                                out.append(mk(per={el: {"unit": u, "gfw": g}}))
                            out.append(mk(default=mass[1], per={el: {"gfw": g}}))
                        else:
                            for u in mass[1:]:
                                out.append(mk(per={el: {"unit": u, "gfw": g}}, ref_per={el: {"unit": mass[0], "gfw": g}}))
                # (e) every element in its own unit: all cyclic assignments
                allu = fam_units
                for shift in range(len(allu)):
                    per = {}
                    for i, el in enumerate(els):
                        per[el] = {"unit": allu[(i + shift) % len(allu)]}
                        if den == "kgw" and AS.get(el) and "g/" in per[el]["unit"]:
                            per[el]["as"] = AS[el][(i + shift) % len(AS[el])]
                    out.append(mk(per=per))
    return out


def water_cases(name, base, tier):
    fs = [1e-3, .1, 10.0, 1e3] if tier == "quick" else [1e-3, 1e-2, .1, .3, .5, 2.0, 7.0, 10.0, 100.0, 1e3]
    out = [{"base": name, "fam": "water", "f": f} for f in fs]
    # the same scaling of a solution stated per litre or per kg solution (the conversion to kg water meets -water f)
    fd = [.1, 10.0] if tier == "quick" else [1e-2, .1, .5, 2.0, 10.0, 100.0]
    out += [{"base": name, "fam": "water", "f": f, "den": den} for den in ("l", "kgs") for f in fd]
    return out


def renum_cases(name, base, tier):
    out = []
    used = used_numbers(base["sims"])
    allnums = sorted(set(n for v in used.values() for n in v))
    targets = [1, 2, 3, 5, 9] if tier == "thorough" else [2, 5, 9]
    # one map applied to all kinds
    for img in itertools.permutations(targets, len(allnums)):
        mp = dict(zip(allnums, img))
        if all(k == v for k, v in mp.items()):
            continue
        out.append({"base": name, "fam": "renum", "maps": {k: {str(a): mp[a] for a in v} for k, v in used.items()}})
    # one kind renumbered alone
    for k, v in used.items():
        for img in itertools.permutations([2, 5, 9], len(v)):
            out.append({"base": name, "fam": "renum", "maps": {k: {str(a): b for a, b in zip(v, img)}}})
    return out


def perm_cases(name, base, tier):
    out = []
    full_b = 4 if tier == "quick" else 6
    full_c = 4 if tier == "quick" else 6
    for i, sim in enumerate(base["sims"]):
        if len(sim) > 1:
            for p in bounded_perms(len(sim), full_b):
                if p != list(range(len(sim))):
                    out.append({"base": name, "fam": "permb", "sim": i, "perm": p})
        for j, b in enumerate(sim):
            key = constituents(b)
            if key and len(b[key]) > 1:
                for p in bounded_perms(len(b[key]), full_c):
                    if p != list(range(len(b[key]))):
                        out.append({"base": name, "fam": "permc", "sim": i, "blk": j, "perm": p})
            if b["k"] == "SOLUTION":
                nlines = len(cm.render_solution(b, weights())) - 1
                for r in range(1, nlines):
                    out.append({"base": name, "fam": "permlines", "sim": i, "blk": j, "perm": list(range(r, nlines)) + list(range(r))})
    return out


def dup_cases(name, base, tier):
    out = []
    for i, sim in enumerate(base["sims"]):
        for j, b in enumerate(sim):
            if b["k"] in ("RAW",):
                continue
            for w in ("adjacent", "end", "start", "prev_sim"):
                if w == "prev_sim" and (b["k"] in ("USE", "SAVE", "MIX") or b.get("equil") is not None):
                    continue     # actions (not definitions), and definitions that need a solution which does not exist yet
                out.append({"base": name, "fam": "dup", "sim": i, "blk": j, "where": w})
    return out


def spread_cases(name, base, tier):
    out = []
    for mode in ("each", "joint"):
        out.append({"base": name, "fam": "spread", "mode": mode})
        for f in ([.5] if tier == "quick" else [1e-3, .5, 3.0, 1e3]):
            out.append({"base": name, "fam": "spread", "mode": mode, "water": f})
        for u in UNITS_KGW:
            out.append({"base": name, "fam": "units", "sol": "all", "den": "kgw", "default": u, "spread": mode})
        # per-element descriptions in the units line of the spreadsheet
        els = []
        for _, _, b in blocks_of(base["sims"], "SOLUTION"):
            for e in b["els"]:
                if e["el"] not in els:
                    els.append(e["el"])
        for shift in range(6 if tier == "thorough" else 2):
            per = {}
            for i, el in enumerate(els):
                per[el] = {"unit": UNITS_KGW[(i + shift) % 6]}
                if AS.get(el) and "g/" in per[el]["unit"]:
                    per[el]["as"] = AS[el][(i + shift) % len(AS[el])]
                elif "g/" in per[el]["unit"] and (i + shift) % 2:
                    per[el]["gfw"] = GFWS[(i + shift) % 3]
            out.append({"base": name, "fam": "units", "sol": "all", "den": "kgw", "per": per, "spread": mode})
    return out


def mix_cases(name, base, tier):
    out = []
    if name not in ("mix", "mixiso"):
        return out
    for order in itertools.permutations([1, 2, 3]):
        for first in (True, False):
            out.append({"base": name, "fam": "mixseq", "order": list(order), "first": first})
    fr = [.5, 2.0, .1] if tier == "quick" else [1e-3, .1, .25, .5, .75, 2.0, 10.0, 1e3]
    for f in fr:
        out.append({"base": name, "fam": "selfmix", "how": "fraction", "f": f})
    for f in ([.5, 2.0, 10.0] if tier == "quick" else [1e-3, .1, .25, .5, 2.0, 3.0, 10.0, 1e3]):
        for k in (1, 2, 3):
            out.append({"base": name, "fam": "mixwater", "sol": k, "f": f})
    for k in (1, 2, 3):
        for parts in ([[.5, .5], [.25, .35, .4]] if tier == "quick" else [[.5, .5], [.25, .35, .4], [.9, .1], [.125] * 8]):
            out.append({"base": name, "fam": "mixsplit", "sol": k, "parts": parts})
    fr2 = [.5, .3] if tier == "quick" else [.01, .1, .25, .3, .5, .75, .9, .99]
    for how in ("copyblock", "copykeyword"):
        for f in fr2:
            for first in (True, False):
                out.append({"base": name, "fam": "selfmix", "how": how, "f": f, "first": first})
    return out


FAMILIES = [("identity", lambda n, b, t: [{"base": n, "fam": "identity"}]), ("units", unit_cases), ("water", water_cases),
            ("renumber", renum_cases), ("permutations", perm_cases), ("duplicates", dup_cases), ("solution_spread", spread_cases),
            ("mix", mix_cases)]


def cases(tier):
    out = {}
    for fname, gen in FAMILIES:
        cs = []
        for name, base in bases().items():
            cs += gen(name, base, tier)
        out[fname] = cs
    # evidence samples: one explored case verbatim from six different families (the flag has no other effect)
    for fname, pick in (("units", 200), ("water", 30), ("renumber", 5), ("permutations", 40), ("solution_spread", 3), ("mix", 20)):
        if out.get(fname):
            i = min(pick, len(out[fname]) - 1)
            while i + 1 < len(out[fname]) and out[fname][i]["fam"] == "permlines":      # (diagnostics-only sub-family)
                i += 1
            out[fname][i] = dict(out[fname][i], _sample=True)
    return out


def run(tier):
    ev = core.Evidence(PROP, tier)
    findings = core.Findings(PROP)
    ev.assumptions = [
        "database/%s loads without error; gram formula weights are read from its SOLUTION_MASTER_SPECIES text (column 4 = default formula "
        "or weight for mass units, column 5 = element weight), nothing numeric is taken from the engine source" % DBNAME,
        "manual semantics used by the unit oracle: prefixes m=1e-3 u=1e-6; mass units divide by the gram formula weight; 'as F' uses the formula "
        "weight of F; 'gfw x' uses x; Alkalinity 'as CaCO3' means the equivalent weight (half the formula weight); Alkalinity in mol = equivalents; "
        "ppt/ppm/ppb = g/mg/ug per kg solution",
        "per-litre and per-kg-solution units are compared only within one denominator (same density keyword): the relation to mol/kgw depends on the "
        "engine's solute-mass convention and is not claimed",
        "a number written with repr() (17 significant digits) is read back exactly by the input parser",
        "each description is run on a freshly loaded database; identical input text is run once per worker process and reused (determinism: C06)",
        "kinetic integration tolerance (-tol, moles) is an extensive amount and is scaled with the system",
        "rows are matched by (simulation, state, step, solution number mapped back through the renumbering)",
        "all runs use SELECTED_OUTPUT -high_precision, which (manual) sets the solver's convergence_tolerance to 1e-12, the tightest "
        "setting that converges on all bases (1e-14 does not); results are compared at that solver setting",
        "taken from the implementation (model.cpp residuals, step.cpp add_mix), used only to justify the two documented non-claims REDOX and "
        "MIXTEMP, never to compute an expected value: the H/O balance residual is tested relative to the moles of H and O; the "
        "temperature of a mixture is the water-mass-weighted mean of its parts",
        "no numeric constant is taken from the engine source",
    ]
    pool = core.Pool()
    # hard deadlines (the tiers need ~15 s / ~1 min on 16 workers): a tier that is cut stops before the next family,
    # marks the cut and all later families as not completed => exhaustive:false, exit code from the completed part
    dl = core.Deadline(150 if tier == "quick" else 780)
    allc = cases(tier)
    done = True
    total = 0
    for fname, _ in FAMILIES:
        cs = allc[fname]
        total += len(cs)
        if done:
            done = core.explore_cases(cs, run_case, ev, findings, pool, chunksize=4, deadline=dl)
            ev.bound("family %s: %d paired runs over %d base inputs" % (fname, len(cs), len(set(c["base"] for c in cs))), done, cases=len(cs))
        else:
            ev.bound("family %s: %d paired runs" % (fname, len(cs)), False, cases=len(cs))
    pool.close()
    ev.extra["lattice_points"] = total
    ev.extra["lattice_points_per_family"] = {f: len(allc[f]) for f, _ in FAMILIES}
    ev.extra["paired_runs_executed"] = ev.traces
    ev.extra["completed_runs"] = ev.traces - ev.not_completed
    ev.extra["not_completed_runs"] = ev.not_completed
    ev.extra["bases"] = {n: b["kinds"] for n, b in bases().items()}
    ev.extra["tolerance"] = {"relative": TOL, "zero": TINY}
    # vacuity guards
    if done and ev.traces and ev.not_completed > 0.02 * ev.traces:
        raise SystemExit("C15 harness error: %d of %d reference runs do not complete" % (ev.not_completed, ev.traces))
    if done and len(ev.outcomes) < 30:
        raise SystemExit("C15 harness error: only %d distinct outcomes" % len(ev.outcomes))
    return core.finish(ev, findings)


def replay(path):
    return core.replay_main(PROP, path, run_case)
