"""C20  Surface complexation obeys site balance, electrostatic mass action, charge laws.

Shape L.  Every bound is a full Cartesian lattice  surface definition x (sites, area, mass) x pH x background ionic
strength x sorbates x electrostatic model x way the surface is brought into the system x temperature; every point is
one RunString on the real library (fresh instance + database per point); every calculation of the run in which a
SURFACE takes part (initial surface calculation, batch reaction, kinetic steps) is judged by an oracle that re-evaluates
the relations of the property statement from the database text (mc/oracles/surf_ref.py) and the reported numbers
(USER_PUNCH: full doubles from the selected-output value table).

Database dimension: besides phreeqc.dat (+ the user-defined site types below), whose Hfo sorbates are all *primary* master
species, the lattice runs Hfo_w / Hfo_s of wateq4f.dat and minteq.v4.dat with sorbate sets whose elements are entered as
TOTALS together with a pe (8, 4, 0), so that they are redox-active in the calculation.  Their sorbing species is then a
secondary redox state of the element (SeO3-2 / HSeO3-, H3AsO3, Co+2, Cr(OH)2+, Sn(OH)2: every valence-state master
species of the SOLUTION_MASTER_SPECIES text that differs from the element's master), or - at low pe, where the engine
takes another valence state as the basis - the element's own master (selenate, arsenate, chromate).  The engine rewrites
such a species' mass-action equation with electrons; the oracle does not: relation (2) is always evaluated with the
reaction AS WRITTEN in the database text, dz from the charges written there.  run() asserts (vacuity) that every such
species of each database was judged under each electrostatic model kind of the bound.

Surfaces related to a reactant (modes "phase", "kin", "kinm"; `hist`): the defined sites of such a surface are
sites-per-mole x the CURRENT moles of the related equilibrium phase / kinetic reactant, in every calculation in which the
reactant takes part (EQUI() / KIN() of that calculation; in the initial surface calculation, where the reactant is absent,
the moles the reactant is defined with: -m, which defaults to -m0).  Besides the single-run modes the lattice has
 * "kinm": KINETICS with -m = mfrac x -m0 (0.4, 2.5): current and initial moles differ from the first calculation on;
 * `hist` (a sequence over the keyword alphabet HIST, exhaustively to the depth of the bound): simulation 1 runs the
   reaction (m moves away from m0) and SAVEs solution, surface (and phase assemblage; kinetics are kept by the engine);
   then, per history element, one simulation that contains only that keyword - an unrelated SURFACE 2 / KINETICS 2 /
   EQUILIBRIUM_PHASES 2, a *_MODIFY of the related surface / reactant that leaves the amounts alone, a *_MODIFY that
   sets the reactant's moles (the sites have to follow), or nothing (control) - and one simulation that USEs the saved
   solution, surface and reactant again and SAVEs again.  Every calculation of every using simulation is judged.
 Site balance is judged on the explicit sum of the species AND on the engine's read-out SURF(site type, surface); a
 failure of the species sum is fingerprinted "site-balance model= mode=<mode>[+history after=<keywords so far>]", a
 failure of the read-out alone "site-balance SURF() ...".  run() asserts (vacuity) that related rows whose reactant
 moved away from its defined moles and rows of later simulations of a history were judged.

Several charge structures in one SURFACE block (surfaces "sw+u", "u+sw": Hfo_w/Hfo_s of the database + the user-defined
Oxi_a; "c+g", "g+c": the CD-MUSIC surfaces Cdm + Goe; both orders of the two in the block): the engine keeps one potential
unknown, one charge-balance row and - with an explicit diffuse layer - one diffuse-layer composition PER charge structure.
Each structure has its own area and mass (GEOM_SHIFT) and its own capacitance(s) (-ccm / -capacitances after its first site
type, CAP_FACT).  Every relation below is judged per structure: site balance per site type, mass action with the potential
of the species' own structure, charge density from the species of the structure (on ITS area) against the charge-potential
relation at ITS reported potential, and the ion excess of ITS diffuse layer against ITS charge.  Fingerprints of such a block
carry "surfaces=<sorted names> surface=<the judged one>".  run() asserts (vacuity) that both structures of each pair were
judged under every model kind and that their potentials differed.

Relations (R1: exactly the statement's):
 (1) site balance: species of each site type sum to the defined sites (scaled by the related phase / kinetic reactant);
 (2) mass action of every surface species: log K(T) from the database text, reported log activities of the aqueous
     reactants, mole fraction of sites as the activity of the surface species, Boltzmann factor(s) of the chosen model at
     the reported potential(s) (none for -no_edl; exp(-dz F psi/RT) for DDL / CCM / explicit diffuse layer; the
     three plane potentials with the -cd_music charge distribution for CD-MUSIC);
 (3) charge density from the species = charge/potential relation at the reported potential, 1e-8 relative:
     Gouy-Chapman with reported MU, EPS_R, TK (default DDL, and -donnan in all variants: the Donnan layer is filled to the
     Gouy-Chapman charge of the surface potential, integrate.cpp calc_all_donnan; observed worst 8e-9 where decidable;
     absolute floor: (charge criterion + g-iteration criterion = tolerance x (1 + sum |z| n of the dissolved ions)) x F/A -
     found on the unchanged tree at I = 1 with minteq.v4.dat: 1.3e-13 eq off = 1.35e-8 of 1e-5 eq), C*psi (CCM),
     C1 (psi0-psi1), C2 (psi1-psi2) and the mixed-electrolyte Gouy-Chapman (Grahame) charge at psi2 (CD-MUSIC).
     With -diffuse_layer (Borkovec-Westall integration of the excess, G_TOL-limited; -only_counter_ions truncates it) the
     Gouy-Chapman deviation is only REPORTED ("gouy-chapman-borkovec(reported)": 5e-4 typical, 0.54 worst); that model is
     judged through (4);
 (4) explicit diffuse layer (-diffuse_layer, -donnan, with thickness or debye lengths, -only_counter_ions): net charge
     of the ions reported in the diffuse layer (EDL_SPECIES) + charge of the surface species = 0;
 (4b) the same balance on the engine's other read-outs (modes equil / explicit of the phreeqc.dat lattice, where no element
     is redox-active): EDL(element, surface) summed as charge with formal valences + EDL("charge", surface) (CD-MUSIC:
     + charge1 + charge2) = 0.  A failure caused by a plane-charge read-out that differs from the plane charge summed from
     the species is fingerprinted "... wrong=<read-out>".

Tolerances / regime (calibration, R5):
 * The engine stops iterating when the charge residual is below KNOBS -convergence_tolerance taken ABSOLUTELY (C/m2, or
   eq with an explicit diffuse layer; default 1e-8, 1e-12 with -high_precision), so a run that "completes" can
   legitimately miss a *relative* 1e-8 whenever the charge is small (observed on the unchanged tree: up to 8e-8 relative
   at 1e-12, 2e-5 at the default).  The statement's 1e-8 relative is therefore decided on inputs that ask the solver for
   KNOBS -convergence_tolerance 1e-13 (the tightest value at which nearly every lattice point still converges; at 1e-14
   a quarter of the points fail on "Mass of oxygen has not converged"), which makes it decidable for
   |sigma| >= 1e-5 C/m2.  Below that (a surface within a few microvolts of its point of
   zero charge; counted in `undecidable_n`) the statement's tolerance is not decidable
   and is not claimed; there the check alarms only if the deviation exceeds the convergence tolerance the input asked
   for - which implies a violation of the statement's tolerance too, so no alarm is ever raised where the statement holds.
   The solver's SITE-balance criterion has an absolute floor too: a residual below ineq_tol = 1e-15 mol per site type
   counts as converged whatever the convergence tolerance (model.cpp residuals(): SURFACE unknowns).  The engine books the
   reference charge of a charged master species (CD-MUSIC sites: -0.5) on the DEFINED sites, so in a converged run the
   plane charges summed from the species may differ from the solver's own by |z master| x 1e-15 eq per site type;
   that amount (x F/A for a charge density) is part of the floor of the CD-MUSIC relations (zero for surfaces with
   neutral master species).  Found on the unchanged tree with the 250 m2 goethite surface of mode "kinm" (I = 1, pH 7,
   -donnan): site residuals 8.6e-16 and 6.2e-16 mol -> sigma0+sigma1 = 1.9e-5 C/m2 off by 2.85e-13 C/m2 (1.43e-8 rel).
   A small lattice at the default tolerance (1e-8) is run too; its worst relative residuals and the number of points
   beyond 1e-8 relative are *reported* in the evidence (`default_tolerance_*`), not judged.
 * The statement gives no tolerance for (4).  It is a balance of many signed terms and is judged relative to its gross
   size: |sum| <= 1e-8 * (sum |z n| over the surface species + sum |z n| over the diffuse-layer ions), with the same
   convergence-tolerance rule.  (Relative to the *net* charge it is not decidable on most of the lattice: net charges
   are 1e-7..1e-5 eq, the engine's criterion is 1e-13 eq absolute, and with the Borkovec-Westall integration the
   balance additionally carries the g-iteration error of about convergence_tolerance x moles of dissolved ions.)
 * (1) and (2) carry no tolerance in the statement either; 1e-8 relative is used (observed worst: 3e-10 and 7e-14).
   A surface whose related phase / kinetic reactant is exhausted (0 sites, 0 m2) is judged on (1) only.
 * A cancellation allowance of 64 ulp of the summed magnitudes is added where a value is a sum of signed terms.
 * not judged (R2): runs with rc != 0 / ERROR (zero-charge start with -donnan -only_counter_ions, kinetic integration
   failures at pH 11, ...); they are counted per model/mode, and a floor on the completed fraction guards vacuity.
 * mass action of species occupying more than one site (none on this lattice) is skipped (counted in ma_skipped).

Calibration history (what the first version got wrong; all were defects of the check, none of the library):
 * kinetic mode used a negative rate (precipitating FeOOH out of an iron-free solution): every such input ran into the
   20 s case timeout (the engine does not return within 25 min) - a quarter of the lattice; now the reactant dissolves;
 * the driver log was never reset, so every result carried the scripts of all earlier cases of its worker (quadratic);
 * the CD-MUSIC plane-2 relation summed only the species of H, Na, Cl and the sorbate: dissolved Fe from the related
   phase was missing (2e-8 relative); now every aqueous species (SYS("aq")) is read;
 * 0.1 mmol P at I = 1e-4 cannot be charge balanced by Cl (264 initial solutions failed); now 0.02 mmol;
 * relative 1e-8 against an absolute solver criterion: see "Tolerances" above.
"""
import json
import math
import os

from .. import core, build, phr, drv
from ..oracles import surf_ref as R

PROP = "C20"
TOL = 1e-8                      # the statement's tolerance (relative)
CTOL = 1e-13                    # KNOBS -convergence_tolerance of every judged input (see the module docstring)
CASE_TIMEOUT = 20.0
ULP = 64 * 2.3e-16              # resolution of a sum of doubles (cancellation allowance, see judge())
INEQ_TOL = 1e-15                # the engine's ineq_tol (10^-DBL_DIG; KNOBS -tolerance, not changed by the inputs): absolute
                                # site-balance residual [mol] below which a SURFACE unknown counts as converged

# ------------------------------------------------------------------------------------------------- alphabet
USER_DB = """SURFACE_MASTER_SPECIES
 Oxi_a Oxi_aOH
 Cdm_u Cdm_uOH-0.5
 Goe_uni Goe_uniOH-0.5
 Goe_tri Goe_triO-0.5
SURFACE_SPECIES
 Oxi_aOH = Oxi_aOH
  log_k 0
 Oxi_aOH + H+ = Oxi_aOH2+
  log_k 6.51
  delta_h -12.5 kJ
 Oxi_aOH = Oxi_aO- + H+
  log_k -8.13
  delta_h 21 kJ
 Oxi_aOH + Na+ = Oxi_aONa + H+
  log_k -7.4
 Oxi_aOH + Zn+2 = Oxi_aOZn+ + H+
  log_k -1.52
 Oxi_aOH + Ca+2 = Oxi_aOHCa+2
  log_k 3.2
 Oxi_aOH + SO4-2 + H+ = Oxi_aSO4- + H2O
  log_k 7.1
 Oxi_aOH + PO4-3 + 2H+ = Oxi_aHPO4- + H2O
  log_k 24.0
 Oxi_aOH + PO4-3 + H+ = Oxi_aPO4-2 + H2O
  log_k 17.1
 Cdm_uOH-0.5 = Cdm_uOH-0.5
  -cd_music 0 0 0 0 0
  log_k 0
 Cdm_uOH-0.5 + H+ = Cdm_uOH2+0.5
  -cd_music 1 0 0 0 0
  log_k 9.2
 Cdm_uOH-0.5 + Na+ = Cdm_uOHNa+0.5
  -cd_music 0 1 0 0 0
  log_k -0.6
 Cdm_uOH-0.5 + H+ + Cl- = Cdm_uOH2Cl-0.5
  -cd_music 1 -1 0 0 0
  log_k 8.7
 Cdm_uOH-0.5 + Cl- = Cdm_uOHCl-1.5
  -cd_music 0 0 -1 0 0
  log_k -1.9
 Cdm_uOH-0.5 + Zn+2 = Cdm_uOHZn+1.5
  -cd_music 0.5 1.5 0 0 0
  log_k 4.1
 Cdm_uOH-0.5 + Ca+2 = Cdm_uOHCa+1.5
  -cd_music 0 0 0 0.3 2
  log_k 3.0
 Cdm_uOH-0.5 + H+ + SO4-2 = Cdm_uOSO3-1.5 + H2O
  -cd_music 0.5 -1.5 0 0 0
  log_k 9.4
 Cdm_uOH-0.5 + 2H+ + PO4-3 = Cdm_uOPO2OH-1.5 + H2O
  -cd_music 0.3 -1.3 0 0 0
  log_k 27.6
 Goe_uniOH-0.5 = Goe_uniOH-0.5
  -cd_music 0 0 0 0 0
  log_k 0
 Goe_uniOH-0.5 + H+ = Goe_uniOH2+0.5
  -cd_music 1 0 0 0 0
  log_k 9.2
  delta_h -30 kJ
 Goe_uniOH-0.5 + Na+ = Goe_uniOHNa+0.5
  -cd_music 0 1 0 0 0
  log_k -1.0
 Goe_uniOH-0.5 + H+ + Cl- = Goe_uniOH2Cl-0.5
  -cd_music 1 -1 0 0 0
  log_k 8.75
 Goe_uniOH-0.5 + Zn+2 = Goe_uniOHZn+1.5
  -cd_music 0.6 1.4 0 0 0
  log_k 4.4
 Goe_uniOH-0.5 + Ca+2 = Goe_uniOHCa+1.5
  -cd_music 0 0 0 0.2 2
  log_k 2.9
 Goe_uniOH-0.5 + H+ + SO4-2 = Goe_uniOSO3-1.5 + H2O
  -cd_music 0.5 -1.5 0 0 0
  log_k 9.6
 Goe_uniOH-0.5 + 2H+ + PO4-3 = Goe_uniOPO2OH-1.5 + H2O
  -cd_music 0.25 -1.25 0 0 0
  log_k 27.65
 Goe_triO-0.5 = Goe_triO-0.5
  -cd_music 0 0 0 0 0
  log_k 0
 Goe_triO-0.5 + H+ = Goe_triOH+0.5
  -cd_music 1 0 0 0 0
  log_k 9.2
  delta_h -30 kJ
 Goe_triO-0.5 + Na+ = Goe_triONa+0.5
  -cd_music 0 1 0 0 0
  log_k -1.0
 Goe_triO-0.5 + H+ + Cl- = Goe_triOHCl-0.5
  -cd_music 1 -1 0 0 0
  log_k 8.75
 Goe_triO-0.5 + Ca+2 = Goe_triOCa+1.5
  -cd_music 0 0 2 0 0
  log_k 1.8
 Goe_triO-0.5 + H+ + SO4-2 = Goe_triOHSO4-1.5
  -cd_music 1 0 -2 0 0
  log_k 9.9
"""

# surface definitions: list of (site type, fraction of the base site count)
SURFS = {
    "w": [("Hfo_w", 1.0)],
    "sw": [("Hfo_w", 1.0), ("Hfo_s", 0.025)],
    "u": [("Oxi_a", 1.0)],
    "c": [("Cdm_u", 1.0)],
    # goethite: two site types with CHARGED master species on ONE surface name (one set of plane potentials): the plane-0
    # charge balance has to sum the reference charges of both
    "g": [("Goe_uni", 1.0), ("Goe_tri", 0.78)],
}
ONE_SURFS = list(SURFS)         # blocks with ONE charge structure (one surface name before the underscore)
# blocks with TWO charge structures (surface names Hfo + Oxi, Cdm + Goe), both orders of the two in the block.  The engine
# keeps one potential unknown, one charge-balance row and - with an explicit diffuse layer - one diffuse-layer composition
# PER charge structure; each has its own area and mass (geometry GEOMS[(geom + GEOM_SHIFT) % 3]) and, for CCM / CD-MUSIC,
# its own capacitance(s) (CAPS x CAP_FACT).  Every relation of the statement is judged per charge structure.
SURFS.update({
    "sw+u": [("Hfo_w", 1.0), ("Hfo_s", 0.025), ("Oxi_a", 0.5)],
    "u+sw": [("Oxi_a", 0.5), ("Hfo_w", 1.0), ("Hfo_s", 0.025)],
    "c+g": [("Cdm_u", 1.0), ("Goe_uni", 0.6), ("Goe_tri", 0.47)],
    "g+c": [("Goe_uni", 0.6), ("Goe_tri", 0.47), ("Cdm_u", 1.0)],
})
TWO_SURFS = ["sw+u", "u+sw", "c+g", "g+c"]
GEOM_SHIFT = {"Hfo": 0, "Oxi": 1, "Cdm": 0, "Goe": 2}
CAP_FACT = {"Hfo": 1.0, "Oxi": 0.6, "Cdm": 1.0, "Goe": 1.25}
CDM_SURFS = ("c", "g", "c+g", "g+c")
# (sites mol, specific area m2/g, mass g)
GEOMS = [(2e-4, 600.0, 0.09), (1e-3, 100.0, 1.0), (5e-4, 40.0, 5.0)]
PHS = [7.0, 5.0, 9.0, 3.0, 11.0]
IS = [1e-2, 1e-4, 1.0]
SORB = {
    "none": ("", []),
    "Zn": (" Zn 0.01\n", ["Zn"]),
    "CaSO4": (" Ca 1\n S(6) 1\n", ["Ca", "S"]),
    "PO4": (" P 0.02\n", ["P"]),
}
# electrostatic model -> (SURFACE options, kind)
MODELS = {
    "ddl": ("", "ddl"),
    "noedl": (" -no_edl\n", "noedl"),
    "ccm1": (" -ccm 1.0\n", "ccm"),
    "ccm2": (" -ccm 0.2\n", "ccm"),
    "dl8": (" -diffuse_layer 1e-8\n", "dl"),
    "dl9": (" -diffuse_layer 2e-9\n", "dl"),
    "dloci": (" -diffuse_layer 1e-8\n -only_counter_ions\n", "dl"),
    "don": (" -donnan 1e-8\n", "dl"),
    "dond": (" -donnan debye_lengths 1.5\n", "dl"),
    "donoci": (" -donnan 1e-8\n -only_counter_ions\n", "dl"),
    "cdm": (" -cd_music\n", "cdm"),
    "cdm2": (" -cd_music\n", "cdm"),
    "cdmdon": (" -cd_music\n -donnan 1e-8\n", "cdmdl"),
}
# database dimension: sorbate sets of the other databases.  Elements entered as TOTALS (with pe) are redox-active in the
# calculation; their sorbing species is then a secondary redox state of the element (selenite, arsenite, Co+2, Cr(OH)2+,
# Sn(OH)2 - found from the SOLUTION_MASTER_SPECIES text, surf_ref.SurfDB.secondary_redox_masters) next to sorbates that
# are the element's own master species (selenate, arsenate, Zn+2, SO4-2, UO2+2).  "SeAsv" enters the valence states
# one by one (redox-active only in the batch reaction that follows the initial surface calculation).
BASE_SORB = list(SORB)          # sorbate sets of the phreeqc.dat lattice
SORB.update({
    "Se": (" Se 0.01\n", ["Se"]),
    "As": (" As 0.01\n", ["As"]),
    "SeAsZnS": (" Se 0.01\n As 0.01\n Zn 0.01\n S(6) 1\n Ca 1\n", ["Se", "As", "Zn", "S", "Ca"]),
    "SeAsv": (" Se(4) 0.005\n Se(6) 0.005\n As(3) 0.005\n As(5) 0.005\n", ["Se", "As"]),
    "UFeMn": (" U 0.001\n Fe 0.01\n Mn 0.01\n", ["U", "Fe", "Mn"]),
    "CrCoSn": (" Cr 0.01\n Co 0.01\n Sn 0.001\n", ["Cr", "Co", "Sn"]),
    "HgVSbCu": (" Hg 0.001\n V 0.01\n Sb 0.01\n Cu 0.01\n", ["Hg", "V", "Sb", "Cu"]),
})
DEFAULT_DB = "phreeqc.dat"
# database -> (sorbate sets of its bound, phase the surface can be related to)
DBS = {
    "wateq4f.dat": (["Se", "As", "SeAsZnS", "SeAsv", "UFeMn"], "Fe(OH)3(a)"),
    "minteq.v4.dat": (["Se", "As", "SeAsZnS", "SeAsv", "CrCoSn", "HgVSbCu"], "Ferrihydrite"),
}
PES = [8.0, 4.0, 0.0]
CAPS = {"ccm1": 1.0, "ccm2": 0.2, "cdm": (1.0, 0.2), "cdm2": (0.85, 4.0), "cdmdon": (1.0, 0.2)}
MODES = ["equil", "explicit", "phase", "kin"]
DONNAN = ("don", "dond", "donoci")          # explicit diffuse layer by the Donnan approximation (non CD-MUSIC)
# formal valences for summing EDL(element, surface) as charge (modes without a redox-active element: no Fe)
VALENCE = {"H": 1.0, "O": -2.0, "Na": 1.0, "Cl": -1.0, "Zn": 2.0, "Ca": 2.0, "S": 6.0, "P": 5.0}
REL_PHASE = "Fe(OH)3(a)"
PHASE_MOLES = 1e-3
# mode "kinm": KINETICS with -m different from -m0 (m = mfrac * m0): the sites follow the CURRENT moles m
MFRACS = [0.4, 2.5]
MOD_FRAC = 0.5                  # KINETICS_MODIFY -m / EQUILIBRIUM_PHASES_MODIFY -moles set the reactant to MOD_FRAC * PHASE_MOLES
# multi-simulation histories (case["hist"] = sequence of these): simulation 1 runs the reaction and SAVEs solution, surface
# (and the reactant); every history element is one simulation that contains ONLY the keyword below (no calculation), followed
# by one simulation that USEs the saved solution / surface / reactant again (and SAVEs again).  "none" is the control.
HIST = {
    "kin": {
        "none": "TITLE nothing\n",
        "SURFACE": "SURFACE 2\n Hfo_wOH 0.001 600 1\n",
        "KINETICS": "KINETICS 2\n Ferri\n -formula FeOOH 1\n -m0 1\n -steps 1\n",
        "KINETICS_MODIFY": "KINETICS_MODIFY 1\n -bad_step_max 400\n",
        "SURFACE_MODIFY": "SURFACE_MODIFY 1\n -ddl_viscosity 1\n",
        "KINETICS_MODIFY-m": "KINETICS_MODIFY 1\n -component Ferri\n -m %r\n" % (MOD_FRAC * PHASE_MOLES),
    },
    "phase": {
        "none": "TITLE nothing\n",
        "SURFACE": "SURFACE 2\n Hfo_wOH 0.001 600 1\n",
        "EQUILIBRIUM_PHASES": "EQUILIBRIUM_PHASES 2\n Calcite 0 0\n",
        "EQUILIBRIUM_PHASES_MODIFY": "EQUILIBRIUM_PHASES_MODIFY 1\n -component %(phase)s\n -si 0\n",
        "SURFACE_MODIFY": "SURFACE_MODIFY 1\n -ddl_viscosity 1\n",
        "EQUILIBRIUM_PHASES_MODIFY-moles": "EQUILIBRIUM_PHASES_MODIFY 1\n -component %%(phase)s\n -moles %r\n" % (MOD_FRAC * PHASE_MOLES),
    },
}
HIST["kinm"] = HIST["kin"]
HIST["common"] = {k: v for k, v in HIST["kin"].items() if k in HIST["phase"]}       # none, SURFACE, SURFACE_MODIFY

_db_cache = {}


def dbname(case):
    return case.get("db", DEFAULT_DB)


def surfdb(name=DEFAULT_DB):
    """Surface definitions parsed from the TEXT of the database (+ the user-defined site types with phreeqc.dat)."""
    if name not in _db_cache:
        db = R.SurfDB()
        db.read(open(os.path.join(build.REPO, "database", name), encoding="latin-1").read())
        if name == DEFAULT_DB:
            db.read(USER_DB)
        db.secondary = db.secondary_redox_masters()
        _db_cache[name] = db
    return _db_cache[name]


def rel_phase(case):
    return REL_PHASE if dbname(case) == DEFAULT_DB else DBS[dbname(case)][1]


def block(case):
    """The site types of the SURFACE block in input order:
    [(site type, charge structure, defined sites mol, specific area m2/g, mass g, first site type of its charge structure)].
    In a block with several charge structures each has its own geometry."""
    sdb = surfdb(dbname(case))
    sts = SURFS[case["surf"]]
    multi = len({sdb.surface_name(st) for st, _ in sts}) > 1
    out, seen = [], set()
    for st, frac in sts:
        sn = sdb.surface_name(st)
        g = case["geom"]
        if multi:
            g = (g + GEOM_SHIFT[sn]) % len(GEOMS)
        sites, area, mass = GEOMS[g]
        out.append((st, sn, sites * frac, area, mass, sn not in seen))
        seen.add(sn)
    return out


def caps(case, sn, multi):
    """Capacitance(s) of charge structure sn (CCM: C; CD-MUSIC: (C1, C2))."""
    c = CAPS[case["model"]]
    if not multi:
        return c
    f = CAP_FACT[sn]
    return tuple(x * f for x in c) if isinstance(c, tuple) else c * f


def edl_elements(case):
    """Elements whose EDL(element, surface) read-outs are summed as charge (relation 4b), or None where that sum is not the
    ion excess (a redox-active element in the system: related FeOOH; other databases)."""
    if MODELS[case["model"]][1] not in ("dl", "cdmdl") or case["mode"] not in ("equil", "explicit") or dbname(case) != DEFAULT_DB:
        return None
    return ["H", "O", "Na", "Cl"] + SORB[case["sorb"]][1]


# ------------------------------------------------------------------------------------------------- input text
def layout(case):
    """Column plan of the USER_PUNCH row for this case (the oracle reads by position)."""
    db = surfdb(dbname(case))
    sts = [st for st, _ in SURFS[case["surf"]]]
    names = []
    for st in sts:
        n = db.surface_name(st)
        if n not in names:
            names.append(n)
    species = []
    for st in sts:
        for sp in db.species_of_site(st):
            species.append(sp.name)
    reactants = []
    for spn in species:
        sp = db.species[spn]
        for c, r in sp.lhs + sp.rhs:
            if not db.is_surface(r) and r not in reactants:
                reactants.append(r)
    return {"sites": sts, "surfaces": names, "species": species, "reactants": reactants, "elements": edl_elements(case)}


def build_input(case):
    lay = layout(case)
    ph, I, T = case["pH"], case["I"], case.get("T", 25.0)
    mopt, kind = MODELS[case["model"]]
    mode = case["mode"]
    t = []
    sdb = surfdb(dbname(case))
    relph = rel_phase(case)
    if dbname(case) == DEFAULT_DB:
        t.append(USER_DB)
    mm = I * 1000.0
    t.append("SOLUTION 1\n temp %r\n pH %r\n units mmol/kgw\n" % (T, ph))
    if case.get("pe") is not None:
        t.append(" pe %r\n" % case["pe"])
    if ph > 7.0:
        t.append(" Na %r charge\n Cl %r\n" % (mm, mm))
    else:
        t.append(" Na %r\n Cl %r charge\n" % (mm, mm))
    t.append(SORB[case["sorb"]][0])
    if mode == "phase":
        t.append("EQUILIBRIUM_PHASES 1\n %s 0 %r\n" % (relph, PHASE_MOLES))
    if mode == "kin":
        t.append("RATES\n Ferri\n -start\n 10 SAVE 2e-8 * TIME\n -end\n")
        t.append("KINETICS 1\n Ferri\n -formula FeOOH 1\n -m0 %r\n -steps 3600 in 2 steps\n" % PHASE_MOLES)
    if mode == "kinm":
        t.append("RATES\n Ferri\n -start\n 10 SAVE 2e-8 * TIME\n -end\n")
        t.append("KINETICS 1\n Ferri\n -formula FeOOH 1\n -m %r\n -m0 %r\n -steps 3600 in 2 steps\n" % (case["mfrac"] * PHASE_MOLES, PHASE_MOLES))
    t.append("SURFACE 1\n")
    multi = len(lay["surfaces"]) > 1
    for st, sn, n, sarea, smass, first in block(case):
        nm = sdb.masters[st] if mode == "explicit" else st
        if mode == "phase":
            line = " %s %s equilibrium_phase %r" % (nm, relph, n / PHASE_MOLES)
            if first:
                line += " %r" % (sarea * smass / PHASE_MOLES)
        elif mode in ("kin", "kinm"):
            line = " %s Ferri kinetic_reactant %r" % (nm, n / PHASE_MOLES)
            if first:
                line += " %r" % (sarea * smass / PHASE_MOLES)
        else:
            line = " %s %r" % (nm, n)
            if first:
                line += " %r %r" % (sarea, smass)
        t.append(line + "\n")
        if first and kind in ("cdm", "cdmdl"):
            t.append(" -capacitances %r %r\n" % caps(case, sn, multi))
        if first and kind == "ccm" and multi:
            # -ccm sets the capacitance of the charge structure read last: one line per charge structure
            t.append(" -ccm %r\n" % caps(case, sn, multi))
    if not (kind == "ccm" and multi):
        t.append(mopt)
    if mode != "explicit":
        t.append(" -equilibrate 1\n")
    t.append("SELECTED_OUTPUT 1\n -reset false\n -simulation true\n -state true\n -high_precision true\n")
    p = ["USER_PUNCH 1\n -headings mu eps_r tk water la_h2o relmoles\n"]
    ln = [10]

    def L(s):
        p.append(" %d %s\n" % (ln[0], s))
        ln[0] += 10
    rel = "0"
    if mode == "phase":
        rel = 'EQUI("%s")' % relph
    elif mode in ("kin", "kinm"):
        rel = 'KIN("Ferri")'
    L('PUNCH MU, EPS_R, TK, TOT("water"), LA("H2O"), %s' % rel)
    for s in lay["surfaces"]:
        L('PUNCH ' + ", ".join('EDL("%s","%s")' % (k, s) for k in
                                ("psi", "psi1", "psi2", "sigma", "sigma1", "sigma2", "charge", "charge1", "charge2", "water")))
    # the engine's own read-out of the sites of each site type on its surface
    L('PUNCH ' + ", ".join('SURF("%s","%s")' % (st, sdb.surface_name(st)) for st in lay["sites"]))
    for spn in lay["species"]:
        L('PUNCH MOL("%s"), LA("%s")' % (spn, spn))
    for r in lay["reactants"]:
        L('PUNCH LA("%s")' % r)
    # every aqueous species of the calculation (name, molality): needed for the mixed-electrolyte diffuse-layer charge
    L('t = SYS("aq", cnt, nm$, ty$, mo)')
    L('PUNCH cnt')
    L('FOR i = 1 TO cnt')
    L('PUNCH nm$(i), MOL(nm$(i))')
    L('NEXT i')
    for s in lay["surfaces"]:
        L('t = EDL_SPECIES("%s", cnt, nm$, mo, ar, th)' % s)
        L('PUNCH cnt, ar, th')
        L('FOR i = 1 TO cnt')
        L('PUNCH nm$(i), mo(i)')
        L('NEXT i')
    if lay["elements"]:
        # the engine's read-out of the diffuse-layer content by element
        for s in lay["surfaces"]:
            L('PUNCH ' + ", ".join('EDL("%s","%s")' % (el, s) for el in lay["elements"]))
    t.append("".join(p))
    if case.get("ctol") is not None:
        # after SELECTED_OUTPUT: "-high_precision true" itself sets the tolerance to 1e-12 when it is read
        t.append("KNOBS\n -convergence_tolerance %r\n" % case["ctol"])
    hist = case.get("hist")
    if hist is not None:
        # multi-simulation history: every element is a simulation with one keyword and no calculation, then a simulation
        # that continues the reaction with the saved solution / surface and the (automatically saved) kinetic reactant
        # resp. the saved phase assemblage
        react = "kinetics" if mode in ("kin", "kinm") else "equilibrium_phases"
        save = "SAVE solution 1\nSAVE surface 1\n" + ("SAVE equilibrium_phases 1\n" if mode == "phase" else "")
        t.append(save)
        for h in hist:
            t.append("END\n")
            t.append(HIST[mode][h] % {"phase": relph})
            t.append("END\n")
            t.append("USE solution 1\nUSE surface 1\nUSE %s 1\n" % react + save)
    t.append("END\n")
    return "".join(t)


# ------------------------------------------------------------------------------------------------- oracle
def read_row(case, lay, cells):
    """Positional decoding of one selected-output row (after the 'state' column)."""
    it = iter(cells)

    def nx():
        return next(it)
    o = {}
    o["mu"], o["eps"], o["tk"], o["water"], o["la_h2o"], o["relmoles"] = [nx() for _ in range(6)]
    o["edl"] = {}
    for s in lay["surfaces"]:
        o["edl"][s] = dict(zip(("psi", "psi1", "psi2", "sigma", "sigma1", "sigma2", "charge", "charge1", "charge2", "water"),
                               [nx() for _ in range(10)]))
    o["surf"] = {st: nx() for st in lay["sites"]}
    o["mol"], o["la"] = {}, {}
    for spn in lay["species"]:
        o["mol"][spn] = nx()
        o["la"][spn] = nx()
    for r in lay["reactants"]:
        o["la"][r] = nx()
    na = int(round(nx()))
    aq = {}
    for _ in range(na):
        n = nx()
        aq[n] = nx()
    o["aq"] = aq
    o["dl"] = {}
    for s in lay["surfaces"]:
        cnt = int(round(nx()))
        ar, th = nx(), nx()
        sp = {}
        for _ in range(cnt):
            n = nx()
            sp[n] = nx()
        o["dl"][s] = {"area": ar, "thick": th, "species": sp}
    o["dl_el"] = {}
    if lay["elements"]:
        for s in lay["surfaces"]:
            o["dl_el"][s] = {el: nx() for el in lay["elements"]}
    if any(c is not None for c in it):
        raise RuntimeError("selected-output row longer than the column plan")
    return o


def related_note(case, sites, scale):
    if case["mode"] not in ("phase", "kin", "kinm"):
        return ""
    return " = %.17g sites per mole x %.17g mol of the related reactant" % (sites / PHASE_MOLES, scale * PHASE_MOLES)


def mode_label(case, seg=0):
    """Mode part of a site-balance fingerprint: for a multi-simulation history the keywords that preceded the judged
    calculation are part of the mechanism (the control "none" is not named)."""
    if case.get("hist") is None:
        return case["mode"]
    kws = sorted(set(case["hist"][:seg]) - {"none"})
    return "%s+history after=%s" % (case["mode"], "+".join(kws) or "none")


def judge(case, lay, o, tag, problems, diags, stats, seg=0):
    db = surfdb(dbname(case))
    dbtag = "" if dbname(case) == DEFAULT_DB else " db=%s" % dbname(case)
    blk = block(case)
    nsurf = len(lay["surfaces"])
    # fingerprints of a block with several charge structures name the structures (engine order = sorted) and the judged one
    kind = MODELS[case["model"]][1]
    mode = case["mode"]
    tk = o["tk"]
    water = o["water"]
    # below this absolute deviation (C/m2 resp. eq) the run is converged by the solver's own definition and the
    # statement's relative tolerance is not decidable (module docstring); 0 on the reported-only default-tolerance lattice
    floor = 0.0 if case.get("diag") else float(case.get("ctol") or 1e-12)
    scale = 1.0
    mlabel = mode_label(case, seg)
    if mode in ("phase", "kin", "kinm"):
        if not tag.startswith("i_surf"):
            # sites and area are proportional to the CURRENT moles of the related reactant (EQUI() / KIN() of this
            # calculation)
            scale = o["relmoles"] / PHASE_MOLES
            stats["related_rows_n"] = stats.get("related_rows_n", 0) + 1
            if abs(scale - 1.0) > 1e-6:
                stats["related_rows_moved_n"] = stats.get("related_rows_moved_n", 0) + 1
            if seg > 0:
                stats["history_rows_n"] = stats.get("history_rows_n", 0) + 1
        elif mode == "kinm":
            # in the initial surface calculation the reactant is not part of the calculation and the surface has the
            # amounts given by the reactant's defined current moles (-m; -m0 when -m is not given)
            scale = case["mfrac"]
    la = o["la"]
    if nsurf > 1:
        stats["multi_surface_rows_n"] = stats.get("multi_surface_rows_n", 0) + 1
        psis = [o["edl"][s]["psi"] for s in lay["surfaces"]]
        if kind != "noedl" and min(abs(v) for v in psis) > 1e-6 and abs(psis[0] - psis[1]) > 1e-6:
            stats["multi_surface_distinct_psi_n"] = stats.get("multi_surface_distinct_psi_n", 0) + 1
    for s in lay["surfaces"]:
        sts = [st for st in lay["sites"] if db.surface_name(st) == s]
        edl = o["edl"][s]
        area, mass = [(a, m) for _, sn, _, a, m, f in blk if sn == s and f][0]
        A = area * mass * scale
        stag = "" if nsurf == 1 else " surfaces=%s surface=%s" % ("+".join(sorted(lay["surfaces"])), s)
        ch = [0.0, 0.0, 0.0]          # species-derived charge on planes 0,1,2 [eq] (non CD-MUSIC: all on plane 0)
        chabs = 0.0
        for st, sn, sites_st, _, _, _ in blk:
            if sn != s:
                continue
            defined = sites_st * scale
            tot = 0.0
            for sp in db.species_of_site(st):
                n = o["mol"][sp.name] * water
                if not (o["mol"][sp.name] > 1e-98):
                    n = 0.0
                k = 1.0 if sp.identity else db.site_coef(sp, st)
                tot += k * n
                if kind in ("cdm", "cdmdl"):
                    zm = R.charge(db.masters[st])
                    dz = R.cd_dz(sp)
                    ch[0] += n * (k * zm + dz[0])
                    ch[1] += n * dz[1]
                    ch[2] += n * dz[2]
                    chabs += n * (abs(k * zm + dz[0]) + abs(dz[1]) + abs(dz[2]))
                    if abs(k * zm + sum(dz) - sp.z) > 1e-9:
                        raise RuntimeError("charge bookkeeping of %s inconsistent in the check's own database text" % sp.name)
                else:
                    ch[0] += n * sp.z
                    chabs += n * abs(sp.z)
            # ---- (1) site balance
            if defined <= 0.0:
                # the related phase / kinetic reactant is exhausted: a surface without sites.  Only "species sum to the
                # defined sites (= 0)" is decidable, on the scale of the sites the definition gives per mole of reactant
                stats["vanished_n"] = stats.get("vanished_n", 0) + 1
                if not (tot <= TOL * sites_st):
                    problems.append(("site-balance vanished-surface model=%s mode=%s%s" % (kind, mlabel, stag),
                                     "%s: related reactant has 0 mol, yet species of site type %s sum to %.17g mol" % (tag, st, tot)))
                continue
            stats["site"] = max(stats.get("site", 0.0), R.rel(tot, defined))
            # the engine's own read-out of the same sum
            sf = o["surf"][st]
            stats["site-SURF()"] = max(stats.get("site-SURF()", 0.0), R.rel(sf, defined))
            stats["site-SURF()_n"] = stats.get("site-SURF()_n", 0) + 1
            if not (abs(tot - defined) <= TOL * defined):
                problems.append(("site-balance model=%s mode=%s%s" % (kind, mlabel, stag),
                                 "%s: species of site type %s sum to %.17g mol (SURF(\"%s\",\"%s\") = %.17g mol), defined sites %.17g mol (rel %.3g)%s" % (
                                     tag, st, tot, st, s, sf, defined, R.rel(tot, defined), related_note(case, sites_st, scale))))
            elif not (abs(sf - defined) <= TOL * defined):
                # only the read-out is off (a different mechanism than a wrong number of sites in the calculation)
                problems.append(("site-balance SURF() model=%s mode=%s%s" % (kind, mlabel, stag),
                                 "%s: SURF(\"%s\",\"%s\") = %.17g mol, species sum and defined sites %.17g mol (rel %.3g)%s" % (
                                     tag, st, s, sf, defined, R.rel(sf, defined), related_note(case, sites_st, scale))))
            # ---- (2) mass action of every species of this site type
            master = db.masters[st]
            for sp in db.species_of_site(st):
                if sp.identity:
                    continue
                n = o["mol"][sp.name] * water
                if not (o["mol"][sp.name] > 1e-98):
                    # MOL() of a species that is not part of the calculation (an element is absent) reads 1e-99 / 0
                    continue
                lk = R.logk_T(sp, tk)
                rhs = lk
                ok = True
                dzs = 0.0           # change of surface charge in forming the species, from the equation as written
                for side, sgn in ((sp.lhs, 1.0), (sp.rhs, -1.0)):
                    for c, r in side:
                        if r == sp.name and sgn < 0:
                            continue
                        if db.is_surface(r):
                            if r != master:
                                ok = False
                                continue
                            # activity of a surface species = fraction of the sites of its type it occupies (manual)
                            nr = o["mol"][r] * water
                            if not (nr > 0.0):
                                ok = False
                                continue
                            rhs += sgn * c * math.log10(nr / defined)
                            dzs -= sgn * c * R.charge(r)
                        else:
                            a = la[r]
                            if a is None or a < -99.0:
                                ok = False
                                continue
                            rhs += sgn * c * a
                if not ok:
                    stats["ma_skipped"] = stats.get("ma_skipped", 0) + 1
                    continue
                dzs += sp.z
                if kind in ("ddl", "ccm", "dl"):
                    rhs -= dzs * R.F_C_MOL * edl["psi"] / (R.R_J * tk * R.LN10)
                elif kind in ("cdm", "cdmdl"):
                    dz = R.cd_dz(sp)
                    rhs -= R.F_C_MOL * (dz[0] * edl["psi"] + dz[1] * edl["psi1"] + dz[2] * edl["psi2"]) / (R.R_J * tk * R.LN10)
                k = db.site_coef(sp, st)
                lhs = math.log10(n / defined)
                err = abs(10.0 ** (lhs - rhs) - 1.0)
                stats["ma"] = max(stats.get("ma", 0.0), err)
                stats["ma_n"] = stats.get("ma_n", 0) + 1
                if k != 1.0:
                    stats["ma_skipped"] = stats.get("ma_skipped", 0) + 1
                    continue
                if any(r in db.secondary for _, r in sp.lhs + sp.rhs):
                    # coverage counter (vacuity guard in run()): species whose sorbate is a secondary redox state
                    kk = "ma_sec[%s %s %s]_n" % (dbname(case), kind, sp.name)
                    stats[kk] = stats.get(kk, 0) + 1
                if not (err <= TOL):
                    problems.append(("mass-action model=%s species=%s%s%s" % (kind, sp.name, dbtag, stag),
                                     "%s: %s: log activity from moles %.15g, from log K(%.2f K)=%.6g, reported activities and potential(s) %.15g (ratio-1 = %.3g)" % (
                                         tag, sp.name, lhs, tk, lk, rhs, err)))
                # diagnostic: engine's own LA() of the species against mole fraction
                if la.get(sp.name) is not None and abs(la[sp.name] - lhs) > 1e-6:
                    diags.add("LA(%s) differs from log10(mole fraction of sites) by %.3g (%s)" % (sp.name, la[sp.name] - lhs, kind))
        # ---- (3) charge / potential relation
        if A <= 0:
            continue
        f = R.F_C_MOL / A
        sig = [c * f for c in ch]
        slack = ULP * chabs * f
        aqz = [(R.charge(n), m) for n, m in o["aq"].items()]

        # CD-MUSIC surface with several site types: the fingerprint names them (the plane charges sum the reference
        # charge of every site type - a different mechanism than a one-site-type surface)
        multi = " site-types=%s" % "+".join(sts) if (kind in ("cdm", "cdmdl") and len(sts) > 1) else ""
        if multi:
            if len({R.charge(db.masters[st]) != 0.0 for st in sts}) != 1 or R.charge(db.masters[sts[-1]]) == 0.0:
                raise RuntimeError("multi-site CD-MUSIC surface %s without charged master species" % s)
            stats["cdmusic-multisite_n"] = stats.get("cdmusic-multisite_n", 0) + 1

        # the solver's site-balance criterion accepts an ABSOLUTE residual below ineq_tol = 1e-15 mol per site type
        # whatever the convergence tolerance (model.cpp residuals(), SURFACE unknowns); the engine books the reference
        # charge of a charged master species (CD-MUSIC: -0.5) on the DEFINED sites, so a converged run's plane charges
        # from the species may differ from the solver's own by |z master| x 1e-15 eq per site type: part of the floor
        site_floor = 0.0 if case.get("diag") else INEQ_TOL * sum(abs(R.charge(db.masters[st])) for st in sts)     # eq
        cfloor = floor + site_floor * f

        def cmp(name, got, want, floor=cfloor):
            e = abs(got - want)
            r = R.rel(got, want)
            stats[name] = max(stats.get(name, 0.0), r if (e > slack and TOL * max(abs(got), abs(want)) >= floor) else 0.0)
            stats[name + "_n"] = stats.get(name + "_n", 0) + 1
            if TOL * max(abs(got), abs(want)) < floor:
                stats["undecidable_n"] = stats.get("undecidable_n", 0) + 1
            if not (e <= max(TOL * max(abs(got), abs(want)), floor) + slack):
                problems.append(("charge-law %s model=%s%s%s" % (name, case["model"] if kind == "dl" else kind, multi, stag),
                                 "%s: surface %s: charge density from species %.17g C/m2, from the charge-potential relation %.17g C/m2 (rel %.3g; psi=%.17g V, mu=%.17g, eps_r=%.17g, T=%.17g K)" % (
                                     tag, s, got, want, r, edl["psi"], o["mu"], o["eps"], tk)))
        if nsurf > 1 and kind != "noedl":
            k2 = "surface[%s %s]_n" % (kind, s)
            stats[k2] = stats.get(k2, 0) + 1
        if kind == "ddl":
            cmp("gouy-chapman", sig[0], R.gouy_chapman_sigma(edl["psi"], o["mu"], o["eps"], tk))
        elif kind == "dl" and case["model"] in DONNAN:
            # Donnan approximation: the engine takes the charge the layer has to hold from the Gouy-Chapman relation at
            # the surface potential (integrate.cpp calc_all_donnan), so Gouy-Chapman is the charge-potential relation of
            # this model too; the charge criterion of the solver is in eq here (floor x F/A)
            # plus the g-iteration criterion: the Donnan enrichment factors g(z) count as converged when they move by less
            # than the convergence tolerance (absolute; calc_all_donnan), i.e. the layer's charge is settled to
            # tolerance x sum |z| n over the dissolved ions (3 x the charge criterion at I = 1)
            aq_eq = sum(abs(z) * m for z, m in aqz) * water
            cmp("gouy-chapman-donnan", sig[0], R.gouy_chapman_sigma(edl["psi"], o["mu"], o["eps"], tk),
                floor=(floor * (1.0 + aq_eq) + site_floor) * f)
        elif kind == "dl":
            # -diffuse_layer (Borkovec-Westall integration): reported, not judged (see the module docstring)
            gc = R.gouy_chapman_sigma(edl["psi"], o["mu"], o["eps"], tk)
            stats["gouy-chapman-borkovec(reported)"] = max(stats.get("gouy-chapman-borkovec(reported)", 0.0), R.rel(sig[0], gc))
        elif kind == "ccm":
            cmp("ccm", sig[0], caps(case, s, nsurf > 1) * edl["psi"])
        elif kind in ("cdm", "cdmdl"):
            c1, c2 = caps(case, s, nsurf > 1)
            cmp("cdmusic-plane0", sig[0], c1 * (edl["psi"] - edl["psi1"]))
            cmp("cdmusic-plane1", sig[0] + sig[1], c2 * (edl["psi1"] - edl["psi2"]))
            if kind == "cdm":
                g = R.grahame_sigma(edl["psi2"], aqz, o["eps"], tk)
                if g is not None:
                    slack += ULP * abs(g)
                    cmp("cdmusic-plane2-diffuse", sig[0] + sig[1] + sig[2], g)
        if kind in ("dl", "cdmdl"):
            # ---- (4) explicit diffuse layer: its net ionic charge balances the surface charge
            dl = o["dl"][s]
            q = 0.0
            qabs = 0.0
            for n, m in dl["species"].items():
                z = R.charge(n)
                q += z * m
                qabs += abs(z * m)
            stot = sum(ch)
            e = abs(q + stot)
            gross = qabs + chabs
            r = e / max(gross, 1e-300)
            sl = ULP * gross
            stats["dl-balance"] = max(stats.get("dl-balance", 0.0), r if (e > sl and TOL * gross >= floor) else 0.0)
            stats["dl-balance_n"] = stats.get("dl-balance_n", 0) + 1
            if len(dl["species"]) < 3:
                raise RuntimeError("EDL_SPECIES returned %d species for an explicit diffuse layer" % len(dl["species"]))
            if TOL * gross < floor + site_floor:
                stats["undecidable_n"] = stats.get("undecidable_n", 0) + 1
            if not (e <= max(TOL * gross, floor + site_floor) + sl):
                problems.append(("diffuse-layer-balance model=%s%s" % (case["model"], stag),
                                 "%s: surface %s: charge of surface species %.17g eq, net charge of the ions in the diffuse layer %.17g eq, sum %.3g eq = %.3g of the gross charge %.3g eq" % (
                                     tag, s, stot, q, q + stot, r, gross)))
            if o["dl_el"]:
                # ---- (4b) the same balance on the engine's own read-outs: EDL(element, surface) summed as charge
                # (formal valences) against EDL("charge", surface) (CD-MUSIC: the three plane charges)
                q2 = 0.0
                q2abs = 0.0
                for el, m in o["dl_el"][s].items():
                    q2 += VALENCE[el] * m
                    q2abs += abs(VALENCE[el] * m)
                c2 = edl["charge"] + ((edl["charge1"] + edl["charge2"]) if kind == "cdmdl" else 0.0)
                e2 = abs(q2 + c2)
                gross2 = q2abs + chabs
                sl2 = ULP * gross2
                r2 = e2 / max(gross2, 1e-300)
                stats["dl-balance-EDL()"] = max(stats.get("dl-balance-EDL()", 0.0), r2 if (e2 > sl2 and TOL * gross2 >= floor) else 0.0)
                stats["dl-balance-EDL()_n"] = stats.get("dl-balance-EDL()_n", 0) + 1
                if not (e2 <= max(TOL * gross2, floor + site_floor) + sl2):
                    # CD-MUSIC: name the plane-charge read-out(s) that differ from the plane charge summed from the species
                    # (then the read-out, not the diffuse layer, is what is off: one mechanism whichever structure is hit)
                    wrong = []
                    if kind == "cdmdl":
                        for pl, key in enumerate(("charge", "charge1", "charge2")):
                            if not (abs(edl[key] - ch[pl]) <= max(TOL * chabs, floor + site_floor) + ULP * chabs):
                                wrong.append(key)
                    fp = "diffuse-layer-balance EDL() read-outs model=%s%s" % (case["model"], stag)
                    if wrong:
                        fp = "diffuse-layer-balance EDL() read-outs wrong=%s model=%s surfaces=%s" % ("+".join(wrong), case["model"], "+".join(sorted(lay["surfaces"])))
                    problems.append((fp, "%s: surface %s: EDL(\"charge\"%s) %.17g eq, EDL(element) summed as charge (%s) %.17g eq, sum %.3g eq = %.3g of the gross charge %.3g eq%s" % (
                        tag, s, " + charge1 + charge2" if kind == "cdmdl" else "", c2, " ".join("%s=%.6g" % kv for kv in o["dl_el"][s].items()), q2, q2 + c2, r2, gross2,
                        "".join("; EDL(\"%s\") = %.17g eq, from the species of %s on that plane %.17g eq" % (k, edl[k], s, ch[("charge", "charge1", "charge2").index(k)]) for k in wrong))))
        elif kind == "noedl":
            pass


def run_case(case):
    s = phr.Session(dbname(case))          # fresh instance + database per case: self-contained replay script
    lay = layout(case)
    text = build_input(case)
    problems, diags, stats = [], set(), {}
    try:
        r = s.run(text, timeout=CASE_TIMEOUT)
    except drv.DrvTimeout:
        # the calculation does not complete (R2); a driver that was killed needs a new session
        r = {"rc": None, "err": "TIMEOUT after %g s" % CASE_TIMEOUT, "sel": {}, "heads": {}}
        diags.add("no result within %g s: %s" % (CASE_TIMEOUT, json.dumps(case, sort_keys=True)))
    completed = (r["rc"] == 0 and "ERROR" not in (r["err"] or ""))
    njudged = 0
    states = []
    out_key = []
    sample = None
    if completed:
        heads = r["heads"].get(1, [])
        rows = r["sel"].get(1, [])
        if heads[:2] != ["sim", "state"]:
            raise RuntimeError("selected output without sim, state columns: %r" % heads[:5])
        sim0 = rows[0]["sim"] if rows else 0
        segs = set()
        for k, row in enumerate(rows):
            st = row["state"]
            if st == "i_soln":
                continue
            # simulations of a history: 1st = definition + reaction, then (keyword, continuation) pairs
            dsim = row["sim"] - sim0
            if dsim % 2:
                raise RuntimeError("a calculation in a keyword-only simulation of the history (%s row %d)" % (st, k))
            seg = dsim // 2
            segs.add(seg)
            cells = [row[h] for h in heads[2:]]
            o = read_row(case, lay, cells)
            if sum(o["mol"].values()) <= 0:
                raise RuntimeError("surface calculation row without surface species (%s row %d)" % (st, k))
            tag = "%s#%d" % (st, k)
            judge(case, lay, o, tag, problems, diags, stats, seg)
            njudged += 1
            e = o["edl"][lay["surfaces"][0]]
            out_key.append((st,) + tuple("%.6g" % o["edl"][sn]["psi"] for sn in lay["surfaces"]) + ("%.6g" % o["mu"],))
            states.append(core.sha(repr((st, ["%.10g" % v for v in o["mol"].values()]))))
            if sample is None:
                sample = {"case": case, "state": st, "psi": e["psi"], "sigma_reported": e["sigma"], "mu": o["mu"],
                          "species_mol": {k2: v for k2, v in list(o["mol"].items())[:4]}}
        if njudged == 0:
            raise RuntimeError("completed run without a judged surface calculation: %r" % case)
        if segs != set(range(len(case.get("hist") or ()) + 1)):
            raise RuntimeError("history segments judged %r: %r" % (sorted(segs), case))
    seen, uniq = set(), []
    for p in problems:
        if p[0] not in seen:
            seen.add(p[0])
            uniq.append(p)
    info = {"model": case["model"], "mode": case["mode"] + ("+history" if case.get("hist") is not None else ""), "nc": not completed, "stats": stats, "diag": bool(case.get("diag"))}
    if not completed:
        info["nc_msg"] = nc_message(r["err"] or "")
        info["nc_sample"] = {"case": case, "error": " ".join((r["err"] or "").split())[:240]}
    if case.get("diag"):
        # default-tolerance lattice: reported, not judged (module docstring)
        info["would_fail"] = sorted(p[0] for p in uniq)
        uniq = []
    res = {"case": case, "problems": uniq, "ops": max(njudged, 1), "states": states,
           "outcome": json.dumps([core.sha(repr(out_key)), info]),
           "not_completed": not completed, "script": s.d.script() if uniq else "", "diagnostics": sorted(diags)[:3], "stats": stats}
    if sample is not None:
        res["sample"] = sample
    elif not completed:
        res["sample"] = {"case": case, "not_completed": (r["err"] or "")[:200]}
    return res


def nc_message(err):
    """First informative line of the error string with the numbers masked (a class of not-completed runs)."""
    import re
    for l in err.splitlines():
        l = l.strip()
        if l and l != "ERROR:":
            return re.sub(r"[-+]?\d[\d.]*(e[-+]?\d+)?", "#", " ".join(l.split()))[:100]
    return "?"


# ------------------------------------------------------------------------------------------------- enumeration
def valid(c):
    kind = MODELS[c["model"]][1]
    if "db" in c and (c["sorb"] not in DBS[c["db"]][0] or c["surf"] not in ("w", "sw")):
        raise RuntimeError("lattice point outside the alphabet of %s: %r" % (c["db"], c))
    return (c["surf"] in CDM_SURFS) == (kind in ("cdm", "cdmdl"))


def lattice(**dims):
    keys = list(dims)
    out = []
    for pt in core.product(*[dims[k] for k in keys]):
        c = dict(zip(keys, pt))
        if valid(c):
            out.append(c)
    return out


def bounds(tier):
    """[(name, cases, dimension sets)]; every bound is a complete Cartesian product (minus the surface/model pairs that do
    not exist: CD-MUSIC models need the CD-MUSIC site type and vice versa), ordered simplest-first."""
    surf, sorb, model = list(ONE_SURFS), list(BASE_SORB), list(MODELS)
    small = dict(surf=surf, geom=[0], pH=[5.0, 9.0], I=[1e-2, 1.0], sorb=["none", "CaSO4"], model=model, mode=["equil", "kin"])
    out = []
    plain = [m for m in MODELS if MODELS[m][1] not in ("cdm", "cdmdl")]
    wq, mq = "wateq4f.dat", "minteq.v4.dat"

    def hists(mode, depth):
        """Every keyword sequence of length 1..depth over the history alphabet of the mode, shortest first."""
        out = []
        for n in range(1, depth + 1):
            out += [list(h) for h in core.product(*([list(HIST[mode])] * n))]
        return out
    if tier == "quick":
        d = dict(surf=surf, geom=[0], pH=PHS, I=IS, sorb=sorb, model=model, mode=MODES, T=[25.0], ctol=[CTOL])
        out.append(("25 C, one geometry", d))
        out.append(("wateq4f.dat, redox-active sorbates (totals + pe)",
                    dict(db=[wq], surf=["w", "sw"], geom=[0], pH=PHS, I=IS, pe=PES, sorb=DBS[wq][0],
                         model=["ddl", "noedl", "ccm1", "ccm2"], mode=["equil", "explicit"], T=[25.0], ctol=[CTOL])))
        out.append(("minteq.v4.dat, redox-active sorbates (totals + pe), reduced lattice",
                    dict(db=[mq], surf=["sw"], geom=[0], pH=[7.0, 5.0, 9.0], I=[1e-2, 1.0], pe=[8.0, 0.0], sorb=DBS[mq][0],
                         model=["ddl", "noedl", "ccm1"], mode=["equil", "explicit"], T=[25.0], ctol=[CTOL])))
        out.append(("sites tied to a kinetic reactant with -m different from -m0",
                    dict(surf=surf, geom=[0], pH=PHS, I=IS, sorb=["Zn", "CaSO4"], model=model, mode=["kinm"], mfrac=MFRACS, T=[25.0], ctol=[CTOL])))
        out.append(("sites tied to a kinetic reactant: saved surface used again after a simulation with one keyword",
                    dict(surf=surf, geom=[0], pH=[7.0, 5.0, 9.0], I=[1e-2, 1.0], sorb=["Zn"], model=model, mode=["kin"],
                         hist=hists("kin", 1), T=[25.0], ctol=[CTOL])))
        out.append(("sites tied to a kinetic reactant with -m different from -m0: saved surface used again after a simulation with one keyword",
                    dict(surf=surf, geom=[0], pH=[5.0, 9.0], I=[1e-2], sorb=["Zn"], model=model, mode=["kinm"], mfrac=[MFRACS[0]],
                         hist=hists("kinm", 1), T=[25.0], ctol=[CTOL])))
        out.append(("sites tied to an equilibrium phase: saved surface and phase assemblage used again after a simulation with one keyword",
                    dict(surf=surf, geom=[0], pH=[7.0, 5.0, 9.0], I=[1e-2, 1.0], sorb=["Zn"], model=model, mode=["phase"],
                         hist=hists("phase", 1), T=[25.0], ctol=[CTOL])))
        out.append(("10 C and 60 C, reduced lattice", dict(small, T=[10.0, 60.0], ctol=[CTOL])))
        out.append(("two charge structures in one SURFACE block (own area, mass, capacitance each), both orders; initial surface calculation + batch reaction",
                    dict(surf=TWO_SURFS, geom=[0], pH=PHS, I=IS, sorb=["Zn", "CaSO4"], model=model, mode=["equil", "explicit"], T=[25.0], ctol=[CTOL])))
        out.append(("default convergence tolerance (reported, not judged)", dict(small, T=[25.0], ctol=[1e-8], diag=[1])))
    else:
        d = dict(surf=surf, geom=[0, 1, 2], pH=PHS, I=IS, sorb=sorb, model=model, mode=MODES, T=[25.0], ctol=[CTOL])
        out.append(("25 C, three geometries", d))
        out.append(("wateq4f.dat, redox-active sorbates (totals + pe), two geometries",
                    dict(db=[wq], surf=["w", "sw"], geom=[0, 1], pH=PHS, I=IS, pe=PES, sorb=DBS[wq][0],
                         model=plain, mode=MODES, T=[25.0], ctol=[CTOL])))
        out.append(("minteq.v4.dat, redox-active sorbates (totals + pe)",
                    dict(db=[mq], surf=["w", "sw"], geom=[0], pH=PHS, I=IS, pe=PES, sorb=DBS[mq][0],
                         model=plain, mode=MODES, T=[25.0], ctol=[CTOL])))
        out.append(("wateq4f.dat and minteq.v4.dat at 10 C and 60 C, reduced lattice",
                    dict(db=[wq, mq], surf=["w", "sw"], geom=[0], pH=[5.0, 9.0], I=[1e-2, 1.0], pe=PES, sorb=["Se", "As", "SeAsZnS", "SeAsv"],
                         model=["ddl", "noedl", "ccm1", "don"], mode=["equil", "kin"], T=[10.0, 60.0], ctol=[CTOL])))
        d = dict(surf=surf, geom=[0, 1], pH=PHS, I=IS, sorb=sorb, model=model, mode=MODES, T=[10.0, 60.0, 40.0], ctol=[CTOL])
        out.append(("10, 40 and 60 C, two geometries", d))
        out.append(("sites tied to a kinetic reactant with -m different from -m0, three geometries",
                    dict(surf=surf, geom=[0, 1, 2], pH=PHS, I=IS, sorb=sorb, model=model, mode=["kinm"], mfrac=MFRACS, T=[25.0], ctol=[CTOL])))
        out.append(("sites tied to a kinetic reactant: saved surface used again after simulations with one keyword each, histories of 1 and 2 keywords",
                    dict(surf=surf, geom=[0], pH=PHS, I=[1e-2, 1.0], sorb=["Zn"], model=model, mode=["kin"],
                         hist=hists("kin", 2), T=[25.0], ctol=[CTOL])))
        out.append(("sites tied to a kinetic reactant with -m different from -m0: histories of 1 and 2 keywords",
                    dict(surf=surf, geom=[0], pH=[5.0, 9.0], I=[1e-2], sorb=["Zn"], model=model, mode=["kinm"], mfrac=MFRACS,
                         hist=hists("kinm", 2), T=[25.0], ctol=[CTOL])))
        out.append(("sites tied to an equilibrium phase: saved surface and phase assemblage used again, histories of 1 and 2 keywords",
                    dict(surf=surf, geom=[0], pH=PHS, I=[1e-2, 1.0], sorb=["Zn"], model=model, mode=["phase"],
                         hist=hists("phase", 2), T=[25.0], ctol=[CTOL])))
        out.append(("histories of one keyword with other sorbates and a second geometry",
                    dict(surf=surf, geom=[0, 1], pH=[5.0, 9.0], I=[1e-2, 1.0], sorb=["none", "CaSO4", "PO4"], model=model, mode=["kin", "phase"],
                         hist=hists("common", 1), T=[25.0], ctol=[CTOL])))
        out.append(("two charge structures in one SURFACE block (own area, mass, capacitance each), both orders, three geometries, every way of bringing the surface in",
                    dict(surf=TWO_SURFS, geom=[0, 1, 2], pH=PHS, I=IS, sorb=sorb, model=model, mode=MODES, T=[25.0], ctol=[CTOL])))
        out.append(("two charge structures in one SURFACE block at 10 C and 60 C",
                    dict(surf=TWO_SURFS, geom=[0], pH=[5.0, 9.0], I=[1e-2, 1.0], sorb=["Zn", "CaSO4"], model=model, mode=["equil", "kin"], T=[10.0, 60.0], ctol=[CTOL])))
        out.append(("default convergence tolerance (reported, not judged)",
                    dict(surf=surf, geom=[0], pH=PHS, I=IS, sorb=["none", "CaSO4"], model=model, mode=["equil", "kin"], T=[25.0], ctol=[1e-8], diag=[1])))
    return [(n, lattice(**d), d) for n, d in out]


def cases(tier):
    return [c for _, cs, _ in bounds(tier) for c in cs]


class Ev(core.Evidence):
    """Evidence that also aggregates the per-relation worst residuals (carried in the outcome key)."""

    def __init__(self, prop, tier):
        core.Evidence.__init__(self, prop, tier)
        self.worst = {}
        self.counts = {}
        self.by_model = {}
        self.diag_worst = {}
        self.diag_would_fail = {}
        self.nc_classes = {}
        self.completed = 0
        self.nc_samples = {}

    def outcome(self, key):
        h, info = json.loads(key)
        core.Evidence.outcome(self, h)
        if info["diag"]:
            for k, v in info["stats"].items():
                if not (k.endswith("_n") or k == "ma_skipped"):
                    self.diag_worst[k] = max(self.diag_worst.get(k, 0.0), v)
            for fp in info.get("would_fail", ()):
                self.diag_would_fail[fp] = self.diag_would_fail.get(fp, 0) + 1
            return
        b = self.by_model.setdefault("%s/%s" % (info["model"], info["mode"]), [0, 0])
        b[1 if info["nc"] else 0] += 1
        if info["nc"]:
            self.nc_classes[info["nc_msg"]] = self.nc_classes.get(info["nc_msg"], 0) + 1
            if len(self.nc_samples) < 4:
                self.nc_samples.setdefault(info["nc_msg"], info["nc_sample"])
        else:
            self.completed += 1
        for k, v in info["stats"].items():
            if k.endswith("_n") or k == "ma_skipped":
                self.counts[k] = self.counts.get(k, 0) + v
            else:
                self.worst[k] = max(self.worst.get(k, 0.0), v)


ASSUMPTIONS = [
    "constants taken from the implementation (global_structures.h): F = 96493.5 C/mol, R = 8.31470 J/K/mol, eps0 = 8.854e-12 C2/J/m, reference temperature of log K 298.15 K, 1 kcal = 4.184 kJ",
    "the reported MU, EPS_R, TK, LA() of aqueous species and EDL(psi..) are taken as given (their own correctness is C01/C16)",
    "activity of a surface species = its fraction of the sites of its type (manual); surface name = part of the site-type name before '_'",
    "CD-MUSIC without explicit diffuse layer: the charge behind plane 2 is the mixed-electrolyte Gouy-Chapman (Grahame) charge over ALL aqueous species at psi2, a charge imbalance of the solution being carried by a fictitious monovalent counter ion (convention of the implementation, model.cpp eqns A-6/A-7)",
    "-cd_music dz0 dz1 dz2 f z: the central ion charge z is split f : (1-f) over planes 0 and 1 (manual)",
    "judged inputs ask for KNOBS -convergence_tolerance 1e-13 (the engine's charge residual criterion is absolute); lattice surfaces have >= 2e-4 mol sites",
    "the engine's site-balance criterion accepts an absolute residual below ineq_tol = 1e-15 mol per site type; for CD-MUSIC surfaces (master species with reference charge) |z master| x 1e-15 eq per site type is added to the absolute floor below which the 1e-8 relative tolerance of the plane-charge relations is not decidable",
    "a surface related to an equilibrium phase / kinetic reactant: defined sites = sites per mole x the moles of the reactant in that calculation (EQUI / KIN); in the initial surface calculation the moles the reactant is defined with (-m, default -m0)",
    "EDL_SPECIES moles are the total moles of each ion in the diffuse-layer water",
    "EDL(element, surface) summed as charge uses formal valences H +1, O -2, Na +1, Cl -1, Zn +2, Ca +2, S +6, P +5 (only where no other valence state of these elements is present above 1e-18 mol: modes without FeOOH, pe 4)",
    "-donnan: Gouy-Chapman at the reported surface potential is the model's charge-potential relation (the implementation fills the Donnan layer to that charge); its solver criterion is 1e-13 eq for the charge balance plus 1e-13 x sum |z| n(dissolved ions) for the Donnan enrichment factors, x F/A as a charge density",
    "a SURFACE block with two charge structures: geometry of structure X = GEOMS[(geom + GEOM_SHIFT[X]) % 3], capacitances = CAPS x CAP_FACT[X]; -ccm is given once per structure (it sets the capacitance of the structure read last)",
    "phreeqc.dat Hfo_w / Hfo_s and the user-defined site types of USER_DB; wateq4f.dat and minteq.v4.dat Hfo_w / Hfo_s with every surface species of the database text; vdrv driver and the Python oracle are trusted",
    "mass action is evaluated with the reaction AS WRITTEN in the database text (reactants e.g. SeO3-2, HSeO3-, H3AsO3, Co+2, Cr(OH)2+, Sn(OH)2 with their reported LA()), dz = charge of the product - charge of the surface reactant; how the engine rewrites the reaction in the master species of the current model (electrons when the element is redox-active) is not used",
]


def run(tier):
    ev = Ev(PROP, tier)
    findings = core.Findings(PROP)
    ev.assumptions = list(ASSUMPTIONS)
    pool = core.Pool()
    bs = bounds(tier)
    dl = core.Deadline(110 if tier == "quick" else 1500)
    stopped = False
    for name, cs, dims in bs:
        done = False
        if not stopped and not dl.passed():
            done = core.explore_cases(cs, run_case, ev, findings, pool, chunksize=8, deadline=dl)
        if not done:
            stopped = True
        ev.bound("%s: %d points" % (name, len(cs)), done, cases=len(cs),
                 dims={k: (v if len(v) < 8 else "%d values" % len(v)) for k, v in dims.items()})
    pool.close()
    judged = sum(a + b for a, b in ev.by_model.values())
    sec_counts = {k[7:-3]: v for k, v in sorted(ev.counts.items()) if k.startswith("ma_sec[")}
    surf_counts = {k[8:-3]: v for k, v in sorted(ev.counts.items()) if k.startswith("surface[")}
    ev.counts = {k: v for k, v in ev.counts.items() if not (k.startswith("ma_sec[") or k.startswith("surface["))}
    ev.extra["two_charge_structures_charge_relations_judged(model kind, charge structure)"] = surf_counts
    ev.extra["secondary_redox_sorbate_mass_action_evaluations"] = sec_counts
    ev.extra["databases"] = {DEFAULT_DB: "Hfo_w, Hfo_s + the user-defined site types",
                             **{k: {"sorbates": v[0], "related_phase": v[1], "pe": PES,
                                    "secondary_redox_master_species(database text)": sorted(surfdb(k).secondary)} for k, v in DBS.items()}}
    ev.extra["alphabet"] = {"surfaces": {k: [st for st, _ in v] for k, v in SURFS.items()}, "geometry shift / capacitance factor per charge structure in a two-structure block": [GEOM_SHIFT, CAP_FACT], "geometries(sites mol, m2/g, g)": GEOMS, "pH": PHS, "I": IS,
                            "sorbates": BASE_SORB, "models": {k: " ".join(v[0].split()) or "(default DDL)" for k, v in MODELS.items()},
                            "capacitances": CAPS, "modes": MODES + ["kinm (KINETICS -m = mfrac x -m0)"], "mfrac": MFRACS,
                            "history keywords (one simulation each, between uses of the saved surface)":
                                {m: {k: " ".join(v.split()) for k, v in HIST[m].items()} for m in ("kin", "phase")}}
    ev.extra["lattice_points"] = sum(len(cs) for _, cs, _ in bs)
    ev.extra["judged_runs_completed"] = ev.completed
    ev.extra["judged_runs_not_completed"] = judged - ev.completed
    ev.extra["not_completed_classes"] = dict(sorted(ev.nc_classes.items(), key=lambda kv: -kv[1])[:12])
    ev.extra["not_completed_samples"] = list(ev.nc_samples.values())
    ev.extra["worst_relative_residual_per_relation"] = {k: float("%.3g" % v) for k, v in sorted(ev.worst.items())}
    ev.extra["relations_evaluated"] = ev.counts
    ev.extra["completed_notcompleted_by_model_mode"] = ev.by_model
    ev.extra["default_tolerance_worst_residuals"] = {k: float("%.3g" % v) for k, v in sorted(ev.diag_worst.items())}
    ev.extra["default_tolerance_points_beyond_1e-8"] = ev.diag_would_fail
    print("  worst residuals: %s" % json.dumps(ev.extra["worst_relative_residual_per_relation"]))
    print("  evaluated: %s" % json.dumps(ev.counts))
    print("  completed %d, not completed %d of %d judged lattice points" % (ev.completed, judged - ev.completed, judged))
    # vacuity guards (a broken check is exit 2, never a pass)
    if not stopped:
        if judged and ev.completed < 0.85 * judged:
            raise SystemExit("HARNESS ERROR: only %d of %d runs completed" % (ev.completed, judged))
        for k, (a, b) in ev.by_model.items():
            if a == 0:
                raise SystemExit("HARNESS ERROR: no completed run for %s" % k)
        for rel_n in ("ma_n", "gouy-chapman_n", "ccm_n", "cdmusic-plane0_n", "cdmusic-plane2-diffuse_n", "dl-balance_n", "cdmusic-multisite_n",
                      "site-SURF()_n", "related_rows_moved_n", "history_rows_n", "gouy-chapman-donnan_n", "dl-balance-EDL()_n",
                      "multi_surface_rows_n", "multi_surface_distinct_psi_n"):
            if ev.counts.get(rel_n, 0) < 100:
                raise SystemExit("HARNESS ERROR: relation %s evaluated %d times" % (rel_n, ev.counts.get(rel_n, 0)))
        # blocks with two charge structures: BOTH structures of each pair judged under every model kind with a potential
        for pair, kinds in ((("Hfo", "Oxi"), ("ddl", "ccm", "dl")), (("Cdm", "Goe"), ("cdm", "cdmdl"))):
            for kd in kinds:
                for sn in pair:
                    if surf_counts.get("%s %s" % (kd, sn), 0) < 50:
                        raise SystemExit("HARNESS ERROR: charge structure %s of a two-structure block judged %d times under %s" % (
                            sn, surf_counts.get("%s %s" % (kd, sn), 0), kd))
        # database dimension: every surface species of the bound's database whose database reaction contains a secondary
        # redox master species must have been judged under every electrostatic model kind of the bound
        for name, cs, dims in bs:
            for dbn in dims.get("db", ()):
                sdb = surfdb(dbn)
                sts = sorted({st for sf in dims["surf"] for st, _ in SURFS[sf]})
                els = {e for sb in dims["sorb"] for e in SORB[sb][1]}
                want = [sp.name for st in sts for sp in sdb.species_of_site(st)
                        if any(sdb.secondary.get(r) in els for _, r in sp.lhs + sp.rhs)]
                if len(want) < 3:
                    raise SystemExit("HARNESS ERROR: %s: %d surface species with a secondary redox sorbate found in the database text" % (dbn, len(want)))
                for kd in sorted({MODELS[m][1] for m in dims["model"]}):
                    for spn in want:
                        if sec_counts.get("%s %s %s" % (dbn, kd, spn), 0) < 10:
                            raise SystemExit("HARNESS ERROR: mass action of %s (%s, %s) evaluated %d times" % (
                                spn, dbn, kd, sec_counts.get("%s %s %s" % (dbn, kd, spn), 0)))
        if len(ev.outcomes) < 0.5 * ev.completed:
            raise SystemExit("HARNESS ERROR: %d distinct outcomes for %d completed runs" % (len(ev.outcomes), ev.completed))
    return core.finish(ev, findings)


def replay(path):
    return core.replay_main(PROP, path, run_case)
