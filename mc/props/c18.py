"""C18  Every reported inverse model is a genuine, admissible mole-balance model.

Shape L: complete Cartesian lattices of forward-simulated inverse problems.  A problem = (initial water(s), mixing
fractions, a *true* set of phase transfers with signs) evolved forward on the real library (gives the final pH), then
posed as INVERSE_MODELING with (candidate phases = truth + distractors, dissolve/precipitate constraints, uncertainty
configuration, perturbation of one analysis, option set).  Every model the library reports is re-verified by
mc/oracles/invmodel.py from the problem text, the database text and the two reports (selected-output string,
printed tables); the selected-output *table* is not usable (DESIGN section 7 F3).

Relations judged per reported model (nothing else becomes a VIOLATION):
  delta    every printed adjustment |d| <= declared uncertainty (u*c, or |u| if u < 0; pH: absolute)
  balance  per element: sum_q f_q (c_q + d_q) + sum_p t_p nu_pe = (c + d)_final at print precision, and at 12 digits
           the interval form |sum f c + sum t nu - c_final| <= sum f_q u_q c_q + u_f c_f; exchanger X: sum t nu_X = 0
  sign     f_q >= 0; dissolve-only t >= 0; precipitate-only t <= 0
  range    min <= value <= max for every fraction and transfer (with -range, |value| <= 1000)
  minimal  with -minimal no reported set of phases + solutions strictly contains another reported set (lattice Z lists
           a dispensable initial water - true fraction 0 or 2 % - so that the clause is exercised for solutions too)
  slack    the statement gives none; the declared solver tolerance (1e-10, or -tolerance / 1e-12 with
           -multiple_precision) absolute + 1e-11 relative (12-digit report) + half a unit of the last printed digit.
"At least one model when the truth is admissible" is not in the statement: diagnostic / tally only.

Calibration on the unchanged tree (R5) - ten fingerprints / nine mechanisms break the statement; all are numerical failures of the
double-precision cl1 solver whose status the callers ignore or cannot see (this build has no INVERSE_CL1MP).  Each has
its own fingerprint (constants FP_* in the oracle); every other failure keeps the plain relation fingerprint:
  FP_MINIMAL       minimal_solve() ends with solve_with_mask() and ignores its status: after 'CL1: Roundoff errors' the
                   left-over vector is printed as a 'minimum number of phases' model (fractions -108, 5.9e4 mol CO2 ...)
  FP_RANGE_ERR     range() prints 'Error in subroutine range. Kode = 1' and stores the failed call's x as min / max
  FP_RANGE_PRUNED  members with |value| <= 1e-9 are pruned before range() but still reported: value 8.6e-10 in [0, 0]
  FP_RANGE_H2O / FP_MODEL_H2O  Gypsum + Anhydrite (differ by 2 H2O) with -mineral_water true: cl1 returns kode 0 for a
                   vertex that violates a dissolve-only constraint / lies outside its own range
  FP_RANGE_MIX     >= 2 initial solutions: cl1 inside range() returns kode 0 for a non-optimal bound (value 0.316,
                   range 0.370..0.374; with -tolerance 1e-8 the same model gets 0.309..0.374)
  FP_MINIMAL_TIGHT -tolerance 1e-12 / -multiple_precision: cl1 calls a feasible subset infeasible inside minimal_solve
  FP_DELTA_TINY    (lattice Z) a listed initial water with fraction 1e-10 < f <= 1e-9: print_model prints every solution
                   with |f| > tolerance and delta = (f*delta)/f, a quotient of sub-threshold numbers: Mg 4.012e-04 +
                   -3.404e-05 at 5 % uncertainty (the library's own MaxFracErr says 8.5e-02); data/c18/delta_tiny.case
  FP_DELTA_PRODUCT / FP_SIGN_TINY  (lattice Z, thorough) cl1 returns kode 0 with a fraction of -8e-9 .. 2e-8 for a listed water
                   that the final water does not contain (|f| x concentration < tolerance in every balance row): the
                   fraction is negative beyond -tolerance, and / or the adjustments (f*delta)/f are garbage (K 9.85e-05 +
                   -2.092e-04, Al 1e-06 + 6.8e-05); data/c18/sign_tiny.case, data/c18/delta_product.case
Oracle corrections made during calibration (class b): a transfer with |value| > 1000 is not compared with its range
(the manual defines min / max as the feasible values nearest -/+ 1000, i.e. clipped: Calcite / Aragonite pairs are
unbounded); 'CL1: Roundoff errors' messages that belong to range() calls or to discarded candidate sets are no longer
attributed to the model that follows them.
Not covered: isotope balances (-isotopes), -uncertainty_water, redox elements with several valence states present in the
analyses (element-level -balances entries for S and C, analysed as S(6) / C(4), are covered by configuration U4), databases other than phreeqc.dat.
"""
import itertools
import os

from .. import core, build, phr
from ..oracles import invmodel as im

PROP = "C18"
DBNAME = "phreeqc.dat"

# ------------------------------------------------------------------------------------------------ alphabet
# initial waters, mol/kgw; Cl is the charge-balancing ion in the forward stage (its balanced value is read back)
WATERS = {
    "A": {"pH": 7.6, "Ca": 1.2e-3, "Mg": 0.4e-3, "Na": 0.6e-3, "K": 0.06e-3, "Cl": 0.5e-3, "S(6)": 0.3e-3, "C(4)": 2.4e-3, "Si": 0.2e-3},
    "B": {"pH": 7.0, "Ca": 3e-3, "Mg": 2e-3, "Na": 20e-3, "K": 0.5e-3, "Cl": 18e-3, "S(6)": 4e-3, "C(4)": 3e-3, "Si": 0.3e-3},
    "C": {"pH": 6.3, "Ca": 0.3e-3, "Mg": 0.6e-3, "Na": 0.4e-3, "K": 0.1e-3, "Cl": 0.3e-3, "S(6)": 0.15e-3, "C(4)": 1.5e-3, "Si": 0.5e-3, "Al": 1e-6},
}
WATER_ORDER = ["A", "B", "C"]
# truth groups: phases with relative transfers, dissolution and precipitation magnitudes (mol)
GROUPS = {
    "Calcite": ({"Calcite": 1.0}, 0.5e-3, 0.08e-3),
    "Dolomite": ({"Dolomite": 1.0}, 0.3e-3, 0.05e-3),
    "Gypsum": ({"Gypsum": 1.0}, 0.4e-3, 0.04e-3),
    "Halite": ({"Halite": 1.0}, 1.0e-3, 0.1e-3),
    "CO2(g)": ({"CO2(g)": 1.0}, 0.6e-3, 0.3e-3),
    "Exch": ({"CaX2": -1.0, "NaX": 2.0}, 0.1e-3, 0.05e-3),
    "Weath": ({"K-feldspar": 1.0, "Kaolinite": -0.5}, 0.02e-3, 0.02e-3),
}
GROUP_ORDER = ["Calcite", "Gypsum", "Halite", "CO2(g)", "Dolomite", "Exch", "Weath"]
DISTRACTORS = ["Aragonite", "Anhydrite", "Sylvite", "Chalcedony", "Gibbsite", "MgX2"]
UNIVERSE = ["Calcite", "Dolomite", "Gypsum", "Halite", "CO2(g)", "CaX2", "NaX", "K-feldspar", "Kaolinite"]
# uncertainty configurations: (global list, balances)
UNCS = {
    "U0": ([0.05], None),
    "U1": ([0.01], None),
    "U2": ([0.1, 0.05], [("Ca", [0.02, 0.08]), ("Cl", [0.1])]),
    "U3": ([0.05], [("Na", [-1e-5]), ("pH", [0.1]), ("Alkalinity", [0.02]), ("K", [0.05, 0.1])]),
    # element-level entries for elements whose analyses are valence states (S(6), C(4)): tighter than the global value
    "U4": ([0.1], [("S", [0.02]), ("C", [0.03])]),
}
PERTS = [None, ("Ca", 0.5, "final"), ("Ca", 2.0, "final"), ("Cl", 2.0, "final"), ("C(4)", 0.5, "final"),
         ("Na", 2.0, "first"), ("S(6)", 0.5, "first"), ("Mg", 2.0, "final"), ("K", 0.5, "final"),
         ("S(6)", 1.06, "final"), ("C(4)", 0.94, "final")]        # the last two: between a 2-3 % element-level and a 10 % global uncertainty

# mixing fractions of the dispensable-solution lattice Z: a listed initial water that the final water does not contain
# at all, or holds 2 % of (below the 5 % default uncertainty), as first or as second initial solution
ZFRACS = [[0.0, 1.0], [1.0, 0.0], [0.02, 0.98], [0.98, 0.02]]
ZNAME = "Z dispensable initial solutions: water pair x {0, 2 %} fraction x position x truth x distractor phases x constraints x {-minimal, -range} x uncertainty x {exact, jittered}"
BAL_ELS = ["Ca", "Mg", "Na", "K", "Cl", "S", "C", "Si", "Al"]
_stoich = None
DEADLINE = {"quick": 150, "thorough": 1500}        # hard deadlines (s): the run stops between bounds, exhaustive:false


def stoich():
    global _stoich
    if _stoich is None:
        txt = open(phr.dbpath(DBNAME), encoding="latin-1").read()
        _stoich = im.phases_from_text(txt)
        for p in UNIVERSE + DISTRACTORS:
            if p not in _stoich:
                raise RuntimeError("phase %s not found in the database text" % p)
    return _stoich


def truth_transfers(truth):
    """[(group, sign)] -> {phase: mol}"""
    t = {}
    for g, sign in truth:
        coefs, diss, prec = GROUPS[g]
        amt = diss if sign > 0 else -prec
        for p, c in coefs.items():
            t[p] = t.get(p, 0.0) + amt * c
    return t


# ------------------------------------------------------------------------------------------------ forward stage
_fwd_cache = {}
ELS = ["Ca", "Mg", "Na", "K", "Cl", "S(6)", "C(4)", "Si", "Al"]


def _basic_tot(el):
    return 'TOTMOLE("%s")' % el


def forward(waters, fracs, truth):
    """Evolve on the real library: speciate the end-members (Cl balances charge), mix, add the true transfers as
    elemental amounts.  Returns (list of solution dicts incl. final, diagnostics)."""
    key = (tuple(waters), tuple(fracs), tuple(tuple(x) for x in truth))
    if key in _fwd_cache:
        return _fwd_cache[key]
    st = stoich()
    s = phr.Session(DBNAME)
    t = ["SELECTED_OUTPUT 1", " -reset false", " -user_punch true", " -high_precision true", "USER_PUNCH 1",
         " -headings pH " + " ".join(ELS), " 10 PUNCH -LA(\"H+\")"]
    for i, el in enumerate(ELS):
        t.append(" %d PUNCH %s" % (20 + i, _basic_tot(el)))
    for i, w in enumerate(waters):
        t.append("SOLUTION %d" % (i + 1))
        t.append(" units mol/kgw")
        t.append(" pH %r" % WATERS[w]["pH"])
        for el, v in WATERS[w].items():
            if el == "pH":
                continue
            t.append(" %s %r%s" % (el, v, " charge" if el == "Cl" else ""))
        t.append("END")
    tr = truth_transfers(truth)
    net = {}
    for p, amt in tr.items():
        for el, c in st[p].items():
            if el != "X":
                net[el] = net.get(el, 0.0) + amt * c
    if len(waters) > 1:
        t.append("MIX 1")
        for i, f in enumerate(fracs):
            t.append(" %d %r" % (i + 1, f))
    else:
        t.append("USE solution 1")
    t.append("REACTION 1")
    for el, v in net.items():
        if v != 0:
            t.append(" %s %r" % (el, v))
    t.append(" 1 mol")
    t.append("END")
    r = s.run("\n".join(t) + "\n")
    diags = []
    if r["rc"] != 0 or len(r["sel"].get(1, [])) != len(waters) + 1:
        res = (None, ["forward stage failed rc=%s rows=%d: %s" % (r["rc"], len(r["sel"].get(1, [])), r["err"][:200])])
        _fwd_cache[key] = res
        return res
    rows = r["sel"][1]
    sols = []
    for i, w in enumerate(waters):
        tot = {el: rows[i][el] for el in ELS if rows[i][el] != 0}
        sols.append({"n": i + 1, "pH": rows[i]["pH"], "totals": tot})
    # final totals by arithmetic from the problem definition; the engine's are only cross-checked
    fin = {}
    for el in ELS:
        e = im.element_of(el)
        v = sum(f * sols[i]["totals"].get(el, 0.0) for i, f in enumerate(fracs)) + net.get(e, 0.0)
        if abs(v) < 1e-18:
            v = 0.0
        if v < 0:
            res = (None, ["forward stage: negative total for %s" % el])
            _fwd_cache[key] = res
            return res
        eng = rows[-1][el]
        if abs(eng - v) > 1e-9 * max(abs(v), 1e-12):
            diags.append("forward cross-check: engine total %s = %r, arithmetic %r" % (el, eng, v))
        if v != 0:
            fin[el] = v
    sols.append({"n": len(waters) + 1, "pH": rows[-1]["pH"], "totals": fin})
    res = (sols, diags)
    _fwd_cache[key] = res
    return res


# ------------------------------------------------------------------------------------------------ one case
def build_problem(case):
    waters, fracs, truth = case["w"], case["f"], case["truth"]
    sols, diags = forward(waters, fracs, truth)
    diags = list(diags)
    if sols is None:
        return None, diags
    sols = [dict(s, totals=dict(s["totals"])) for s in sols]
    nsol = len(sols)
    solns = [s["n"] for s in sols]
    tr = truth_transfers(truth)
    cand = case.get("cand")
    if cand is None:
        cand = [p for p in UNIVERSE if p in tr] + list(case.get("distr", []))
    unc, balances = UNCS[case.get("unc", "U0")]
    # every analysed element takes part in the model (elements outside the phases must be listed under -balances)
    balances = list(balances or [])
    listed = set(im.element_of(b[0]) for b in balances)
    for el in BAL_ELS:
        if el not in listed and (el != "Al" or any("Al" in s["totals"] for s in sols) or any("Al" in stoich()[p] for p in cand)):
            balances.append((el, []))
    cons = case.get("cons", "none")
    phases = []
    first = True
    for p in cand:
        e = {"name": p}
        if p in tr and cons in ("ok", "bad", "force", "badcap"):
            c = "dis" if tr[p] > 0 else "pre"
            if cons in ("bad", "badcap") and first:
                c = "pre" if c == "dis" else "dis"
            if cons == "badcap":          # the same constraints spelled out with a capital (input is case-insensitive)
                c = {"dis": "Dissolve", "pre": "Precipitate"}[c]
            e["constraint"] = c
            if cons == "force" and first:
                e["force"] = True
            first = False
        elif p not in tr and cons == "force":
            e["constraint"] = "pre"
        phases.append(e)
    ob = case.get("opts", {})
    inv = {"solns": solns, "unc": unc, "balances": balances, "phases": phases,
           "opts": {"range": bool(ob.get("range")), "minimal": bool(ob.get("minimal")), "tol": ob.get("tol"),
                    "mineral_water": False if ob.get("mw") is False else None, "mp": bool(ob.get("mp"))}}
    problem = {"solutions": sols, "inverse": inv}
    jit = case.get("jit", 0)
    if jit:
        # deterministic jitter of every analysis by at most 0.3 x its declared uncertainty (the truth stays admissible)
        for i, q in enumerate(sols):
            for k, el in enumerate(sorted(q["totals"])):
                sfac = ((i * 7 + k * 3 + jit * 5) % 11 - 5) / 5.0
                u = im.declared_unc(inv, el, q["n"])
                c = q["totals"][el]
                q["totals"][el] = c * (1.0 + 0.3 * u * sfac) if u > 0 else max(c + 0.3 * (-u) * sfac, 0.0)
    pert = case.get("pert")
    if pert:
        el, k, which = pert
        q = sols[-1] if which == "final" else sols[0]
        ug = im.expand(unc, nsol, 0.05)[nsol - 1 if which == "final" else 0]
        u = ug
        for name, us in balances or []:
            if name == im.element_of(el) or name == el:
                if us:
                    u = im.expand(us, nsol, None)[nsol - 1 if which == "final" else 0]
        c = q["totals"].get(el, 0.0)
        q["totals"][el] = c * (1.0 + k * u) if u > 0 else c + k * (-u)
    return problem, diags


def run_case(case):
    problem, diags = build_problem(case)
    if problem is None:
        return {"case": case, "problems": [], "ops": 1, "states": [core.sha(repr(sorted(case.items())))], "outcome": "forward-failed",
                "not_completed": True, "script": "", "diagnostics": diags}
    text = im.render(problem)
    s = phr.Session(DBNAME)          # fresh instance + database; also restarts the driver's command log (= this case's script)
    d = s.d
    d.call("s0", "c", "SetCurrentSelectedOutputUserNumber", 1)
    d.call("s0", "c", "SetSelectedOutputStringOn", 1)
    r = s.run(text, strings="o")
    selstr = d.call("s0", "c", "GetSelectedOutputString")
    script = d.script()
    state = core.sha(repr(sorted(case.items())))
    if r["rc"] != 0 or r["rc"] is None:
        return {"case": case, "problems": [], "ops": 2, "states": [state], "outcome": "error:" + core.sha(r["err"][:200]),
                "not_completed": True, "script": script, "diagnostics": diags + ["inverse run rc=%s: %s" % (r["rc"], r["err"][:160].replace("\n", " "))]}
    problems, info = im.judge(problem, stoich(), r["out"], selstr)
    if not problems:
        diags += info.get("beyond", [])[:1]        # an otherwise clean model with an unbounded transfer (class b, see docstring)
    tr = truth_transfers(case["truth"])
    truth_in = not case.get("pert") and case.get("cons", "none") not in ("bad", "badcap")
    # "at least one model when the truth is admissible" is not part of the statement: counted in the tally only
    outcome = core.sha(repr((info["n_models"], info["sets"])))
    sample = {"case": case, "models": info["n_models"], "sets": info["sets"][:3],
              "first_row": next((l.strip()[:200] for l in selstr.split("\n") if l.strip()[:1].isdigit() or l.strip()[:1] == "-"), "")}
    o = problem["inverse"]["opts"]
    n = info["n_models"]
    tally = {"models_with_range": n if o["range"] else 0, "models_minimal_option": n if o["minimal"] else 0,
             "models_with_constraints": n if any(p.get("constraint") for p in problem["inverse"]["phases"]) else 0,
             "models_mixing(2+ initial solutions)": n if len(problem["solutions"]) > 2 else 0,
             "models_after_range_error_message": sum(1 for a, b in info.get("pre", []) if a),
             "models_after_bare_roundoff_message": sum(1 for a, b in info.get("pre", []) if b),
             "runs_truth_admissible_but_no_model": 1 if truth_in and n == 0 else 0,
             "values_beyond_range_maximum_not_judged": info.get("beyond_range_max", 0)}
    if len(case["w"]) == 2 and min(case["f"]) <= 0.02:
        # lattice Z: is the -minimal clause exercised for SOLUTIONS?  (a reported model that leaves a listed initial
        # water out / keeps the dispensable one)
        ini = ["s%d" % q for q in problem["inverse"]["solns"][:-1]]
        disp = ini[case["f"].index(min(case["f"]))]
        drops = sum(1 for st in info["sets"] if any(q not in st for q in ini))
        keeps = sum(1 for st in info["sets"] if disp in st)
        tally["Z_runs_dispensable_solution_listed"] = 1
        tally["Z_models_without_a_listed_initial_solution"] = drops
        tally["Z_models_with_the_dispensable_solution"] = keeps
        if o["minimal"]:
            tally["Z_minimal_runs_with_models"] = 1 if n else 0
            tally["Z_minimal_models_without_a_listed_initial_solution"] = drops
            tally["Z_minimal_models_with_the_dispensable_solution"] = keeps
    return {"case": case, "problems": problems, "ops": 2, "states": [state], "outcome": outcome, "script": script if problems else "",
            "sample": sample, "diagnostics": diags, "n_models": n, "tally": tally}


# ------------------------------------------------------------------------------------------------ lattices
def sign_patterns(k, full):
    if full:
        return list(itertools.product((1, -1), repeat=k))
    pats = [tuple([1] * k), tuple([-1] * k)]
    if k > 1:
        pats.append(tuple(1 if i % 2 == 0 else -1 for i in range(k)))
    return pats


def truths(maxsize, full_signs):
    out = []
    for k in range(1, maxsize + 1):
        for sub in itertools.combinations(GROUP_ORDER, k):
            for sg in sign_patterns(k, full_signs):
                out.append([[g, s] for g, s in zip(sub, sg)])
    return out


def mixes(tier, w):
    """end-member lists + fractions for initial water w"""
    other = {"A": "B", "B": "C", "C": "A"}[w]
    third = {"A": "C", "B": "A", "C": "B"}[w]
    m = [([w], [1.0]), ([w, other], [0.3, 0.7])]
    if tier == "thorough":
        m.append(([w, other], [0.7, 0.3]))
    return m, ([w, other, third], [0.2, 0.3, 0.5])


def opt_sets(tier):
    tols = [None, 1e-8, 1e-12]
    out = []
    for rng, mnl, tol, mw, mp in itertools.product((1, 0), (0, 1), tols, (None, False), (0, 1)):
        o = {}
        if rng:
            o["range"] = 1
        if mnl:
            o["minimal"] = 1
        if tol is not None:
            o["tol"] = tol
        if mw is False:
            o["mw"] = False
        if mp:
            o["mp"] = 1
        out.append(o)
    return out


def lattices(tier):
    """name -> list of cases; every lattice is a complete product."""
    L = {}
    quick = tier == "quick"
    # S: structure
    S = []
    tr = truths(2, True) if quick else truths(3, False)
    dsets = [[]] + [[x] for x in (DISTRACTORS[:3] if quick else DISTRACTORS)]
    for w in WATER_ORDER:
        mx, triple = mixes(tier, w)
        for ws, fs in mx:
            for t in tr:
                for ds in dsets:
                    for cons in ("none", "ok", "bad", "badcap"):
                        for jit in (0, 1):
                            S.append({"w": ws, "f": fs, "truth": t, "distr": ds, "cons": cons, "opts": {"range": 1}, "jit": jit})
    L["S structure: waters x mixing x truth x distractor x constraints x {exact, jittered analyses}"] = S
    # D: distractor pairs (thorough)
    if not quick:
        D = []
        for t in tr:
            for ds in itertools.combinations(DISTRACTORS, 2):
                D.append({"w": ["A"], "f": [1.0], "truth": t, "distr": list(ds), "cons": "none", "opts": {"range": 1}, "jit": 1})
        L["D distractor pairs"] = D
    # O: options x uncertainties x perturbations
    O = []
    otr = [[["Calcite", 1]], [["Calcite", 1], ["CO2(g)", -1]], [["Gypsum", 1], ["Halite", 1]], [["Exch", 1], ["Calcite", -1]]]
    if not quick:
        otr += [[["Dolomite", 1], ["Gypsum", 1], ["Calcite", -1]], [["Weath", 1], ["CO2(g)", 1]], [["Halite", -1]], [["Exch", -1], ["Dolomite", 1]]]
    ow = ["A"] if quick else ["A", "B"]
    perts = PERTS[:3] if quick else PERTS[:5]
    for w in ow:
        mx, triple = mixes("quick", w)
        for ws, fs in mx:
            for t in otr:
                for o in opt_sets(tier):
                    for u in UNCS:
                        for p in perts:
                            O.append({"w": ws, "f": fs, "truth": t, "distr": ["Aragonite"] if len(t) == 1 else ["Anhydrite"], "cons": "ok",
                                      "opts": o, "unc": u, "pert": list(p) if p else None, "jit": 1})
    L["O options x uncertainty configurations x perturbations"] = O
    # P: all perturbations x constraint modes incl. force (small truth set)
    P = []
    for t in otr[:4]:
        for p in PERTS:
            for cons in ("none", "ok", "bad", "force"):
                for u in ("U0", "U2", "U4") if quick else UNCS:
                    for o in ({"range": 1}, {"range": 1, "minimal": 1}):
                        P.append({"w": ["B", "C"], "f": [0.3, 0.7], "truth": t, "distr": ["Sylvite"], "cons": cons, "opts": o, "unc": u,
                                  "pert": list(p) if p else None, "jit": 2})
    L["P perturbed element x constraint mode"] = P
    # M: four solutions (three end-members)
    M = []
    for w in WATER_ORDER if not quick else ["A"]:
        mx, (ws, fs) = mixes(tier, w)
        for t in truths(2, False) if not quick else truths(1, True):
            for o in ({"range": 1}, {"minimal": 1}, {"range": 1, "mw": False}):
                for u in ("U0", "U1"):
                    for jit in (0, 1):
                        M.append({"w": ws, "f": fs, "truth": t, "distr": [], "cons": "none", "opts": o, "unc": u, "jit": jit})
    L["M four solutions"] = M
    # X: large candidate sets (9 universe phases + up to 3 distractors = 12 candidates)
    X = []
    for t in truths(1, True) if quick else truths(2, False):
        for extra in ([], DISTRACTORS[:3]) if not quick else ([],):
            for o in ({"range": 1}, {"minimal": 1}):
                for jit in (0, 1):
                    X.append({"w": ["A"], "f": [1.0], "truth": t, "cand": UNIVERSE + extra, "cons": "none", "opts": o, "jit": jit})
    L["X large candidate sets (9..12 phases)"] = X
    # Z: dispensable initial solutions.  Two initial waters are listed under -solutions but the final water holds none
    # (true fraction 0: a distractor solution) or 2 % of one of them, in either position; at least one distractor phase
    # is among the candidates; with and without -minimal / -range.  This is where the -minimal clause speaks about
    # SOLUTIONS: a model that keeps the dispensable water next to a reported model without it breaks the statement.
    Z = []
    ztr = [[["Calcite", 1]], [["Calcite", 1], ["CO2(g)", 1]], [["Gypsum", 1], ["Halite", 1]], [["Calcite", 1], ["CO2(g)", 1], ["Gypsum", 1]]]
    zpairs = [["A", "B"], ["B", "C"], ["C", "A"]]
    zdist = [["Sylvite"], ["Dolomite", "Halite"]]
    zunc = ["U0", "U2"]
    if not quick:
        ztr += [[["Dolomite", 1], ["Calcite", -1]], [["Exch", 1], ["Calcite", 1]], [["Halite", 1]], [["Gypsum", 1], ["CO2(g)", -1]]]
        zpairs += [["B", "A"], ["C", "B"], ["A", "C"]]
        zdist += [["Chalcedony"], ["Sylvite", "Dolomite", "Halite"]]
        zunc = list(UNCS)
    for ws in zpairs:
        for fs in ZFRACS:
            for t in ztr:
                tp = truth_transfers(t)
                for ds in zdist:
                    ds = [x for x in ds if x not in tp]
                    for cons in ("none", "ok"):
                        for o in ({"minimal": 1}, {}, {"range": 1, "minimal": 1}, {"range": 1}):
                            for u in zunc:
                                for jit in (0, 1) if quick else (0, 1, 2):
                                    Z.append({"w": ws, "f": fs, "truth": t, "distr": ds, "cons": cons, "opts": o, "unc": u, "jit": jit})
    L[ZNAME] = Z
    for k in L:
        L[k].sort(key=lambda c: (len(c["truth"]), len(c["w"]), len(c.get("distr", c.get("cand", []))), len(c.get("opts", {})), c.get("pert") is not None))
    return L


class _Findings(core.Findings):
    """One VIOLATION line per fingerprint for the whole run (explore_cases is called once per lattice)."""

    def __init__(self, prop):
        core.Findings.__init__(self, prop)
        self._seen = set()

    def report(self, fingerprint, what, replay_text, ext="case"):
        if fingerprint in self._seen:
            if self.match(fingerprint) is not None:
                self.known_hits[fingerprint] = self.known_hits.get(fingerprint, 0) + 1
            return False
        self._seen.add(fingerprint)
        return core.Findings.report(self, fingerprint, what, replay_text, ext)


class _TapPool:
    """Hands core.explore_cases the real pool and counts what the run_case results say (vacuity evidence)."""

    def __init__(self, pool, stats):
        self.pool, self.stats = pool, stats

    def map(self, f, items, chunksize=1, ordered=False):
        st = self.stats
        for r in self.pool.map(f, items, chunksize, ordered):
            if isinstance(r, dict) and "case" in r and f is run_case:
                if r.get("not_completed"):
                    st["runs_not_completed"] += 1
                else:
                    n = r.get("n_models", 0)
                    st["runs_completed"] += 1
                    st["models_judged"] += n
                    st["runs_with_%s_models" % ("0" if n == 0 else "1" if n == 1 else "2-4" if n <= 4 else "5+")] += 1
                    for k, v in r.get("tally", {}).items():
                        st[k] += v
                    for fp, _ in r.get("problems", ()):
                        st["cases_failing: " + fp] += 1
            yield r


def run(tier):
    import collections
    ev = core.Evidence(PROP, tier)
    findings = _Findings(PROP)
    ev.assumptions = [
        "database/phreeqc.dat loads; phase stoichiometry is taken from its text (PHASES formula, EXCHANGE_SPECIES product), not from the engine",
        "concentrations of the oracle are the numbers written into the SOLUTION blocks (mol/kgw, 1 kg water)",
        "defaults taken from the manual: uncertainty 0.05, pH uncertainty 0.05, -tolerance 1e-10, -mp_tolerance 1e-12, -range maximum 1000, lists repeat their last entry",
        "the statement gives no numeric tolerance: the declared solver tolerance (-tolerance / -mp_tolerance: 'a value less than tol is treated as zero') is used as absolute slack of every inequality, plus 1e-11 relative for the 12-digit report",
        "implementation constant: the library builds without INVERSE_CL1MP, so -multiple_precision only switches the tolerance to mp_tolerance",
        "implementation constant TOL = 1e-9 (global_structures.h): members with |value| <= 1e-9 are pruned from a model before range(); used only to name that mechanism in a fingerprint",
        "values with |value| > 1000 (the documented clipping bound of -range) are not compared with their min..max (diagnostic only)",
        "print formats: selected-output -high_precision %20.12e, printed tables %12.3e (rounding slack = half a unit in the last printed place)",
        "H, O, H(0), O(0), e- and the water balance are not re-verified (no element-wise statement); alkalinity and pH only through their adjustments",
        "model membership for -minimal = non-zero reported fraction / transfer in the selected-output row",
    ]
    stats = collections.Counter()
    real_pool = core.Pool()
    pool = _TapPool(real_pool, stats)
    dl = core.Deadline(DEADLINE[tier])
    L = lattices(tier)
    done = True
    for name, cs in L.items():
        if not done:
            ev.bound(name, False, cases=len(cs))
            continue
        done = core.explore_cases(cs, run_case, ev, findings, pool, chunksize=8, deadline=dl)
        ev.bound(name, done, cases=len(cs))
    ev.extra["alphabet"] = {"waters": WATERS, "groups": {g: GROUPS[g][0] for g in GROUPS}, "distractors": DISTRACTORS,
                            "uncertainty_configs": {k: {"uncertainty": v[0], "balances": v[1]} for k, v in UNCS.items()},
                            "dispensable_solution_fractions(Z)": ZFRACS,
                            "perturbations": PERTS, "constraint_modes": ["none", "ok", "bad", "force", "badcap (bad, spelled Dissolve / Precipitate)"],
                            "options": ["-range", "-minimal", "-tolerance", "-mineral_water false", "-multiple_precision"]}
    ev.extra["lattice_points"] = sum(len(c) for c in L.values())
    ev.extra["completed_runs"] = stats["runs_completed"]
    ev.extra["not_completed_runs"] = stats["runs_not_completed"]
    ev.extra["models_judged"] = stats["models_judged"]
    ev.extra["tally"] = dict(sorted(stats.items()))
    real_pool.close()
    if ev.traces > 50 and done:
        if ev.not_completed > 0.5 * ev.traces or len(ev.outcomes) < 10 or stats["models_judged"] < ev.traces // 2 \
                or not stats["models_with_range"] or not stats["models_minimal_option"] or not stats["models_with_constraints"] \
                or not stats["Z_minimal_models_without_a_listed_initial_solution"] or not stats["Z_minimal_models_with_the_dispensable_solution"] \
                or stats["Z_minimal_runs_with_models"] < 100:
            raise SystemExit("C18: vacuous run (%d of %d not completed, %d distinct outcomes, tally %r): the check is broken" % (
                ev.not_completed, ev.traces, len(ev.outcomes), dict(stats)))
    return core.finish(ev, findings)


def replay(path):
    return core.replay_main(PROP, path, run_case)
