"""C02  Closed-system conservation of elements and charge in reaction steps.

Shape H: breadth-first exploration of op histories on one cell.  One op = one reaction-step simulation applied to the
evolving cell (reactants numbered 1, second - charge-imbalanced - solution 2), executed on the real library either with
USE ... SAVE or with RUN_CELLS so that the products feed the next op.  After every transition the element/charge
inventory of the cell, computed by mc/oracles/raw.py from the text of `DUMP -all` (formulas from the database text),
must equal the inventory before the step plus what the REACTION stoichiometry / the MIX fractions of the op's own input
text add (relative 1e-6 of the element's inventory), and no phase / gas component / exchanger / kinetic amount may be
negative.  Only runs with return code 0 are judged (R2).

Enumeration: alphabet() = 43 ops (REACTION of 6 reactants x {1 step, 3 listed amounts incremental, 3 listed amounts
cumulative} + {NaCl, CaCO3} x "amount in 3 steps" {cumulative, incremental}; 2 MIX; 18 attach/replace ops over the six
reactant kinds incl. 8 surface variants; REACTION_TEMPERATURE) x 2 execution modes x 2 initial cells (solutions only /
one reactant of every kind); BFS to depth 2 (quick; in the 7-reactant cell over the 40-op "light" alphabet = all but the two
Borkovec-Westall -diffuse_layer ops and the non-ideal solid solution) or, thorough, depth 3 from the solutions-only cell,
depth 2 from the 7-reactant cell over all ops and depth 4 over the 10 first attach ops; next level
= the distinct (canonical dump, 12 digits) completed states of the previous one.  The deadline is looked at between
bounds only (a level; a big level is cut into one sub-bound per first op).

Calibration (R5) - one correction of the oracle's model, no sub-claim dropped:
  * A surface with a constant-thickness diffuse layer (-donnan / -diffuse_layer) that was defined explicitly (no
    -equilibrate) is dumped, before its first step, with `-mass_water 0` and an empty `-diffuse_layer_totals`; after the
    first step the layer holds thickness x area kg of water (0.006 kg here) while the solution keeps its water.  The
    first version of this check called that "H,O created".  The manual (PHREEQC-2 eq. 75-76, notation W_bulk/W_s) makes
    the layer's water an attribute of the surface fixed by the input (W_s = t A_s, part of the water of the system),
    exactly as it comes with an -equilibrate surface out of the initial-surface calculation; what happens in the first
    step is the initialisation of the dump's bookkeeping, not a transfer.  The inventory *before* the first step of such
    a surface therefore contains W_s (pending_dl_water(); computed from the dump's own area, mass and thickness and the
    element weights of the database).  If the engine took that water from the solution instead, or created any other
    amount, the check alarms.  With `-donnan debye_lengths` the layer's water is a fraction of the bulk water and the
    engine takes it from the solution: nothing is added there (and the check confirms conservation).
"""
import os

from .. import core, build, phr, drv
from ..oracles import raw

PROP = "C02"
DBNAME = "phreeqc.dat"
TOL = 1e-6          # the statement: relative 1e-6 of the element's system inventory

# ------------------------------------------------------------------------------------------------ the cell and the ops
RATES = """RATES
 Zero
 -start
 10 moles = PARM(1) * TIME
 20 IF (moles > M) THEN moles = M
 30 SAVE moles
 -end
 Zerou
 -start
 10 moles = PARM(1) * TIME
 30 SAVE moles
 -end
"""
# (Zerou: the same zero-order rate without the rate's own clamp - when it asks for more than the reactant holds, the engine
# has to stop at the amount that is left)
# a pH-stat phase for the "alternative formula" form of EQUILIBRIUM_PHASES (the reactant added or removed is the
# alternative formula, not the phase); defined once, with the rates
RATES += "PHASES\n Fix_pH\n H+ = H+\n log_k 0\n"
SYS_ELTS = ["Na", "Ca", "Sr", "Mg", "K", "Cl", "C", "S", "N", "H", "O"]
PUNCH = ("SELECTED_OUTPUT 1\n -reset false\n -high_precision true\nUSER_PUNCH 1\n -headings " + " ".join("sys_" + e for e in SYS_ELTS) +
         "\n 10 PUNCH " + ", ".join('SYS("%s")' % e for e in SYS_ELTS) + "\n")
# CD-MUSIC definitions with charged master species (the form of the published goethite sets; the engine books the
# reference charge of the master on plane 0), written in the input like any user extension of phreeqc.dat
CDMUSIC_DEFS = """SURFACE_MASTER_SPECIES
 Goe_uni Goe_uniOH-0.5
 Goe_tri Goe_triO-0.5
SURFACE_SPECIES
 Goe_uniOH-0.5 = Goe_uniOH-0.5
  -cd_music 0 0 0 0 0
  log_k 0
 Goe_uniOH-0.5 + H+ = Goe_uniOH2+0.5
  -cd_music 1 0 0 0 0
  log_k 9.2
 Goe_uniOH-0.5 + Na+ = Goe_uniOHNa+0.5
  -cd_music 0 1 0 0 0
  log_k -1.0
 Goe_uniOH-0.5 + H+ + Cl- = Goe_uniOH2Cl-0.5
  -cd_music 1 -1 0 0 0
  log_k 8.75
 Goe_uniOH-0.5 + Ca+2 = Goe_uniOHCa+1.5
  -cd_music 0 0 0 0.2 2
  log_k 2.9
 Goe_uniOH-0.5 + H+ + SO4-2 = Goe_uniOSO3-1.5 + H2O
  -cd_music 0.5 -1.5 0 0 0
  log_k 9.6
 Goe_triO-0.5 = Goe_triO-0.5
  -cd_music 0 0 0 0 0
  log_k 0
 Goe_triO-0.5 + H+ = Goe_triOH+0.5
  -cd_music 1 0 0 0 0
  log_k 9.2
 Goe_triO-0.5 + Na+ = Goe_triONa+0.5
  -cd_music 0 1 0 0 0
  log_k -1.0
 Goe_triO-0.5 + H+ + Cl- = Goe_triOHCl-0.5
  -cd_music 1 -1 0 0 0
  log_k 8.75
"""
INIT = {
    "plain": RATES + CDMUSIC_DEFS + PUNCH + """SOLUTION 1
 temp 25
 pH 7.5
 Na 10
 Ca 2
 Sr 0.1
 Mg 0.5
 Cl 10 charge
 C(4) 3
 S(6) 1
SOLUTION 2
 temp 15
 pH 5
 Na 1
 K 2
 Mg 0.5
 Cl 3.5
 -water 0.5
END
""",
}

# reactant definitions (sim A of an attach op).  kind -> keyword used by USE / SAVE
KINDS = {"pp": "equilibrium_phases", "ex": "exchange", "su": "surface", "ga": "gas_phase", "ss": "solid_solutions", "ki": "kinetics"}
SURF_SITES = " Hfo_w%s 0.001 600 1\n Hfo_s%s 0.00005\n"
ATTACH = {
    "pp:calcite+co2": ("pp", "EQUILIBRIUM_PHASES 1\n Calcite 0 0.01\n CO2(g) -2.0 0.1\n"),
    "pp:gypsum0": ("pp", "EQUILIBRIUM_PHASES 1\n Gypsum 0 0\n"),
    "pp:calcite-dis": ("pp", "EQUILIBRIUM_PHASES 1\n Calcite 0 0.005 dissolve_only\n"),
    "ex:X-equil": ("ex", "EXCHANGE 1\n X 0.01\n -equilibrate 1\n"),
    "ex:explicit": ("ex", "EXCHANGE 1\n NaX 0.01\n CaX2 0.002\n"),
    "su:noedl": ("su", "SURFACE 1\n" + SURF_SITES % ("OH", "OH") + " -no_edl\n"),
    "su:ddl-equil": ("su", "SURFACE 1\n" + SURF_SITES % ("", "") + " -equilibrate 1\n"),
    "su:dl-equil": ("su", "SURFACE 1\n" + SURF_SITES % ("", "") + " -equilibrate 1\n -diffuse_layer 1e-8\n"),
    "su:donnan-equil": ("su", "SURFACE 1\n" + SURF_SITES % ("", "") + " -equilibrate 1\n -donnan\n"),
    "su:donnan-new": ("su", "SURFACE 1\n" + SURF_SITES % ("OH", "OH") + " -donnan\n"),
    "su:dl-new": ("su", "SURFACE 1\n" + SURF_SITES % ("OH", "OH") + " -diffuse_layer 1e-8\n"),
    "su:debye-new": ("su", "SURFACE 1\n" + SURF_SITES % ("OH", "OH") + " -donnan debye_lengths 1\n"),
    "ga:fixP": ("ga", "GAS_PHASE 1\n -fixed_pressure\n -pressure 1.0\n -volume 1.0\n -temperature 25\n CO2(g) 0.01\n N2(g) 0.99\n"),
    "ga:fixV": ("ga", "GAS_PHASE 1\n -fixed_volume\n -volume 0.5\n -temperature 25\n CO2(g) 0.05\n N2(g) 0.5\n O2(g) 0.1\n"),
    "ss:ideal": ("ss", "SOLID_SOLUTIONS 1\n CaSrCO3\n -comp Calcite 0.001\n -comp Strontianite 0.0001\n"),
    "ss:nonideal": ("ss", "SOLID_SOLUTIONS 1\n Ca(x)Sr(1-x)CO3\n -comp1 Aragonite 0.001\n -comp2 Strontianite 0.0001\n -Gugg_nondim 3.43 -1.82\n"),
    "ki:calcite": ("ki", "KINETICS 1\n Calcite\n -m 0.01\n -m0 0.01\n -parms 50 0.6\n -tol 1e-8\n -steps 3600 in 2 steps\n"),
    "ki:zero": ("ki", "KINETICS 1\n Zero\n -formula Na2SO4 1 H2O 10\n -m 0.002\n -parms 1e-6\n -tol 1e-8\n -steps 600\n"),
}
# ops of C02's own alphabet only (C03 and C10 import ATTACH / alphabet() and have no use for a pH-stat):
PHSTAT = {
    "pp:phstat-base": ("pp", "EQUILIBRIUM_PHASES 1\n Fix_pH -9.5 NaOH 10\n"),
    "pp:phstat-acid": ("pp", "EQUILIBRIUM_PHASES 1\n Fix_pH -4.0 HCl 10\n"),
}
# a CD-MUSIC surface (goethite set of two site types, defined in the input as in C10): its stored charge is spread over three planes
PHSTAT["su:cd-music"] = ("su", "SURFACE 1\n -cd_music\n Goe_uni 0.0003 96 0.5\n Goe_tri 0.0002\n -capacitances 0.98 0.73\n -equilibrate 1\n")
PHSTAT["ga:fixV-co2zero"] = ("ga", "GAS_PHASE 1\n -fixed_volume\n -volume 0.5\n -temperature 25\n CO2(g) 0\n N2(g) 0.5\n")      # lists a component with no moles
PHSTAT["ga:fixP-co2zero"] = ("ga", "GAS_PHASE 1\n -fixed_pressure\n -pressure 1.0\n -volume 1.0\n -temperature 25\n CO2(g) 0\n N2(g) 1.0\n")
PHSTAT["ki:exhaust"] = ("ki", "KINETICS 1\n Zerou\n -formula NaCl 1\n -m 0.0001\n -parms 1e-6\n -tol 1e-8\n -steps 600\n")      # asks for 6e-4 mol of a 1e-4 mol reactant
KIN_STEPS = {"ki:calcite": 2, "ki:zero": 1, "ki:exhaust": 1}
# a cell without carbon and sulfur in an instance that has already equilibrated another water (3) with a CO2-bearing gas and
# calcite + gypsum: reactants attached to cell 1 then list components whose elements the cell does not contain
INIT["lean"] = RATES + PUNCH + """SOLUTION 1
 temp 25
 pH 7
 Na 10
 K 1
 Cl 11 charge
SOLUTION 2
 temp 15
 pH 5
 Na 1
 K 2
 Mg 0.5
 Cl 3.5
 -water 0.5
END
SOLUTION 3
 pH 7
 Ca 2
 C(4) 4
 S(6) 1
 Na 2 charge
GAS_PHASE 3
 -fixed_volume
 -volume 0.5
 CO2(g) 0.05
 N2(g) 0.5
 O2(g) 0.1
EQUILIBRIUM_PHASES 3
 Calcite 0 0.01
 Gypsum 0 0.01
SOLID_SOLUTIONS 3
 CaSrCO3
 -comp Calcite 0.001
 -comp Strontianite 0.0001
END
DELETE
 -cells 3
END
"""
# a second initial cell that already holds one reactant of every kind (definitions only - no step has been run)
FULL = ["pp:calcite+co2", "ex:X-equil", "su:ddl-equil", "ga:fixV", "ss:ideal", "ki:calcite"]
INIT["full"] = INIT["plain"] + "".join(ATTACH[o][1] for o in FULL) + "END\n"
INIT_MODEL = {"plain": ((), None), "lean": ((), None), "full": (tuple(ATTACH[o][0] for o in FULL), "ki:calcite")}

REACTANTS = {            # name -> (stoichiometry lines, unit amount, units word)
    "NaCl": ([("NaCl", 1.0)], 1.0, "mmol"),
    "HCl": ([("HCl", 1.0)], 1.0, "mmol"),
    "CO2": ([("CO2", 1.0)], 1.0, "mmol"),
    "O2": ([("O2", 1.0)], 1.0, "mmol"),
    "CaCO3": ([("CaCO3", 1.0)], 1.0, "mmol"),
    "H2O-": ([("H2O", -1.0)], 5.0, "moles"),
    # withdraws more strontium than the water holds (0.1 mmol): feasible only where a solid holding Sr makes up the rest
    "SrCl2-": ([("SrCl2", -1.0)], 0.15, "mmol"),
}
STEPFORMS = {            # name -> (fractions of the unit amount, INCREMENTAL_REACTIONS); "in3*": "<amount> in 3 steps"
    "1": ([1.0], False),
    "3inc": ([0.2, 0.3, 0.5], True),
    "3cum": ([0.2, 0.5, 1.0], False),
    "in3": ("in", False),
    "in3inc": ("in", True),
}
IN_STEPS = 3
IN_REACTANTS = ("NaCl", "CaCO3")       # the "in 3 steps" forms are enumerated for these reactants only
MIXES = {"mix:half": {1: 0.5, 2: 0.5}, "mix:1+q2": {1: 1.0, 2: 0.25}}
UNITS = {"mmol": 1e-3, "moles": 1.0}


def alphabet(sub="all", phstat=False):
    if phstat:
        return alphabet(sub) + list(PHSTAT)
    ops = []
    for r in REACTANTS:
        for f in STEPFORMS:
            if not f.startswith("in3") or r in IN_REACTANTS:
                ops.append("rx:%s:%s" % (r, f))
    ops += sorted(MIXES)
    ops += list(ATTACH)
    ops.append("temp:60")
    if sub == "attach":
        return [o for o in ops if o in ATTACH][:10]
    if sub == "models":     # what a database without redox couples and without the Hfo surface (pitzer.dat, sit.dat) can run
        return [o for o in ops if not o.startswith("su:") and not o.startswith("rx:O2:")]
    if sub == "light":      # without the three ops that cost most in the 7-reactant cell (Borkovec-Westall integration, Guggenheim ss)
        return [o for o in ops if o not in ("su:dl-new", "su:dl-equil", "ss:nonideal")]
    return ops


def fmt(x):
    return repr(float(x))


def op_texts(op, mode, present, kin):
    """-> (definition simulation text or None, step simulation text, oracle spec).  `present` = kinds attached so far
    (after this op's own attachment), `kin` = name of the attached kinetics op or None."""
    defs = None
    lines = []
    spec = {"reaction": None, "mix": None, "incremental": False, "rsteps": 1}
    if op in PHSTAT:
        defs = PHSTAT[op][1]
    elif op in ATTACH:
        defs = ATTACH[op][1]
    if op.startswith("rx:"):
        _, r, f = op.split(":")
        stoich, unit, units = REACTANTS[r]
        fr, inc = STEPFORMS[f]
        lines.append("REACTION 1")
        for name, coef in stoich:
            lines.append(" %s %s" % (name, fmt(coef)))
        if fr == "in":
            lines.append(" %s %s in %d steps" % (fmt(unit), units, IN_STEPS))
            spec.update(reaction={"stoich": stoich, "in_steps": IN_STEPS, "amount": unit * UNITS[units]}, incremental=inc, rsteps=IN_STEPS)
        else:
            amounts = [unit * x for x in fr]
            lines.append(" " + " ".join(fmt(a) for a in amounts) + " " + units)
            spec.update(reaction={"stoich": stoich, "amounts": [a * UNITS[units] for a in amounts]}, incremental=inc, rsteps=len(amounts))
    elif op in MIXES:
        lines.append("MIX 1")
        for k, v in sorted(MIXES[op].items()):
            lines.append(" %d %s" % (k, fmt(v)))
        spec["mix"] = dict(MIXES[op])
    elif op == "temp:60":
        lines.append("REACTION_TEMPERATURE 1\n 60")
    head = ["INCREMENTAL_REACTIONS %s" % ("true" if spec["incremental"] else "false")]
    if mode == "use":
        if spec["mix"] is None:
            head.append("USE solution 1")
        for k in sorted(present):
            head.append("USE %s 1" % KINDS[k])
        tail = ["SAVE solution 1"] + ["SAVE %s 1" % KINDS[k] for k in sorted(present) if k != "ki"]
    else:
        tail = ["RUN_CELLS", " -cells 1"] + ([" -time_step 3600"] if "ki" in present else [])
    tail += ["DELETE", " -reaction 1", " -mix 1", " -reaction_temperature 1", "DUMP", " -all", "END"]
    nsteps = max(spec["rsteps"], KIN_STEPS.get(kin, 1) if "ki" in present else 1)
    spec["nsteps"] = nsteps
    return defs, "\n".join(head + lines + tail) + "\n", spec


# ------------------------------------------------------------------------------------------------ the oracle
def expected_additions(spec, db):
    """What the op's own input text adds, from the manual: REACTION amounts are cumulative from the start of the
    simulation unless INCREMENTAL_REACTIONS is true, in which case every step adds its own amount; if other reactants
    define more steps than REACTION lists amounts, the last amount is used for the additional steps."""
    add = {"charge": 0.0}
    rx = spec["reaction"]
    if rx is None:
        return add
    n = spec["nsteps"]
    if "in_steps" in rx:
        # "<amount> in k steps": after k steps the amount has been added once, whether the steps are cumulative fractions of
        # it (default) or k increments of amount/k (INCREMENTAL_REACTIONS true).  No other reactant of this alphabet defines
        # more than k steps, so the manual's rule for additional steps is never needed here.
        if n != rx["in_steps"]:
            raise RuntimeError("the alphabet must not define more steps than 'in %d steps'" % rx["in_steps"])
        total = rx["amount"]
    else:
        am = rx["amounts"]
        per_step = [am[min(i, len(am) - 1)] for i in range(n)]
        total = sum(per_step) if spec["incremental"] else per_step[-1]
    for name, coef in rx["stoich"]:
        elts, z = db.reactant_elts(name)
        for e, v in elts.items():
            add[e] = add.get(e, 0.0) + v * coef * total
        add["charge"] += z * coef * total
    return add


STATED_KINDS = ("phase", "gas", "exchanger", "kinetic")     # the reactant amounts the statement names

_gfw_cache = {}


def water_gfw(path):
    """g/mol of H2O from the element weights of the database text (SOLUTION_MASTER_SPECIES: element, species, alk,
    gfw formula, element gfw)."""
    if path not in _gfw_cache:
        w = {}
        on = False
        with open(path, encoding="latin-1") as f:
            for line in f:
                t = line.split("#")[0].split()
                if not t:
                    continue
                if t[0].upper() == "SOLUTION_MASTER_SPECIES":
                    on = True
                    continue
                if on and t[0].isupper() and "_" in t[0] and len(t[0]) > 6:
                    break                                         # next keyword
                if on and t[0] in ("H", "O") and len(t) >= 5 and t[0] not in w:
                    w[t[0]] = float(t[4])
        if set(w) != {"H", "O"}:
            raise RuntimeError("element weights of H and O not found in %s" % path)
        _gfw_cache[path] = 2.0 * w["H"] + w["O"]
    return _gfw_cache[path]


def pending_dl_water(blocks, gfw, n=1):
    """Diffuse-layer water of a surface that has been read but never taken part in a calculation.

    Manual (PHREEQC-2, eq. 75-76 and notation; unchanged in version 3): with an explicit diffuse-layer calculation
    (-diffuse_layer / -donnan with a constant thickness) every surface s carries W_s = t * A_s kg of water (1 L = 1 kg),
    and W_bulk = W_aq + sum W_s is the water of the system.  W_s is fixed by the input (thickness x specific area x mass),
    not by a reaction.  The dump of a surface that was defined explicitly (no -equilibrate) and has not reacted yet
    (`-new_def 1`) shows `-mass_water 0` and an empty `-diffuse_layer_totals`: the bookkeeping of the layer is only
    initialised by the first calculation the surface takes part in (for -equilibrate surfaces that is the initial
    surface calculation, for explicitly defined ones the first reaction step).  The inventory *before* such a step
    therefore contains the layer's water as the manual prescribes it.  With `debye_lengths` the thickness is not an
    input constant and the layer's water is a fraction of the bulk water (taken from the solution): nothing is added.
    -> ({"H":..,"O":..} or {}, kg)"""
    b = blocks.get(("SURFACE_RAW", n))
    if b is None or float(b.get("dl_type", 0)) == 0 or float(b.get("new_def", 0)) != 1 or float(b.get("debye_lengths", 0)) > 0:
        return {}, 0.0
    w = 0.0
    for c in b.get("charge_component", {}).values():
        if float(c.get("mass_water", 0.0)) == 0.0 and not c.get("diffuse_layer_totals"):
            w += float(c["specific_area"]) * float(c["grams"]) * float(b["thickness"]) * 1000.0
    if w == 0.0:
        return {}, 0.0
    return {"H": 2.0 * w * 1000.0 / gfw, "O": w * 1000.0 / gfw}, w


def judge(op, spec, before_blocks, after_blocks, db, problems, diags, tag, dbname=DBNAME):
    inv0 = raw.inventory(before_blocks, db, 1, spec["mix"])
    dlw, kg = pending_dl_water(before_blocks, water_gfw(phr.dbpath(dbname)))
    for e, v in dlw.items():
        inv0[e] = inv0.get(e, 0.0) + v
    if kg:
        diags.append("note: a never-reacted surface with a constant-thickness diffuse layer enters its first step: its layer water "
                     "(thickness x area = %.6g kg, manual eq. 76) is counted in the inventory before the step (%s)" % (kg, op))
    inv1 = raw.inventory(after_blocks, db, 1, None)
    add = expected_additions(spec, db)
    exp = dict(inv0)
    for e, v in add.items():
        exp[e] = exp.get(e, 0.0) + v
    ion_scale = sum(abs(v) for e, v in exp.items() if e not in ("H", "O", "charge"))
    bad = {}
    worst = 0.0
    for e in sorted(set(exp) | set(inv1)):
        a, b = exp.get(e, 0.0), inv1.get(e, 0.0)
        # "relative 1e-6 of the element's system inventory": the inventory the step works on - before, after, or what the step
        # adds or withdraws (a withdrawal that empties the system leaves the rounding of inventory - withdrawal, not 0)
        scale = max(abs(a), abs(b), abs(inv0.get(e, 0.0)), abs(add.get(e, 0.0)))
        if e == "charge":
            scale = max(scale, ion_scale)
        if scale == 0.0:
            continue
        rel = abs(b - a) / scale
        if e != "charge":
            worst = max(worst, rel)
        if rel > TOL:
            bad[e] = (a, b, rel)
    if bad:
        fp, what = classify(op, spec, bad, before_blocks, after_blocks, db)
        problems.append((fp, "%s\n%s" % (what, tag)))
    for kind, name, moles in raw.amounts(after_blocks, 1):
        if moles < 0.0:
            if kind in STATED_KINDS:
                problems.append(("negative-amount %s %s" % (kind, name.split(":")[0] if kind != "exchanger" else name),
                                 "%s %s has %.17g mol after the step\n%s" % (kind, name, moles, tag)))
            else:
                diags.append("negative %s %s = %.3g (%s)" % (kind, name, moles, op))
    return inv0, inv1, exp, worst


def sys_crosscheck(op, r, after_blocks, db, diags):
    """Diagnostic only (R1): the engine's own system totals SYS("element") of the last step against the dump inventory
    (SYS does not count kinetic reactants; with a diffuse layer it does not count the layer's water)."""
    rows = r["sel"].get(1) or []
    if not rows:
        diags.append("no selected-output row for the SYS cross-check (%s)" % op)
        return
    row = rows[-1]
    pts = raw.parts(after_blocks, db, 1, None)
    inv = {}
    dl = False
    for name, acc in pts.items():
        if name.startswith("kinetics "):
            continue
        if name.startswith("surface-charge ") and any(e != "charge" for e in acc):
            dl = True
        for e, v in acc.items():
            inv[e] = inv.get(e, 0.0) + v
    for e in SYS_ELTS:
        if dl and e in ("H", "O"):
            continue
        a, b = inv.get(e, 0.0), row.get("sys_" + e)
        if not isinstance(b, float):
            diags.append("SYS(%s) missing (%s)" % (e, op))
        elif abs(a - b) > TOL * max(abs(a), abs(b)):
            diags.append("SYS(%s)=%.12g but the dump inventory without kinetics is %.12g (%s)" % (e, b, a, op))


def reactant_signature(blocks):
    kinds = []
    for k, short in (("EQUILIBRIUM_PHASES_RAW", "pp"), ("EXCHANGE_RAW", "ex"), ("SURFACE_RAW", "su"), ("GAS_PHASE_RAW", "ga"),
                     ("SOLID_SOLUTIONS_RAW", "ss"), ("KINETICS_RAW", "ki")):
        if (k, 1) in blocks:
            kinds.append(short)
    return "+".join(kinds) or "solution"


_PART_KIND = (("solution", "solution"), ("exchange", "ex"), ("surface-charge", "dl"), ("surface", "su"), ("gas", "ga"), ("phase", "pp"),
              ("solid-solution", "ss"), ("kinetics", "ki"))


def part_kind(name):
    for prefix, short in _PART_KIND:
        if name.startswith(prefix + " "):
            return short
    return "?"


def classify(op, spec, bad, before_blocks, after_blocks, db):
    """Fingerprint = mechanism: which elements are not conserved, in which kind of op, and between which kinds of
    reactants these elements moved in the step (reactants of the cell whose content of the elements did not change are
    left out, so that one dropped term gives one line however many idle reactants the cell holds)."""
    lines = ["%-7s expected %.15g  found %.15g  (relative %.3g)" % (e, a, b, r) for e, (a, b, r) in sorted(bad.items())]
    what = "inventory after the step differs from inventory before + additions (tolerance %g):\n  " % TOL + "\n  ".join(lines)
    p0 = raw.parts(before_blocks, db, 1, spec["mix"])
    p1 = raw.parts(after_blocks, db, 1, None)
    k0, k1 = {}, {}
    for src, dst in ((p0, k0), (p1, k1)):
        for name, acc in src.items():
            d = dst.setdefault(part_kind(name), {})
            for e, v in acc.items():
                d[e] = d.get(e, 0.0) + v
    moved = []
    for kind in sorted(set(k0) | set(k1)):
        for e, (a, b, r) in bad.items():
            scale = max(abs(a), abs(b))
            if abs(k1.get(kind, {}).get(e, 0.0) - k0.get(kind, {}).get(e, 0.0)) > 1e-9 * scale:
                moved.append(kind)
                break
    what += "\nper reactant kind (before -> after) of the elements above:"
    for kind in sorted(set(k0) | set(k1)):
        what += "\n  %-9s" % kind + "  ".join("%s %.12g -> %.12g" % (e, k0.get(kind, {}).get(e, 0.0), k1.get(kind, {}).get(e, 0.0)) for e in sorted(bad))
    opkind = op.split(":")[0]
    if opkind == "rx":
        opkind = "rx:" + op.split(":")[1] + ("/incremental" if spec["incremental"] else "")
    return "not-conserved %s op=%s moved-between=%s" % (",".join(sorted(bad)), opkind, "+".join(moved) or "none"), what


# ------------------------------------------------------------------------------------------------ running one history
def run_history(s, init, mode, ops, judge_from=None, dbname=DBNAME):
    """Replays the history on a freshly loaded instance.  Returns dict(completed, problems, diags, key, sample...).
    Transitions with index >= judge_from are judged (default: only the last one)."""
    db = raw.load_db(phr.dbpath(dbname))
    r = s.run(INIT[init] + "DUMP\n -all\nEND\n", strings="d")
    if r["rc"] != 0:
        raise RuntimeError("initial simulation fails: %s" % r["err"][:300])
    blocks = raw.parse(r["dump"])
    dump_text = r["dump"]
    present, kin = set(INIT_MODEL[init][0]), INIT_MODEL[init][1]
    problems, diags = [], []
    nrun = 1
    if judge_from is None:
        judge_from = len(ops) - 1
    last = None
    for i, op in enumerate(ops):
        if op in PHSTAT:
            present.add(PHSTAT[op][0])
            if PHSTAT[op][0] == "ki":
                kin = op
        if op in ATTACH:
            present.add(ATTACH[op][0])
            if ATTACH[op][0] == "ki":
                kin = op
        defs, step, spec = op_texts(op, mode, present, kin)
        if defs is not None:
            r = s.run(defs + "DUMP\n -all\nEND\n", strings="d")
            nrun += 1
            if r["rc"] != 0:
                return {"completed": False, "where": (i, "definition"), "err": r["err"], "problems": problems, "diags": diags, "nrun": nrun}
            blocks = raw.parse(r["dump"])
        r = s.run(step, strings="d")
        nrun += 1
        if r["rc"] != 0:
            return {"completed": False, "where": (i, "step"), "err": r["err"], "problems": problems, "diags": diags, "nrun": nrun}
        after = raw.parse(r["dump"])
        dump_text = r["dump"]
        if i >= judge_from:
            sys_crosscheck(op, r, after, db, diags)
            tag = "history: %sinit=%s mode=%s ops=%s ; judged transition %d (%s)" % ("" if dbname == DBNAME else "database=%s " % dbname, init, mode, " ".join(ops), i + 1, op)
            inv0, inv1, exp, worst = judge(op, spec, blocks, after, db, problems, diags, tag, dbname)
            last = {"op": op, "worst_rel": worst, "before": inv0, "after": inv1, "expected": exp}
        blocks = after
    return {"completed": True, "problems": problems, "diags": diags, "nrun": nrun, "key": core.sha(raw.canonical(dump_text, 12)),
            "last": last, "cell": reactant_signature(blocks)}


def run_case(case):
    try:
        s = phr.Session(case.get("db", DBNAME))      # driver reset + new instance + database: the command log (= replay artefact) is this case only
        res = run_history(s, case["init"], case["mode"], case["ops"], case.get("judge_from"), case.get("db", DBNAME))
    except (drv.DrvDied, drv.DrvTimeout) as e:
        # a crash / hang of the library is not a run that "completes without error": outside this statement (C08's
        # subject), counted as not completed and shown in the evidence with the driver's command log
        d = core.get_drv("rel")
        log = getattr(d, "dead_log", None) or []
        return {"case": case, "problems": [], "ops": 1, "diagnostics": [], "not_completed": True, "outcome": "not-completed", "driver_death": True,
                "err": "DRIVER DIED: %s %s | last commands: %s" % (type(e).__name__, str(e)[:100], " ; ".join(l[:160] for l in log[-2:]))}
    out = {"case": case, "problems": [], "ops": res["nrun"], "diagnostics": res["diags"][:3]}
    if res["problems"]:
        out["script"] = s.d.script()          # the replay artefact; only kept for candidates (memory of the explorer)
    seen = set()
    for fp, what in res["problems"]:
        if case.get("db", DBNAME) != DBNAME:
            fp += " db=%s" % case["db"]
        if fp not in seen:
            seen.add(fp)
            out["problems"].append((fp, what))
    if not res["completed"]:
        out["not_completed"] = True
        out["outcome"] = "not-completed"
        out["err"] = res["err"][:300]
        return out
    out["states"] = [res["key"]]
    out["key"] = res["key"]
    last = res["last"]
    out["outcome"] = res["key"]
    if last is not None:
        out["worst"] = last["worst_rel"]
        out["sample"] = {"init": case["init"], "mode": case["mode"], "ops": case["ops"], "cell": res["cell"],
                         "worst_relative_residual": last["worst_rel"],
                         "inventory_before+additions": {e: float("%.12g" % v) for e, v in sorted(last["expected"].items())},
                         "inventory_after": {e: float("%.12g" % v) for e, v in sorted(last["after"].items())}}
    return out


# ------------------------------------------------------------------------------------------------ exploration
def explore_level(cases, ev, findings, pool, deadline, stats):
    """Runs one BFS level.  Returns (complete, results in case order).  Candidates are confirmed by two replays in
    brand-new driver processes before they are reported (rule R3)."""
    cand = {}
    results = []
    complete = True
    for res in pool.map(run_case, cases, 4, ordered=True):
        results.append({"case": res["case"], "not_completed": res.get("not_completed", False), "key": res.get("key")})
        ev.traces += 1
        ev.transitions += res["ops"]
        if res.get("not_completed"):
            ev.not_completed += 1
            stats["not_completed"] += 1
            if len(stats["nc_samples"]) < 4:
                stats["nc_samples"].append({"case": res["case"], "error": res["err"]})
            if res.get("driver_death"):
                stats["deaths"] += 1
                ev.diag("driver death (library crash or hang), counted as not completed: %s %s" % (res["case"], res["err"][:600]))
        else:
            stats["completed"] += 1
            ev.state(res["key"])
            ev.outcome(res["outcome"])
            stats["worst"] = max(stats["worst"], res.get("worst", 0.0))
            sig = res["sample"]["cell"]
            stats["cells"][sig] = stats["cells"].get(sig, 0) + 1
            if len(res["case"]["ops"]) >= 2 and stats["cells"][sig] == 1:
                ev.sample(res["sample"], limit=8)          # first depth-2 history of every cell composition
        for d in res.get("diagnostics", ()):
            if d.startswith("note: "):
                stats["dl_first_step"] += 1
                if stats["dl_first_step"] > 2:
                    continue
            else:
                stats["diag"] += 1
            ev.diag(d)
        for fp, what in res["problems"]:
            cand.setdefault(fp, (res["case"], what, res.get("script", "")))
    for fp in cand:                                    # first occurrence = simplest case first
        if fp in stats["reported"]:
            continue                                   # already reported from a shallower (simpler) level
        if findings.match(fp) is None and len(findings.violations) >= MAX_NEW:
            # one dropped term shows up under many element sets / neighbour reactants; the run already exits 1
            stats["unreplayed"] += 1
            ev.diag("further candidate fingerprint, not replayed (more than %d new violations already reported): %s" % (MAX_NEW, fp))
            continue
        case, what, script = cand[fp]
        ok = list(pool.map(core._confirm, [(run_case, case, fp)]))[0]
        if ok:
            stats["reported"].add(fp)
            findings.report(fp, what, core.case_text(case, script))
        else:
            ev.diag("unconfirmed candidate (did not reproduce twice in fresh processes): %s" % fp)
    return complete, results


MAX_NEW = 6         # new (not known) fingerprints replayed and reported per run; further ones are listed as diagnostics
SPLIT = 2500        # a level with more histories than this is cut into one sub-bound per first op (deadline granularity)


def bfs(name, init, mode, ops, depth, ev, findings, pool, deadline, stats, db=None):
    """Bound-major BFS: level k = every completed, distinct state of level k-1 extended by every op.  The deadline is
    looked at only between bounds (a level, or for a big level the sub-bound of all histories that start with one op)."""
    frontier = [()]
    for k in range(1, depth + 1):
        cases = [dict({"init": init, "mode": mode, "ops": list(seq) + [op]}, **({"db": db} if db else {})) for seq in frontier for op in ops]
        lname = "%s: init=%s mode=%s depth %d" % (name, init, mode, k)
        if len(cases) > SPLIT:
            groups = [("%s, histories starting with %s" % (lname, o), [c for c in cases if c["ops"][0] == o]) for o in ops]
            groups = [g for g in groups if g[1]]
        else:
            groups = [(lname, cases)]
        results = []
        for gi, (gname, gcases) in enumerate(groups):
            bname = "%s (%d histories over %d ops)" % (gname, len(gcases), len(ops))
            if deadline.passed():
                ev.bound(bname, False, cases=len(gcases), not_started=len(groups) - gi)
                return False
            _, res = explore_level(gcases, ev, findings, pool, deadline, stats)
            results += res
            if len(groups) > 1:
                ev.bound(bname, True, cases=len(gcases), completed_histories=sum(1 for r in res if not r.get("not_completed")))
        seen, nxt, dup = set(), [], 0
        for res in results:
            if res.get("not_completed"):
                continue
            if res["key"] in seen:
                dup += 1
                continue
            seen.add(res["key"])
            nxt.append(tuple(res["case"]["ops"]))
        ev.bound("%s (%d histories over %d ops)" % (lname, len(cases), len(ops)), True, cases=len(cases), completed_histories=len(nxt) + dup,
                 distinct_states=len(nxt), duplicates_pruned=dup)
        frontier = nxt
    return True


def run(tier):
    ev = core.Evidence(PROP, tier)
    findings = core.Findings(PROP)
    ev.assumptions = [
        "database/phreeqc.dat loads without error; phase formulas = first formula on the left of the PHASES reaction in the database text",
        "dump convention: SOLUTION_RAW -total_h/-total_o hold all H and O of the solution (water, solutes, H(0), O(0)); H(0)/O(0) under -totals are not added again",
        "dump convention: SOLUTION_RAW -totals are moles per valence state 'El(v)'; -cb is the charge of the aqueous species in eq",
        "dump convention: a surface with -charge_component objects carries its net charge (surface + diffuse layer) in their -charge_balance; a -no_edl surface in its components' -charge_balance",
        "manual: REACTION amounts are cumulative unless INCREMENTAL_REACTIONS true; the last amount is re-used when KINETICS defines more steps than REACTION",
        "manual: '<amount> in k steps' adds the amount once over k steps, as cumulative fractions (default) or as k increments (INCREMENTAL_REACTIONS true)",
        "charge tolerance: 1e-6 x max(|net charge|, sum of the inventories of all elements other than H and O) (the statement gives no scale for charge)",
        "a step is judged from the two dumps only; intermediate reaction steps of one simulation are not observable in the dump and are not judged",
        "manual eq. 76: a surface with a constant-thickness diffuse layer carries W_s = thickness x specific area x mass x 1000 kg of water from its definition on; "
        "the dump of a never-reacted (-new_def 1) explicitly defined surface shows -mass_water 0, so W_s (H = 2 W_s/gfw, O = W_s/gfw, gfw of H2O from the database's "
        "element weights) is added to the inventory before its first step; with debye_lengths > 0 nothing is added",
        "dump convention: SURFACE_RAW -dl_type 0 = no explicit diffuse layer; -new_def 1 = read but not yet used in a calculation; -thickness in m, -specific_area in m2/g, -grams in g",
    ]
    pool = core.Pool()
    stats = {"completed": 0, "not_completed": 0, "worst": 0.0, "cells": {}, "nc_samples": [], "diag": 0, "reported": set(), "dl_first_step": 0, "deaths": 0, "unreplayed": 0}
    allops = alphabet(phstat=True)
    if tier == "quick":
        dl = core.Deadline(150)
        plan = [("full alphabet", "plain", m, allops, 2) for m in ("use", "cells")] + \
               [("light alphabet", "full", m, alphabet("light"), 2) for m in ("use", "cells")]
    else:
        dl = core.Deadline(840)
        # cheapest first, so that a deadline cut costs the tail of the biggest bound only
        plan = [("full alphabet", "full", m, allops, 2) for m in ("use", "cells")] + \
               [("attach ops", "plain", m, alphabet("attach"), 4) for m in ("use", "cells")] + \
               [("full alphabet", "plain", m, allops, 3) for m in ("use", "cells")]
    for name, init, mode, ops, depth in plan:
        bfs(name, init, mode, ops, depth, ev, findings, pool, dl, stats)
    lean_ops = [o for o in allops if o in ATTACH or o in PHSTAT or o in ("rx:NaCl:1", "rx:CO2:1", "rx:H2O-:1", "mix:half", "temp:60")]
    for m in ("use", "cells"):
        bfs("attach ops + 5 steps on the carbon- and sulfur-free cell of a used instance", "lean", m, lean_ops, 2, ev, findings, pool, dl, stats)
    # the specific-ion-interaction databases drive the same steps through model_pz / model_sit
    for db in ("pitzer.dat", "sit.dat"):
        for m in (("use",) if tier == "quick" else ("use", "cells")):
            bfs("%s alphabet" % db, "plain", m, alphabet("models"), 2, ev, findings, pool, dl, stats, db=db)
    pool.close()
    total = stats["completed"] + stats["not_completed"]
    ev.extra["alphabet"] = {"ops": allops, "attach_sub_alphabet": alphabet("attach"), "light_sub_alphabet_(quick, 7-reactant cell)": alphabet("light"), "inits": sorted(INIT), "modes": ["use (USE..SAVE)", "cells (RUN_CELLS)"]}
    ev.extra["lattice_points"] = total
    ev.extra["completed_runs"] = stats["completed"]
    ev.extra["not_completed_runs"] = stats["not_completed"]
    ev.extra["not_completed_samples"] = stats["nc_samples"]
    ev.extra["worst_relative_residual_of_conserved_transitions"] = stats["worst"]
    ev.extra["judged_transitions_by_cell_composition"] = dict(sorted(stats["cells"].items()))
    ev.extra["sys_crosscheck_diagnostics"] = stats["diag"]
    ev.extra["driver_deaths_counted_as_not_completed"] = stats["deaths"]
    ev.extra["candidate_fingerprints_not_replayed"] = stats["unreplayed"]
    ev.extra["first_steps_of_a_never_reacted_constant_thickness_diffuse_layer_surface"] = stats["dl_first_step"]
    if total and stats["completed"] < 0.5 * total:
        print("HARNESS ERROR C02: only %d of %d histories completed - the check is broken" % (stats["completed"], total))
        raise SystemExit(2)
    if total > 50 and len(ev.outcomes) < 20:
        print("HARNESS ERROR C02: %d histories but only %d distinct states - the check is vacuous" % (total, len(ev.outcomes)))
        raise SystemExit(2)
    return core.finish(ev, findings)


def replay(path):
    return core.replay_main(PROP, path, run_case)
