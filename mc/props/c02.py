"""C02  Closed-system conservation of elements and charge in reaction steps.

Shape H: breadth-first exploration of op histories on one cell.  One op = one reaction-step simulation applied to the
evolving cell (reactants numbered 1, second solution 2), executed on the real library either with USE ... SAVE or with
RUN_CELLS so that the products feed the next op.  After every transition the element/charge inventory of the cell,
computed by mc/oracles/raw.py from the text of `DUMP -all` (formulas from the database text), must equal the inventory
before the step plus what the REACTION stoichiometry / the MIX fractions of the op's own input text add.
"""
import os

from .. import core, build, phr
from ..oracles import raw

PROP = "C02"
DBNAME = "phreeqc.dat"
TOL = 1e-6          # the statement: relative 1e-6 of the element's system inventory

# ------------------------------------------------------------------------------------------------ the cell and the ops
RATES = """RATES
 Zero
 -start
 10 moles = PARM(1) * TIME
 20 IF (moles > M) THEN moles = M
 30 SAVE moles
 -end
"""
SYS_ELTS = ["Na", "Ca", "Sr", "Mg", "K", "Cl", "C", "S", "N", "H", "O"]
PUNCH = ("SELECTED_OUTPUT 1\n -reset false\n -high_precision true\nUSER_PUNCH 1\n -headings " + " ".join("sys_" + e for e in SYS_ELTS) +
         "\n 10 PUNCH " + ", ".join('SYS("%s")' % e for e in SYS_ELTS) + "\n")
INIT = {
    "plain": RATES + PUNCH + """SOLUTION 1
 temp 25
 pH 7.5
 Na 10
 Ca 2
 Sr 0.1
 Mg 0.5
 Cl 10 charge
 C(4) 3
 S(6) 1
SOLUTION 2
 temp 15
 pH 5
 Na 1
 K 2
 Mg 0.5
 Cl 4 charge
 -water 0.5
END
""",
}

# reactant definitions (sim A of an attach op).  kind -> keyword used by USE / SAVE
KINDS = {"pp": "equilibrium_phases", "ex": "exchange", "su": "surface", "ga": "gas_phase", "ss": "solid_solutions", "ki": "kinetics"}
SURF_SITES = " Hfo_w%s 0.001 600 1\n Hfo_s%s 0.00005\n"
ATTACH = {
    "pp:calcite+co2": ("pp", "EQUILIBRIUM_PHASES 1\n Calcite 0 0.01\n CO2(g) -2.0 0.1\n"),
    "pp:gypsum0": ("pp", "EQUILIBRIUM_PHASES 1\n Gypsum 0 0\n"),
    "pp:calcite-dis": ("pp", "EQUILIBRIUM_PHASES 1\n Calcite 0 0.005 dissolve_only\n"),
    "ex:X-equil": ("ex", "EXCHANGE 1\n X 0.01\n -equilibrate 1\n"),
    "ex:explicit": ("ex", "EXCHANGE 1\n NaX 0.01\n CaX2 0.002\n"),
    "su:noedl": ("su", "SURFACE 1\n" + SURF_SITES % ("OH", "OH") + " -no_edl\n"),
    "su:ddl-equil": ("su", "SURFACE 1\n" + SURF_SITES % ("", "") + " -equilibrate 1\n"),
    "su:dl-equil": ("su", "SURFACE 1\n" + SURF_SITES % ("", "") + " -equilibrate 1\n -diffuse_layer 1e-8\n"),
    "su:donnan-equil": ("su", "SURFACE 1\n" + SURF_SITES % ("", "") + " -equilibrate 1\n -donnan\n"),
    "su:donnan-new": ("su", "SURFACE 1\n" + SURF_SITES % ("OH", "OH") + " -donnan\n"),
    "ga:fixP": ("ga", "GAS_PHASE 1\n -fixed_pressure\n -pressure 1.0\n -volume 1.0\n -temperature 25\n CO2(g) 0.01\n N2(g) 0.99\n"),
    "ga:fixV": ("ga", "GAS_PHASE 1\n -fixed_volume\n -volume 0.5\n -temperature 25\n CO2(g) 0.05\n N2(g) 0.5\n O2(g) 0.1\n"),
    "ss:ideal": ("ss", "SOLID_SOLUTIONS 1\n CaSrCO3\n -comp Calcite 0.001\n -comp Strontianite 0.0001\n"),
    "ss:nonideal": ("ss", "SOLID_SOLUTIONS 1\n Ca(x)Sr(1-x)CO3\n -comp1 Aragonite 0.001\n -comp2 Strontianite 0.0001\n -Gugg_nondim 3.43 -1.82\n"),
    "ki:calcite": ("ki", "KINETICS 1\n Calcite\n -m 0.01\n -m0 0.01\n -parms 50 0.6\n -tol 1e-8\n -steps 3600 in 2 steps\n"),
    "ki:zero": ("ki", "KINETICS 1\n Zero\n -formula Na2SO4 1 H2O 10\n -m 0.002\n -parms 1e-6\n -tol 1e-8\n -steps 600\n"),
}
KIN_STEPS = {"ki:calcite": 2, "ki:zero": 1}
# a second initial cell that already holds one reactant of every kind (definitions only - no step has been run)
FULL = ["pp:calcite+co2", "ex:X-equil", "su:ddl-equil", "ga:fixV", "ss:ideal", "ki:calcite"]
INIT["full"] = INIT["plain"] + "".join(ATTACH[o][1] for o in FULL) + "END\n"
INIT_MODEL = {"plain": ((), None), "full": (tuple(ATTACH[o][0] for o in FULL), "ki:calcite")}

REACTANTS = {            # name -> (stoichiometry lines, unit amount, units word)
    "NaCl": ([("NaCl", 1.0)], 1.0, "mmol"),
    "HCl": ([("HCl", 1.0)], 1.0, "mmol"),
    "CO2": ([("CO2", 1.0)], 1.0, "mmol"),
    "O2": ([("O2", 1.0)], 1.0, "mmol"),
    "CaCO3": ([("CaCO3", 1.0)], 1.0, "mmol"),
    "H2O-": ([("H2O", -1.0)], 5.0, "moles"),
}
STEPFORMS = {            # name -> (fractions of the unit amount, INCREMENTAL_REACTIONS)
    "1": ([1.0], False),
    "3inc": ([0.2, 0.3, 0.5], True),
    "3cum": ([0.2, 0.5, 1.0], False),
}
MIXES = {"mix:half": {1: 0.5, 2: 0.5}, "mix:1+q2": {1: 1.0, 2: 0.25}}
UNITS = {"mmol": 1e-3, "moles": 1.0}


def alphabet(sub="all"):
    ops = []
    for r in REACTANTS:
        for f in STEPFORMS:
            ops.append("rx:%s:%s" % (r, f))
    ops += sorted(MIXES)
    ops += list(ATTACH)
    ops.append("temp:60")
    if sub == "attach":
        return [o for o in ops if o in ATTACH][:10]
    return ops


def fmt(x):
    return repr(float(x))


def op_texts(op, mode, present, kin):
    """-> (definition simulation text or None, step simulation text, oracle spec).  `present` = kinds attached so far
    (after this op's own attachment), `kin` = name of the attached kinetics op or None."""
    defs = None
    lines = []
    spec = {"reaction": None, "mix": None, "incremental": False, "rsteps": 1}
    if op in ATTACH:
        defs = ATTACH[op][1]
    if op.startswith("rx:"):
        _, r, f = op.split(":")
        stoich, unit, units = REACTANTS[r]
        fr, inc = STEPFORMS[f]
        amounts = [unit * x for x in fr]
        lines.append("REACTION 1")
        for name, coef in stoich:
            lines.append(" %s %s" % (name, fmt(coef)))
        lines.append(" " + " ".join(fmt(a) for a in amounts) + " " + units)
        spec.update(reaction={"stoich": stoich, "amounts": [a * UNITS[units] for a in amounts]}, incremental=inc, rsteps=len(amounts))
    elif op in MIXES:
        lines.append("MIX 1")
        for k, v in sorted(MIXES[op].items()):
            lines.append(" %d %s" % (k, fmt(v)))
        spec["mix"] = dict(MIXES[op])
    elif op == "temp:60":
        lines.append("REACTION_TEMPERATURE 1\n 60")
    head = ["INCREMENTAL_REACTIONS %s" % ("true" if spec["incremental"] else "false")]
    if mode == "use":
        if spec["mix"] is None:
            head.append("USE solution 1")
        for k in sorted(present):
            head.append("USE %s 1" % KINDS[k])
        tail = ["SAVE solution 1"] + ["SAVE %s 1" % KINDS[k] for k in sorted(present) if k != "ki"]
    else:
        tail = ["RUN_CELLS", " -cells 1"] + ([" -time_step 3600"] if "ki" in present else [])
    tail += ["DELETE", " -reaction 1", " -mix 1", " -reaction_temperature 1", "DUMP", " -all", "END"]
    nsteps = max(spec["rsteps"], KIN_STEPS.get(kin, 1) if "ki" in present else 1)
    spec["nsteps"] = nsteps
    return defs, "\n".join(head + lines + tail) + "\n", spec


# ------------------------------------------------------------------------------------------------ the oracle
def expected_additions(spec, db):
    """What the op's own input text adds, from the manual: REACTION amounts are cumulative from the start of the
    simulation unless INCREMENTAL_REACTIONS is true, in which case every step adds its own amount; if other reactants
    define more steps than REACTION lists amounts, the last amount is used for the additional steps."""
    add = {"charge": 0.0}
    rx = spec["reaction"]
    if rx is None:
        return add
    am = rx["amounts"]
    n = spec["nsteps"]
    per_step = [am[min(i, len(am) - 1)] for i in range(n)]
    total = sum(per_step) if spec["incremental"] else per_step[-1]
    for name, coef in rx["stoich"]:
        elts, z = db.reactant_elts(name)
        for e, v in elts.items():
            add[e] = add.get(e, 0.0) + v * coef * total
        add["charge"] += z * coef * total
    return add


STATED_KINDS = ("phase", "gas", "exchanger", "kinetic")     # the reactant amounts the statement names


def judge(op, spec, before_blocks, after_blocks, db, problems, diags, tag):
    inv0 = raw.inventory(before_blocks, db, 1, spec["mix"])
    inv1 = raw.inventory(after_blocks, db, 1, None)
    add = expected_additions(spec, db)
    exp = dict(inv0)
    for e, v in add.items():
        exp[e] = exp.get(e, 0.0) + v
    ion_scale = sum(abs(v) for e, v in exp.items() if e not in ("H", "O", "charge"))
    bad = {}
    worst = 0.0
    for e in sorted(set(exp) | set(inv1)):
        a, b = exp.get(e, 0.0), inv1.get(e, 0.0)
        scale = max(abs(a), abs(b))
        if e == "charge":
            scale = max(scale, ion_scale)
        if scale == 0.0:
            continue
        rel = abs(b - a) / scale
        if e != "charge":
            worst = max(worst, rel)
        if rel > TOL:
            bad[e] = (a, b, rel)
    if bad:
        fp, what = classify(op, spec, bad, before_blocks, after_blocks, db)
        problems.append((fp, "%s\n%s" % (what, tag)))
    for kind, name, moles in raw.amounts(after_blocks, 1):
        if moles < 0.0:
            if kind in STATED_KINDS:
                problems.append(("negative-amount %s %s" % (kind, name.split(":")[0] if kind != "exchanger" else name),
                                 "%s %s has %.17g mol after the step\n%s" % (kind, name, moles, tag)))
            else:
                diags.append("negative %s %s = %.3g (%s)" % (kind, name, moles, op))
    return inv0, inv1, exp, worst


def sys_crosscheck(op, r, after_blocks, db, diags):
    """Diagnostic only (R1): the engine's own system totals SYS("element") of the last step against the dump inventory
    (SYS does not count kinetic reactants; with a diffuse layer it does not count the layer's water)."""
    rows = r["sel"].get(1) or []
    if not rows:
        diags.append("no selected-output row for the SYS cross-check (%s)" % op)
        return
    row = rows[-1]
    pts = raw.parts(after_blocks, db, 1, None)
    inv = {}
    dl = False
    for name, acc in pts.items():
        if name.startswith("kinetics "):
            continue
        if name.startswith("surface-charge ") and any(e != "charge" for e in acc):
            dl = True
        for e, v in acc.items():
            inv[e] = inv.get(e, 0.0) + v
    for e in SYS_ELTS:
        if dl and e in ("H", "O"):
            continue
        a, b = inv.get(e, 0.0), row.get("sys_" + e)
        if not isinstance(b, float):
            diags.append("SYS(%s) missing (%s)" % (e, op))
        elif abs(a - b) > TOL * max(abs(a), abs(b)):
            diags.append("SYS(%s)=%.12g but the dump inventory without kinetics is %.12g (%s)" % (e, b, a, op))


def reactant_signature(blocks):
    kinds = []
    for k, short in (("EQUILIBRIUM_PHASES_RAW", "pp"), ("EXCHANGE_RAW", "ex"), ("SURFACE_RAW", "su"), ("GAS_PHASE_RAW", "ga"),
                     ("SOLID_SOLUTIONS_RAW", "ss"), ("KINETICS_RAW", "ki")):
        if (k, 1) in blocks:
            kinds.append(short)
    return "+".join(kinds) or "solution"


def classify(op, spec, bad, before_blocks, after_blocks, db):
    """Fingerprint = mechanism: which elements are not conserved, in which kind of op, with which reactant kinds in the
    cell; plus one recognised special mechanism (diffuse-layer water of a new surface)."""
    lines = ["%-7s expected %.15g  found %.15g  (relative %.3g)" % (e, a, b, r) for e, (a, b, r) in sorted(bad.items())]
    what = "inventory after the step differs from inventory before + additions (tolerance %g):\n  " % TOL + "\n  ".join(lines)
    su0, su1 = before_blocks.get(("SURFACE_RAW", 1)), after_blocks.get(("SURFACE_RAW", 1))
    if su0 is not None and su1 is not None and set(bad) <= {"H", "O"}:
        dl0 = sum(sum(abs(v) for v in (c.get("diffuse_layer_totals") or {}).values()) for c in su0.get("charge_component", {}).values())
        dl1 = {e: sum((c.get("diffuse_layer_totals") or {}).get(e, 0.0) for c in su1.get("charge_component", {}).values()) for e in ("H", "O")}
        if dl0 == 0.0 and dl1["H"] > 0 and all(0 < bad[e][1] - bad[e][0] <= dl1[e] * (1 + 1e-6) for e in bad):
            w = sum(float(c.get("mass_water", 0.0)) for c in su1.get("charge_component", {}).values())
            what += ("\nthe surface had no diffuse-layer composition before the step (defined explicitly, never equilibrated); after the step its "
                     "diffuse layer holds %.6g kg water (H %.9g, O %.9g mol) that was not taken from the solution" % (w, dl1["H"], dl1["O"]))
            return "created H,O: diffuse-layer water of a surface in its first step", what
    opkind = op.split(":")[0]
    return "not-conserved %s op=%s cell=%s" % (",".join(sorted(bad)), opkind if opkind != "rx" else "rx:" + op.split(":")[1], reactant_signature(after_blocks)), what


# ------------------------------------------------------------------------------------------------ running one history
def run_history(s, init, mode, ops, judge_from=None):
    """Replays the history on a freshly loaded instance.  Returns dict(completed, problems, diags, key, sample...).
    Transitions with index >= judge_from are judged (default: only the last one)."""
    db = raw.load_db(phr.dbpath(DBNAME))
    r = s.run(INIT[init] + "DUMP\n -all\nEND\n", strings="d")
    if r["rc"] != 0:
        raise RuntimeError("initial simulation fails: %s" % r["err"][:300])
    blocks = raw.parse(r["dump"])
    dump_text = r["dump"]
    present, kin = set(INIT_MODEL[init][0]), INIT_MODEL[init][1]
    problems, diags = [], []
    nrun = 1
    if judge_from is None:
        judge_from = len(ops) - 1
    last = None
    for i, op in enumerate(ops):
        if op in ATTACH:
            present.add(ATTACH[op][0])
            if ATTACH[op][0] == "ki":
                kin = op
        defs, step, spec = op_texts(op, mode, present, kin)
        if defs is not None:
            r = s.run(defs + "DUMP\n -all\nEND\n", strings="d")
            nrun += 1
            if r["rc"] != 0:
                return {"completed": False, "where": (i, "definition"), "err": r["err"], "problems": problems, "diags": diags, "nrun": nrun}
            blocks = raw.parse(r["dump"])
        r = s.run(step, strings="d")
        nrun += 1
        if r["rc"] != 0:
            return {"completed": False, "where": (i, "step"), "err": r["err"], "problems": problems, "diags": diags, "nrun": nrun}
        after = raw.parse(r["dump"])
        dump_text = r["dump"]
        if i >= judge_from:
            sys_crosscheck(op, r, after, db, diags)
            tag = "history: init=%s mode=%s ops=%s ; judged transition %d (%s)" % (init, mode, " ".join(ops), i + 1, op)
            inv0, inv1, exp, worst = judge(op, spec, blocks, after, db, problems, diags, tag)
            last = {"op": op, "worst_rel": worst, "before": inv0, "after": inv1, "expected": exp}
        blocks = after
    return {"completed": True, "problems": problems, "diags": diags, "nrun": nrun, "key": core.sha(raw.canonical(dump_text, 12)),
            "last": last, "cell": reactant_signature(blocks)}


def run_case(case):
    s = phr.session(DBNAME, reload=True)
    res = run_history(s, case["init"], case["mode"], case["ops"], case.get("judge_from"))
    out = {"case": case, "problems": [], "ops": res["nrun"], "script": s.d.script(), "diagnostics": res["diags"][:3]}
    seen = set()
    for fp, what in res["problems"]:
        if fp not in seen:
            seen.add(fp)
            out["problems"].append((fp, what))
    if not res["completed"]:
        out["not_completed"] = True
        out["outcome"] = "not-completed"
        out["err"] = res["err"][:300]
        return out
    out["states"] = [res["key"]]
    out["key"] = res["key"]
    last = res["last"]
    out["outcome"] = res["key"]
    if last is not None:
        out["worst"] = last["worst_rel"]
        out["sample"] = {"init": case["init"], "mode": case["mode"], "ops": case["ops"], "cell": res["cell"],
                         "worst_relative_residual": last["worst_rel"],
                         "inventory_before+additions": {e: float("%.12g" % v) for e, v in sorted(last["expected"].items())},
                         "inventory_after": {e: float("%.12g" % v) for e, v in sorted(last["after"].items())}}
    return out


# ------------------------------------------------------------------------------------------------ exploration
def explore_level(cases, ev, findings, pool, deadline, stats):
    """Runs one BFS level.  Returns (complete, results in case order).  Candidates are confirmed by two replays in
    brand-new driver processes before they are reported (rule R3)."""
    cand = {}
    results = []
    complete = True
    for res in pool.map(run_case, cases, 4, ordered=True):
        results.append(res)
        ev.traces += 1
        ev.transitions += res["ops"]
        if res.get("not_completed"):
            ev.not_completed += 1
            stats["not_completed"] += 1
            if len(stats["nc_samples"]) < 4:
                stats["nc_samples"].append({"case": res["case"], "error": res["err"]})
        else:
            stats["completed"] += 1
            ev.state(res["key"])
            ev.outcome(res["outcome"])
            stats["worst"] = max(stats["worst"], res.get("worst", 0.0))
            sig = res["sample"]["cell"]
            stats["cells"][sig] = stats["cells"].get(sig, 0) + 1
            if len(res["case"]["ops"]) >= 2 or res["case"]["init"] != "plain":
                ev.sample(res["sample"], limit=4)
        for d in res.get("diagnostics", ()):
            ev.diag(d)
            stats["diag"] += 1
        for fp, what in res["problems"]:
            cand.setdefault(fp, (res["case"], what, res.get("script", "")))
        if deadline.passed():
            complete = False
            break
    for fp in sorted(cand):
        case, what, script = cand[fp]
        ok = list(pool.map(core._confirm, [(run_case, case, fp)]))[0]
        if ok:
            findings.report(fp, what, core.case_text(case, script))
        else:
            ev.diag("unconfirmed candidate (did not reproduce twice in fresh processes): %s" % fp)
    return complete, results


def bfs(name, init, mode, ops, depth, ev, findings, pool, deadline, stats):
    """Bound-major BFS: level k = every completed, distinct state of level k-1 extended by every op."""
    frontier = [()]
    for k in range(1, depth + 1):
        cases = [{"init": init, "mode": mode, "ops": list(seq) + [op]} for seq in frontier for op in ops]
        bname = "%s: init=%s mode=%s depth %d (%d histories over %d ops)" % (name, init, mode, k, len(cases), len(ops))
        if deadline.passed():
            ev.bound(bname, False, cases=len(cases))
            return False
        complete, results = explore_level(cases, ev, findings, pool, deadline, stats)
        seen, nxt, dup = set(), [], 0
        for res in results:
            if res.get("not_completed"):
                continue
            if res["key"] in seen:
                dup += 1
                continue
            seen.add(res["key"])
            nxt.append(tuple(res["case"]["ops"]))
        ev.bound(bname, complete, cases=len(cases), completed_histories=len(nxt) + dup, distinct_states=len(nxt), duplicates_pruned=dup)
        if not complete:
            return False
        frontier = nxt
    return True


def run(tier):
    ev = core.Evidence(PROP, tier)
    findings = core.Findings(PROP)
    ev.assumptions = [
        "database/phreeqc.dat loads without error; phase formulas = first formula on the left of the PHASES reaction in the database text",
        "dump convention: SOLUTION_RAW -total_h/-total_o hold all H and O of the solution (water, solutes, H(0), O(0)); H(0)/O(0) under -totals are not added again",
        "dump convention: SOLUTION_RAW -totals are moles per valence state 'El(v)'; -cb is the charge of the aqueous species in eq",
        "dump convention: a surface with -charge_component objects carries its net charge (surface + diffuse layer) in their -charge_balance; a -no_edl surface in its components' -charge_balance",
        "manual: REACTION amounts are cumulative unless INCREMENTAL_REACTIONS true; the last amount is re-used when KINETICS defines more steps than REACTION",
        "charge tolerance: 1e-6 x max(|net charge|, sum of the inventories of all elements other than H and O) (the statement gives no scale for charge)",
        "a step is judged from the two dumps only; intermediate reaction steps of one simulation are not observable in the dump and are not judged",
    ]
    pool = core.Pool()
    stats = {"completed": 0, "not_completed": 0, "worst": 0.0, "cells": {}, "nc_samples": [], "diag": 0}
    allops = alphabet()
    if tier == "quick":
        dl = core.Deadline(150)
        plan = [("full alphabet", "plain", m, allops, 2) for m in ("use", "cells")] + \
               [("full alphabet", "full", m, allops, 2) for m in ("use", "cells")]
    else:
        dl = core.Deadline(1500)
        plan = [("full alphabet", "plain", m, allops, 3) for m in ("use", "cells")] + \
               [("full alphabet", "full", m, allops, 2) for m in ("use", "cells")] + \
               [("attach ops", "plain", m, alphabet("attach"), 4) for m in ("use", "cells")]
    for name, init, mode, ops, depth in plan:
        bfs(name, init, mode, ops, depth, ev, findings, pool, dl, stats)
    pool.close()
    total = stats["completed"] + stats["not_completed"]
    ev.extra["alphabet"] = {"ops": allops, "attach_sub_alphabet": alphabet("attach"), "inits": sorted(INIT), "modes": ["use (USE..SAVE)", "cells (RUN_CELLS)"]}
    ev.extra["lattice_points"] = total
    ev.extra["completed_runs"] = stats["completed"]
    ev.extra["not_completed_runs"] = stats["not_completed"]
    ev.extra["not_completed_samples"] = stats["nc_samples"]
    ev.extra["worst_relative_residual_of_conserved_transitions"] = stats["worst"]
    ev.extra["judged_transitions_by_cell_composition"] = dict(sorted(stats["cells"].items()))
    ev.extra["sys_crosscheck_diagnostics"] = stats["diag"]
    if total and stats["completed"] < 0.5 * total:
        raise SystemExit("C02: only %d of %d histories completed - the check is broken" % (stats["completed"], total))
    if total > 50 and len(ev.outcomes) < 20:
        raise SystemExit("C02: %d histories but only %d distinct states - the check is vacuous" % (total, len(ev.outcomes)))
    return core.finish(ev, findings)


def replay(path):
    return core.replay_main(PROP, path, run_case)
