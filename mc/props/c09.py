"""C09  File, string and line views of each output stream are identical.

Shape H/L: exhaustive enumeration of sink-switch configurations (13 switches + file-name mode + current user
number at run time) x inputs, and of two-call histories with a single switch flip between the calls; every
execution runs on the real library and is judged by the oracle below.
"""
import itertools
import os
import re

from .. import core, build

PROP = "C09"
DB = os.path.join(build.REPO, "database", "phreeqc.dat")

GLOBAL = ["OutputFile", "OutputString", "LogFile", "LogString", "ErrorFile", "ErrorString", "Error", "DumpFile", "DumpString"]
PERUSER = [("SelectedOutputFile", 1), ("SelectedOutputString", 1), ("SelectedOutputFile", 2), ("SelectedOutputString", 2)]
NSW = len(GLOBAL) + len(PERUSER)

INPUTS = {
    "plain": "SOLUTION 1\n pH 7\n Na 1\n Cl 1\nSELECTED_OUTPUT 1\n -totals Na\nEND\n",
    "warn": "SOLUTION 1\n pH 7\n Na 1\n Xx 1\n Cl 1\nSELECTED_OUTPUT 1\n -totals Na\nSELECTED_OUTPUT 2\n -totals Cl\nEND\n",
    "err2": "SOLUTION 1\n pH 7\n Na 1\nSELECTED_OUTPUT 2\n -totals Na\nEND\nSOLUTION 2\n pH 7\n Na 1\n bogus_option 3\nEQUILIBRIUM_PHASES 1\n NoSuchPhase 0 1\nEND\n",
    "dump": "SOLUTION 1\n pH 7\n Ca 1\nSELECTED_OUTPUT 1\n -totals Ca\nDUMP\n -all\nEND\nSOLUTION 2\n pH 8\n Na 2\nDUMP\n -solution 2\n -append true\nEND\n",
    "log": "KNOBS\n -logfile true\nSOLUTION 1\n pH 7 charge\n Ca 1\n C 2\nEQUILIBRIUM_PHASES 1\n Calcite 0 1\nSELECTED_OUTPUT 1\n -totals Ca C\n -si Calcite\nEND\n",
    "two": "SOLUTION 1\n pH 7\n Na 1\n Cl 1\n K 0.5\nSELECTED_OUTPUT 1\n -totals Na\nUSER_PUNCH 1\n -headings a b\n 10 PUNCH 1.5, \"x\"\nSELECTED_OUTPUT 2\n -totals Cl K\n -high_precision true\nEND\nPRINT\n -selected_output false\nUSE solution 1\nREACTION 1\n NaCl 1\n 1 mmol in 2 steps\nEND\nPRINT\n -selected_output true\nUSE solution 1\nREACTION 1\n NaCl 1\n 1 mmol in 2 steps\nEND\n",
}
# several calculation steps that read state left behind by earlier steps (gas / Peng-Robinson read-outs, density, conductivity,
# phase amounts ...) - results computed or reset as a side effect of printing would differ between sink configurations
INPUTS["carry"] = (
    "SOLUTION 1\n temp 25\n pH 7 charge\n Na 10\n Cl 10\n Ca 2\n C 4\nEQUILIBRIUM_PHASES 1\n CO2(g) 1.5 10\n Calcite 0 0.01\n"
    "GAS_PHASE 1\n -fixed_volume\n -volume 1\n CO2(g) 0.5\n N2(g) 0.5\nSAVE solution 2\n"
    "SELECTED_OUTPUT 1\n -reset false\n -high_precision true\nUSER_PUNCH 1\n"
    " -headings prp prphi gvm si equi mu tc rho sc pe cb totc gasco2 laca lk osm prn2 sin2 kgw\n"
    " 10 PUNCH PR_P(\"CO2(g)\"), PR_PHI(\"CO2(g)\"), GAS_VM, SI(\"CO2(g)\"), EQUI(\"Calcite\"), MU, TC, RHO, SC, -LA(\"e-\"), CHARGE_BALANCE\n"
    " 20 PUNCH TOT(\"C\"), GAS(\"CO2(g)\"), LA(\"Ca+2\"), LK_PHASE(\"Calcite\"), OSMOTIC, PR_P(\"N2(g)\"), SI(\"N2(g)\"), TOT(\"water\")\nEND\n"
    "USE solution 2\nREACTION 1\n NaCl 1\n 1 mmol in 2 steps\nEND\n"
    "USE solution 2\nREACTION_TEMPERATURE 1\n 60\nEND\n"
    "USE solution 2\nEQUILIBRIUM_PHASES 2\n Calcite 0 0.01\nEND\n")
# the other producers of output / selected-output rows: ADVECTION and TRANSPORT (print / punch cells and frequencies),
# USER_PRINT, echo of the input, inverse modelling
INPUTS["flow"] = ("PRINT\n -echo_input true\n -user_print true\nUSER_PRINT\n 10 PRINT \"up\", TOT(\"Na\"), CELL_NO\n"
                  "SOLUTION 0\n pH 7\n Na 2\n Cl 2\nSOLUTION 1-3\n pH 7\n K 1\n Cl 1\nSELECTED_OUTPUT 1\n -totals Na K\nUSER_PUNCH 1\n -headings c\n 10 PUNCH CELL_NO\nEND\n"
                  "ADVECTION\n -cells 3\n -shifts 2\n -punch_cells 1 3\n -print_cells 2\n -punch_frequency 1\n -print_frequency 2\nEND\n"
                  "TRANSPORT\n -cells 3\n -shifts 2\n -lengths 0.1\n -dispersivities 0.01\n -time_step 100\n -punch_cells 2-3\n -print_cells 1\n -punch_frequency 2\n -print_frequency 1\nEND\n")
INPUTS["inverse"] = ("SOLUTION 1\n pH 7\n Na 1\n Cl 1\nSOLUTION 2\n pH 7\n Na 2\n Cl 2\nSELECTED_OUTPUT 2\n -reset false\n -inverse_modeling true\nEND\n"
                     "INVERSE_MODELING 1\n -solutions 1 2\n -phases\n  Halite\n -uncertainty 0.05\n -range\nPHASES\nHalite\n NaCl = Na+ + Cl-\n log_k 1.582\nEND\n")
# warnings while the log stream is active (KNOBS -logfile true): warnings are copied to the log
INPUTS["logwarn"] = "KNOBS\n -logfile true\n" + INPUTS["warn"] + "USE solution 1\nREACTION 1\n NaCl 1\n 1 mmol\nSAVE solution\nEND\n"
# definitions and print switches that change between the simulations of one call
INPUTS["redef"] = ("SOLUTION 1\n pH 7\n Na 1\n Cl 1\nSELECTED_OUTPUT 1\n -totals Na\nEND\n"
                   "SELECTED_OUTPUT 1\n -totals Cl\nUSE solution 1\nREACTION 1\n NaCl 1\n 1 mmol\nEND\n")
INPUTS["printsw"] = ("SOLUTION 1\n pH 7\n Na 1\n Cl 1\nSELECTED_OUTPUT 1\n -totals Na\nDUMP\n -solution 1\nEND\n"
                     "PRINT\n -dump false\n -selected_output false\nSOLUTION 2\n pH 8\n K 1\n Cl 1\nDUMP\n -solution 2\nEND\n"
                     "PRINT\n -dump true\n -selected_output true\nUSE solution 2\nREACTION 1\n NaCl 1\n 1 mmol\nEND\n")
INPUTS["printdump"] = ("SOLUTION 1\n pH 7\n Na 1\n Cl 1\nDUMP\n -solution 1\nEND\n"
                       "PRINT\n -dump false\nSOLUTION 2\n pH 8\n K 1\n Cl 1\nDUMP\n -solution 2\nEND\n")
CUSTOM = {"Output": "o.txt", "Log": "l.txt", "Error": "e.txt", "Dump": "d.txt"}


def setter(name):
    return "SetErrorOn" if name == "Error" else "Set%sOn" % name


def apply_cfg(d, cfg, cur):
    for name, v in zip(GLOBAL, cfg):
        d.call("s0", "c", setter(name), int(v))
    for (name, n), v in zip(PERUSER, cfg[len(GLOBAL):]):
        d.call("s0", "c", "SetCurrentSelectedOutputUserNumber", n)
        d.call("s0", "c", "Set%sOn" % name, int(v))
    d.call("s0", "c", "SetCurrentSelectedOutputUserNumber", cur)


def snapshot(d):
    """All string channels incl. line accessors for indices -1..count+1, per-user selected output, files."""
    o = d.obs("s0", "c", "gsu")
    lines = {}
    for ch in ["Output", "Error", "Warning", "Log", "Dump"]:
        n = d.call("s0", "c", "Get%sStringLineCount" % ch)
        lines[ch] = (n, d.cmd("lines", "s0", "c", "Get%sStringLine" % ch, -1, n + 1)["r"])
    cur = o["GetCurrentSelectedOutputUserNumber"]
    sel_lines = {}
    for u in o["users"]:
        d.call("s0", "c", "SetCurrentSelectedOutputUserNumber", u)
        n = d.call("s0", "c", "GetSelectedOutputStringLineCount")
        sel_lines[u] = (n, d.cmd("lines", "s0", "c", "GetSelectedOutputStringLine", -1, n + 1)["r"])
    d.call("s0", "c", "SetCurrentSelectedOutputUserNumber", cur)
    t = d.obs("s0", "c", "t")
    return o, lines, sel_lines, t["sel"], d.files()


def split_lines(s):
    if s == "":
        return []
    l = s.split("\n")
    if l[-1] == "":
        l.pop()
    return l


def relclose(a, b, tol=1e-6):
    if isinstance(a, (int, float)) and isinstance(b, (int, float)) and not isinstance(a, bool):
        return abs(a - b) <= tol * max(abs(a), abs(b), 1e-300)
    return a == b


def dump_append_equal(f_new, f_old, s_new, s_old):
    """DUMP -append adds to whatever the sink held before the call; the two sinks may have different histories
    (one of them was off earlier), so compare what each *received in this call*."""
    fd = f_new[len(f_old):] if f_old and f_new.startswith(f_old) else f_new
    sd = s_new[len(s_old):] if s_old and s_new.startswith(s_old) else s_new
    return fd == sd or fd == s_new or f_new == sd


def judge(tag, cfg, names, o, lines, sel_lines, tables, files, before, problems, ref_tables, cur_at_run):
    sw = dict(zip(GLOBAL + ["%s%d" % p for p in PERUSER], cfg))
    # --- output / log / dump: file == string when both on; off => nothing received
    for ch in ["Output", "Log", "Dump"]:
        fname = o["Get%sFileName" % ch]
        fon, son = sw[ch + "File"], sw[ch + "String"]
        s = o["Get%sString" % ch]
        if fon and son:
            if fname not in files:
                if s != "":
                    problems.append(("%s-file-missing" % ch, "%s: string sink has %d bytes but file %r does not exist (%s)" % (ch, len(s), fname, tag)))
            elif files[fname] != s and not (ch == "Dump" and dump_append_equal(files[fname], before["files"].get(fname, ""), s, before.get("dump", ""))):
                problems.append(("%s-file-ne-string" % ch, "%s: file %r (%d bytes) != string (%d bytes) (%s)" % (ch, fname, len(files[fname]), len(s), tag)))
        if not fon:
            if files.get(fname) != before["files"].get(fname):
                problems.append(("%s-file-written-while-off" % ch, "%s: file sink off but %r created/modified (%s)" % (ch, fname, tag)))
        if not son:
            msg = "Get%sString: %sStringOn not set.\n" % (ch, ch)
            if s != msg:
                problems.append(("%s-string-off-getter" % ch, "%s: getter with sink off returned %r (%s)" % (ch, s[:80], tag)))
    # --- error: every line of the error string appears in the error file in order
    es = o["GetErrorString"]
    if sw["ErrorFile"] and sw["ErrorString"] and sw["Error"]:
        ef = files.get(o["GetErrorFileName"], "")
        fl = split_lines(ef)
        pos = 0
        for l in split_lines(es):
            try:
                pos = fl.index(l, pos) + 1
            except ValueError:
                problems.append(("Error-line-missing-in-file", "error string line %r not found (in order) in error file (%s)" % (l[:100], tag)))
                break
    if not sw["ErrorFile"]:
        fname = o["GetErrorFileName"]
        if files.get(fname) != before["files"].get(fname):
            problems.append(("Error-file-written-while-off", "error file sink off but %r created/modified (%s)" % (fname, tag)))
    # --- line accessors
    for ch, (n, got) in lines.items():
        s = o["Get%sString" % ch]
        on = True if ch == "Warning" else sw.get(ch + "String", True)
        if ch == "Error":
            on = sw["ErrorString"] and sw["Error"]      # the getter answers with a notice unless both are on
        exp = split_lines(s) if on else None
        if exp is not None:
            want = [""] + exp + ["", ""]
            if n != len(exp) or got != want:
                problems.append(("%s-lines" % ch, "%s: line accessors disagree with string: count %d vs %d lines; first diff %r (%s)" % (
                    ch, n, len(exp), next(((i - 1, a, b) for i, (a, b) in enumerate(zip(got, want)) if a != b), None), tag)))
    # --- selected output per user number
    for u in o["users"]:
        e = o["sel"][str(u)]
        fon, son = bool(e["fileon"]), bool(e["stron"])
        want_f = sw.get("SelectedOutputFile%d" % u, False)
        want_s = sw.get("SelectedOutputString%d" % u, False)
        if fon != want_f or son != want_s:
            problems.append(("sel-switch-readback", "user %d: switches read back (%s,%s) but were set (%s,%s) (%s)" % (u, fon, son, want_f, want_s, tag)))
        s = e["str"]
        fname = e["fname"]
        if not want_f and files.get(fname) != before["files"].get(fname):
            problems.append(("sel-file-written-while-off user=%d" % u, "selected output %d: file sink off but %r created/modified (%s)" % (u, fname, tag)))

        def string_sink_problems(on):
            """Problems of user u's string sink under the hypothesis that its switch is `on`."""
            pr = []
            if on:
                if want_f and files.get(fname) != s:
                    f = files.get(fname)
                    # mechanism: the file was truncated where a later simulation redefined the block - it holds exactly the tail of
                    # the string that begins at a heading line (= a line the string does not start with)
                    tail = f is not None and len(f) < len(s) and s.endswith(f) and s[:len(s) - len(f)].endswith("\n") and split_lines(f)[:1] != split_lines(s)[:1]
                    pr.append(("sel-file-holds-only-the-last-definition (SELECTED_OUTPUT n defined again in a later simulation of the call: file truncated there, string keeps the earlier rows)"
                               if tail else "sel-file-ne-string", "selected output %d: file %r (%s bytes) != string (%d bytes)" % (
                        u, fname, len(files[fname]) if fname in files else None, len(s))))
                n, got = sel_lines[u]
                exp = split_lines(s)
                if n != len(exp) or got != [""] + exp + ["", ""]:
                    pr.append(("sel-lines", "selected output %d: line accessors disagree with string (%d vs %d)" % (u, n, len(exp))))
                if e["rows"] > 0 and len(exp) == 0:
                    pr.append(("sel-string-empty-while-on", "selected output %d: string sink on, table has %d rows, string is empty" % (u, e["rows"])))
            else:
                if e["nlines"] != 0 or s != "":
                    pr.append(("sel-string-received-while-off", "selected output %d: string sink off but holds %d bytes / %d lines" % (u, len(s), e["nlines"])))
            return pr

        pr = string_sink_problems(want_s)
        if pr:
            # known finding F1: the string sink of every user number is governed by the switch of the user number
            # that is *current* when the run starts (IPhreeqc::get_sel_out_string_on ignores its argument)
            eff = bool(sw.get("SelectedOutputString%d" % cur_at_run, False))
            alt = string_sink_problems(eff) if eff != want_s else pr
            # (the other recorded mechanism, a file truncated by a redefinition, may be present at the same time)
            if eff != want_s and not [x for x in alt if not x[0].startswith("sel-file-holds-only-the-last-definition")]:
                problems.append(("sel-string-sink-governed-by-current-user-number",
                                 "selected output %d: string switch is %s but the sink behaved as switched %s = the switch of the current user number %d (%s)" % (
                                     u, want_s, eff, cur_at_run, tag)))
                for fp, what in alt:
                    problems.append(("%s user=%d" % (fp, u), "%s (%s)" % (what, tag)))
            else:
                for fp, what in pr:
                    problems.append(("%s user=%d" % (fp, u), "%s (%s)" % (what, tag)))
    # --- results do not depend on the sinks
    if ref_tables is not None:
        if sorted(tables) != sorted(ref_tables):
            problems.append(("results-differ", "user numbers %s vs reference %s (%s)" % (sorted(tables), sorted(ref_tables), tag)))
        else:
            for u in tables:
                a, b = tables[u]["table"], ref_tables[u]["table"]
                same = len(a) == len(b) and all(len(x) == len(y) and all(relclose(p, q) for p, q in zip(x, y)) for x, y in zip(a, b))
                if not same:
                    problems.append(("results-differ", "selected-output table %s differs from the all-sinks-off run (%s)" % (u, tag)))


def one_call(d, cfg, names, cur, inp, problems, tag, ref=None, before=None):
    apply_cfg(d, cfg, cur)
    if before is None:
        before = {"files": d.files()}
    rc = d.call("s0", "c", "RunString", INPUTS[inp])
    o, lines, sel_lines, tables, files = snapshot(d)
    judge(tag, cfg, names, o, lines, sel_lines, tables, files, before, problems, ref, cur)
    return rc, o, tables, files


_ref_cache = {}


def load_db(d, how):
    """how: ok = phreeqc.dat; none = no LoadDatabase call at all; missing = a LoadDatabase that fails (file does not exist),
    which leaves the instance without a database - every Run* then stops with 'No database is loaded'."""
    if how == "ok":
        d.call("s0", "c", "LoadDatabase", DB)
    elif how == "missing":
        d.call("s0", "c", "LoadDatabase", "no_such_database.dat")


def reference(d, inp_seq, dbs=("ok", None)):
    """Selected-output tables of the same call sequence with every sink off (fresh instance)."""
    key = (tuple(inp_seq), tuple(dbs))
    if key not in _ref_cache:
        d.reset()
        d.new("c")
        load_db(d, dbs[0])
        tabs = None
        for k, inp in enumerate(inp_seq):
            if k == 1 and dbs[1]:
                load_db(d, dbs[1])
            apply_cfg(d, [0] * NSW, 1)
            d.call("s0", "c", "RunString", INPUTS[inp])
            tabs = d.obs("s0", "c", "t")["sel"]
        _ref_cache[key] = tabs
    return _ref_cache[key]


def run_case(case):
    d = core.get_drv("rel")
    cfg, names, cur, inp = case["cfg"], case["names"], case["cur"], case["input"]
    seq = [inp] + ([case["input2"]] if case.get("flip") is not None else [])
    dbs = (case.get("db", "ok"), case.get("db2"))
    ref1 = reference(d, seq[:1], dbs)
    ref2 = reference(d, seq, dbs) if len(seq) > 1 else None
    d.reset()
    d.new("c")
    load_db(d, dbs[0])
    if names:
        for ch, fn in CUSTOM.items():
            d.call("s0", "c", "Set%sFileName" % ch, fn)
        for n in (1, 2):
            d.call("s0", "c", "SetCurrentSelectedOutputUserNumber", n)
            d.call("s0", "c", "SetSelectedOutputFileName", "s%d.txt" % n)
    problems = []
    ops = 1
    rc, o, tables, files = one_call(d, cfg, names, cur, inp, problems, "call 1")
    mask = lambda fs: sorted(re.sub(r"\.\d+\.", ".ID.", f) for f in fs)
    outcome = [rc, mask(files), o["users"]]
    if case.get("flip") is not None:
        cfg2 = list(cfg)
        cfg2[case["flip"]] = 0 if cfg2[case["flip"]] else 1
        before = {"files": files, "dump": o["GetDumpString"] if cfg[GLOBAL.index("DumpString")] else ""}
        if dbs[1]:
            load_db(d, dbs[1])
            before["files"] = d.files()
        rc2, o2, tables2, files2 = one_call(d, cfg2, names, cur, case["input2"], problems, "call 2 after flipping %s" % (GLOBAL + ["%s%d" % p for p in PERUSER])[case["flip"]], ref2, before)
        outcome += [rc2, mask(files2)]
        ops += 1
    # de-duplicate problems by fingerprint inside one case
    seen, uniq = set(), []
    for p in problems:
        if p[0] not in seen:
            seen.add(p[0])
            uniq.append(p)
    return {"case": case, "problems": uniq, "ops": ops, "states": [core.sha(repr((case["cfg"], case.get("flip"), case.get("db"), case.get("db2"))))],
            "outcome": core.sha(repr(outcome)), "script": d.script(),
            "sample": {"case": case, "rc": rc, "files": sorted(files)}}


def cases(tier):
    out = []
    bits = lambda n, k: [(n >> i) & 1 for i in range(k)]
    if tier == "quick":
        # all 2^9 global configurations (per-user all on) on the two richest inputs; all 2^4 per-user x cur x names on the
        # two-block inputs; single flips from the all-off and all-on corners
        for inp in ("warn", "dump", "carry"):
            for g in range(2 ** len(GLOBAL)):
                out.append({"input": inp, "cfg": bits(g, len(GLOBAL)) + [1, 1, 1, 1], "names": 0, "cur": 1})
        for inp in ("warn", "two", "err2"):
            for p in range(16):
                for cur in (1, 2):
                    for names in (0, 1):
                        out.append({"input": inp, "cfg": [1] * len(GLOBAL) + bits(p, 4), "names": names, "cur": cur})
        for inp in ("flow", "inverse", "logwarn"):
            for g in range(2 ** len(GLOBAL)):
                out.append({"input": inp, "cfg": bits(g, len(GLOBAL)) + [1, 1, 1, 1], "names": g & 1, "cur": 1 + (g & 1)})
        for inp in ("plain", "log", "redef", "printsw", "printdump"):
            for names in (0, 1):
                out.append({"input": inp, "cfg": [1] * NSW, "names": names, "cur": 1})
                out.append({"input": inp, "cfg": [0] * NSW, "names": names, "cur": 1})
        for inp in ("redef", "printsw", "printdump"):
            for g in range(16):      # dump file/string x selected-output file/string of user 1
                cfg = [1] * NSW
                cfg[GLOBAL.index("DumpFile")], cfg[GLOBAL.index("DumpString")] = g & 1, (g >> 1) & 1
                cfg[len(GLOBAL)], cfg[len(GLOBAL) + 1] = (g >> 2) & 1, (g >> 3) & 1
                out.append({"input": inp, "cfg": cfg, "names": 1, "cur": 1})
        for corner in (0, 1):
            for f in range(NSW):
                for i1, i2 in (("warn", "two"), ("dump", "dump"), ("carry", "carry")):
                    out.append({"input": i1, "cfg": [corner] * NSW, "names": 0, "cur": 1, "flip": f, "input2": i2})
        # runs on an instance that holds no database (never loaded / last load failed): every global configuration, and
        # after a successful first call with every sink on
        for db in ("none", "missing"):
            for g in range(2 ** len(GLOBAL)):
                out.append({"input": "warn", "cfg": bits(g, len(GLOBAL)) + [1, 1, 1, 1], "names": g & 1, "cur": 1, "db": db})
        for corner in (0, 1):
            for f in range(NSW):
                out.append({"input": "log", "cfg": [corner] * NSW, "names": f & 1, "cur": 1, "flip": f, "input2": "warn", "db2": "missing"})
    else:
        for db in ("none", "missing"):
            for g in range(2 ** NSW):
                out.append({"input": ("warn", "dump", "log")[g % 3], "cfg": bits(g, NSW), "names": (g >> 3) & 1, "cur": 1 + ((g >> 5) & 1), "db": db})
        for g in range(2 ** NSW):
            f = g % NSW
            out.append({"input": "log", "cfg": bits(g, NSW), "names": (g >> 3) & 1, "cur": 1, "flip": f, "input2": "warn", "db2": "missing"})
        for inp in INPUTS:
            for g in range(2 ** NSW):
                out.append({"input": inp, "cfg": bits(g, NSW), "names": (g >> 3) & 1, "cur": 1 + ((g >> 5) & 1)})
        for g in range(2 ** NSW):
            for f in range(NSW):
                i1, i2 = (("warn", "two"), ("dump", "dump"), ("carry", "carry"))[(g + f) % 3]
                out.append({"input": i1, "cfg": bits(g, NSW), "names": 0, "cur": 1 + (g & 1), "flip": f, "input2": i2})
    # simplest first: fewer enabled sinks, no flip
    out.sort(key=lambda c: (c.get("flip") is not None, sum(c["cfg"]), c["names"]))
    return out


def run(tier):
    ev = core.Evidence(PROP, tier)
    findings = core.Findings(PROP)
    ev.assumptions = ["database/phreeqc.dat loads without error", "instance ids are only observable through default file names",
                      "warning string has no on/off switch (always recorded)"]
    pool = core.Pool()
    cs = cases(tier)
    dl = core.Deadline(240 if tier == "quick" else 1800)
    one = [c for c in cs if c.get("flip") is None]
    two = [c for c in cs if c.get("flip") is not None]
    done1 = core.explore_cases(one, run_case, ev, findings, pool, chunksize=8, deadline=dl)
    ev.bound("one-call histories: %d configurations x inputs" % len(one), done1, cases=len(one))
    done2 = False
    if done1:
        done2 = core.explore_cases(two, run_case, ev, findings, pool, chunksize=8, deadline=dl)
    ev.bound("two-call histories with one switch flip: %d" % len(two), done2, cases=len(two))
    ev.extra["alphabet"] = {"switches": GLOBAL + ["%s(user %d)" % p for p in PERUSER], "inputs": sorted(INPUTS), "file_names": ["default", "custom"], "database_at_run": ["loaded", "never loaded", "last LoadDatabase failed"], "current_user_number_at_run": [1, 2]}
    pool.close()
    return core.finish(ev, findings)


def replay(path):
    return core.replay_main(PROP, path, run_case)
