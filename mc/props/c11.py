"""C11  Transport only moves dissolved mass: conservation, exact shifts, bounded mixing.

Shape L: the full Cartesian product of small per-dimension value sets of column set-ups (cells, lengths,
dispersivity, diffusion coefficient, time step, shifts, direction, boundary conditions, stagnant layer,
multicomponent / implicit diffusion, initial pattern, inflow solution, reactive solid), organised in families so that
dimensions that cannot influence a family are not multiplied in.  Every point is one TRANSPORT / ADVECTION run on
the real library (a brand-new instance per point); the per-cell, per-shift read-outs (USER_PUNCH: TOTMOLE, TOT("water"),
CHARGE_BALANCE, TC, SYS) are judged by the regime-specific relations in mc/oracles/c11_transport.py:

  inventory  diffusion_only + closed/closed + (equal lengths or multi_d): column inventory (mobile + stagnant cells, with
             solids: SYS totals) of H, O, Na, K, Cl, Ca, N, C and of charge the same at every shift, relative 1e-9
  shift      pure advection (TRANSPORT with disp = D = 0, ADVECTION): cell i after a shift == upstream neighbour before
             it (all element totals, water, charge, temperature; relative 1e-9 because the engine re-speciates)
  convex     single D, no multi_d, no solid: every molality within [min, max] of initial column U boundary solutions
  balance    pure advection with exchanger / calcite: inventory incl. solids (s) = inventory (s-1) + inflow - outflow

Only runs with rc == 0 and no ERROR are judged (R2); the others are counted.  A diffusion-only column in which the
engine finds nothing to mix (one cell, closed ends) prints no rows after shift 0 and is counted as 'no mixing'.

Calibration on the unchanged tree (R5).  Every mismatch is an inventory mismatch of a multicomponent-diffusion run with
one stagnant layer, and every one is a genuine loss / creation / conversion of moles (percent level, minimal inputs in
the fingerprinted replay files).  The oracle was therefore left as the statement has it; what was changed is the
fingerprint, which now names the mechanism seen in the observables (oracle.classify):
  'inventory element unannounced mode=implicit stag=1'                  moles leave a mobile cell and never arrive in its
                                                                        stagnant cell (also with explicit MIX factors)
  'inventory element like-named-element-exchange mode=mcd stag=1'       a deficit of Cl / Ca / Na is filled from C / N
  'inventory element engine-announced-addition mode=mcd|implicit stag=1' negative totals reset to 0 / min_mol; the engine
                                                                        announces the added moles in a WARNING
A different failure in the same configurations gets a different fingerprint unless it is an unannounced loss in
implicit + stagnant runs.  No sub-claim of the statement was dropped and no tolerance widened.
"""
import os
import re
import sys
import time

from .. import core, phr
from ..oracles import c11_transport as orc

PROP = "C11"
DBNAME = "phreeqc.dat"

ELEMENTS = ["Na", "K", "Cl", "Ca", "N", "C"]
L0 = 0.02                                  # m, base cell length

# ---------------------------------------------------------------- solutions (mmol/kgw, pH 7 unless stated)
SOL = {
    "NaCl": "pH 7\n Na 1\n Cl 1",
    "A": "pH 7\n Na 1\n Cl 1\n K 0.2\n N(5) 0.2",
    "B": "pH 7\n K 2\n Cl 1\n Ca 0.5\n N(5) 2",
    "A2": "pH 7\n Na 2\n Cl 1",                         # charge imbalance +1 meq
    "B2": "pH 7\n K 0.5\n Cl 1\n N(5) 0.1",             # charge imbalance -0.6 meq
    "acid": "pH 3 charge\n Cl 1\n Na 0.1",
    "base": "pH 8.3\n Na 2 charge\n C(4) 2\n Cl 0.2",
    "I0": "pH 7\n Ca 0.5\n Cl 1",
    "I1": "pH 7\n K 1.5\n N(5) 0.5\n Cl 2\n Na 1",
    # pattern "band": column and boundary solutions hold the same elements at different levels, so that a non-convex mixing step
    # shows up as a value outside the band instead of a negative concentration (= a failed run, which is not judged)
    "Ba": "pH 7\n Na 1\n K 0.5\n Cl 1.5",
    "Bb": "pH 7\n Na 2\n K 1\n Cl 3",
}
PATTERNS = ["uniform", "step", "alt", "acidbase"]
DIRS = {"forward": 1, "back": -1, "diffusion_only": 0}


def cell_solution(pat, i, n):
    if pat == "uniform":
        return "NaCl"
    if pat == "step":
        return "A" if i <= (n + 1) // 2 else "B"
    if pat == "alt":
        return "A2" if i % 2 else "B2"
    if pat == "acidbase":
        return "acid" if i % 2 else "base"
    if pat == "band":
        return "Ba"
    raise ValueError(pat)


def lengths(kind, n):
    if kind == "equal":
        return [L0] * n
    if kind == "alternating":
        return [L0 if i % 2 == 0 else 2 * L0 for i in range(n)]
    if kind == "growing":
        return [L0 * (1 + 0.5 * i) for i in range(n)]
    raise ValueError(kind)


# one stagnant layer.  1, 2: first-order exchange given with -stagnant (exchange factor, th_m, th_im) + kg water in the immobile
# cells; 3: '-stagnant 1' with the mobile/immobile exchange written as explicit, symmetric MIX blocks (the way the manual
# prescribes for multicomponent diffusion; the engine then prints no usage warning), fraction MIXF, 1 kg water everywhere
# 4: two stagnant layers, '-stagnant 2', explicit symmetric MIX blocks mobile <-> layer 1 (MIXF 0.1) and layer 1 <-> layer 2 (0.25)
STAG = {0: None, 1: (6.8e-6, 0.2, 0.2, 1.0), 2: (6.8e-6, 0.2, 0.1, 0.5), 3: ("mix", 0.1, None, 1.0), 4: ("mix2", 0.1, 0.25, 1.0)}


def stag_layers(stag_id):
    return 0 if not stag_id else (2 if STAG[stag_id][0] == "mix2" else 1)


def build_input(c):
    n = c["n"]
    solid = c.get("solid", "none")
    stag = STAG[c.get("stag", 0)]
    els = ELEMENTS
    t = []
    t.append("SELECTED_OUTPUT 1\n -reset false\n -high_precision true\n -state true\n -solution true\n -step true")
    heads = ["w", "cb", "tc", "H", "O"] + els
    expr = ['TOT("water")', "CHARGE_BALANCE", "TC", 'TOTMOLE("H")', 'TOTMOLE("O")'] + ['TOTMOLE("%s")' % e for e in els]
    lines = ["10 PUNCH " + ", ".join(expr)]
    if solid != "none":
        k = 20
        for e in ["H", "O"] + els:
            heads.append("sys_" + e)
            lines.append('%d PUNCH SYS("%s", cnt, nam$, typ$, amt)' % (k, e))
            k += 10
    if solid.startswith("kin"):
        heads.append("kin")                 # SYS() does not count kinetic reactants: the amount of the KCl reactant is read separately
        lines.append('500 PUNCH KIN("Salt")')
        t.append("RATES\n Salt\n -start\n 10 SAVE PARM(1) * TIME\n -end")
    t.append("USER_PUNCH 1\n -headings %s\n %s" % (" ".join(heads), "\n ".join(lines)))
    d = DIRS[c["dir"]]
    inflow = c.get("inflow", 0)
    first, last = ("I%d" % inflow, "I%d" % (1 - inflow)) if d >= 0 else ("I%d" % (1 - inflow), "I%d" % inflow)
    if c["pat"] == "band":
        first = last = "Bb"
    t.append("SOLUTION 0\n %s" % SOL[first])
    for i in range(1, n + 1):
        t.append("SOLUTION %d\n %s" % (i, SOL[cell_solution(c["pat"], i, n)]))
    t.append("SOLUTION %d\n %s" % (n + 1, SOL[last]))
    if stag:
        for i in range(1, n + 1):
            t.append("SOLUTION %d\n %s\n -water %r" % (i + 1 + n, SOL[cell_solution(c["pat"], i + 1, n)], stag[3]))
        if stag[0] == "mix":
            f = stag[1]
            for i in range(1, n + 1):
                k = i + 1 + n
                t.append("MIX %d\n %d %r\n %d %r" % (i, i, 1 - f, k, f))
                t.append("MIX %d\n %d %r\n %d %r" % (k, k, 1 - f, i, f))
        if stag[0] == "mix2":
            f1, f2 = stag[1], stag[2]
            for i in range(1, n + 1):
                t.append("SOLUTION %d\n %s\n -water %r" % (i + 1 + 2 * n, SOL[cell_solution(c["pat"], i + 2, n)], stag[3]))
            for i in range(1, n + 1):
                k1, k2 = i + 1 + n, i + 1 + 2 * n
                t.append("MIX %d\n %d %r\n %d %r" % (i, i, 1 - f1, k1, f1))
                t.append("MIX %d\n %d %r\n %d %r\n %d %r" % (k1, k1, 1 - f1 - f2, i, f1, k2, f2))
                t.append("MIX %d\n %d %r\n %d %r" % (k2, k2, 1 - f2, k1, f2))
    if solid == "exchange":
        for i in range(1, n + 1):
            t.append("EXCHANGE %d\n X 0.0015\n -equilibrate %d" % (i, i))
    elif solid == "calcite":
        t.append("EQUILIBRIUM_PHASES 1-%d\n Calcite 0 0.004" % n)
    elif solid.startswith("kin"):
        # a zero-order source of KCl in the upstream half of the column, integrated with Runge-Kutta or CVODE
        t.append("KINETICS 1-%d\n Salt\n -formula KCl 1\n -m0 0.03\n -m 0.03\n -parms 1e-10\n -tol 1e-10\n -cvode %s" % (
            max(1, n // 2), "true" if solid == "kincv" else "false"))
    t.append("END")
    if c["fam"] == "ADV":
        t.append("ADVECTION\n -cells %d\n -shifts %d\n -time_step %r\n -punch_cells 1-%d\n -punch_frequency 1\n -print_frequency 1000" % (
            n, c["shifts"], c["dt"], n))
    else:
        lastcell = (1 + stag_layers(c.get("stag", 0))) * n + 1
        tr = ["TRANSPORT", "-cells %d" % n, "-shifts %d" % c["shifts"], "-time_step %r" % c["dt"],
              "-flow_direction %s" % c["dir"], "-boundary_conditions %s %s" % tuple(c["bc"]),
              "-lengths " + " ".join("%r" % x for x in lengths(c["len"], n)),
              "-dispersivities " + " ".join("%r" % (c["disp"] * x) for x in lengths(c["len"], n)),
              "-diffusion_coefficient %r" % c["D"], "-punch_cells 0-%d" % lastcell, "-punch_frequency 1", "-print_frequency 1000"]
        if c.get("cd"):
            tr.append("-correct_disp true")
        if stag:
            tr.append("-stagnant 1" if stag[0] == "mix" else "-stagnant 2" if stag[0] == "mix2" else "-stagnant 1 %r %r %r" % stag[:3])
        mode = c.get("mode", "plain")
        if mode in ("mcd", "implicit"):
            tr.append("-multi_d true 1e-9 0.3 0.05 1.0")
        if mode == "implicit":
            tr.append("-implicit true")
        t.append("\n ".join(tr))
    t.append("END")
    return "\n".join(t) + "\n"


def regime(c):
    """Which sub-claims of the statement apply to configuration c (decided from the configuration only)."""
    solid = c.get("solid", "none")
    mode = c.get("mode", "plain")
    stag = c.get("stag", 0)
    r = set()
    if c["fam"] == "ADV":
        r.add("shift" if solid == "none" else "balance")
        return r
    d = DIRS[c["dir"]]
    closed = c["bc"] == ["closed", "closed"]
    if d == 0 and closed and (c["len"] == "equal" or mode != "plain"):
        r.add("inventory")
    pure_adv = d != 0 and c["disp"] == 0 and c["D"] == 0 and stag == 0 and mode == "plain"
    if pure_adv:
        r.add("shift" if solid == "none" else "balance")
    if mode == "plain" and solid == "none":
        r.add("convex")
    return r


def table(res):
    rows = res["sel"].get(1, [])
    init, by_step, dup = {}, {}, 0
    for r in rows:
        st = r.get("state")
        if st == "i_soln":
            init[r["soln"]] = r
        elif st in ("transp", "advect"):
            cells = by_step.setdefault(r["step"], {})
            if r["soln"] in cells:
                dup += 1
            cells[r["soln"]] = r
    return init, by_step, dup


ADDED_HEAD = "For balancing negative concentrations in MCD, added in total to the system:"
ADDED_LINE = re.compile(r"^(?:WARNING:)?\s*([0-9.]+[eE][-+]?[0-9]+) moles ([A-Z][a-z]*)(?:\([-+0-9.]*\))?\.\s*$")


def announced_additions(warn):
    """{element: moles} the engine itself announces (WARNING at the end of a multicomponent-diffusion run) to have added to
    the system to repair negative concentrations.  Only used to name the mechanism in a fingerprint."""
    out = {}
    lines = (warn or "").splitlines()
    for i, l in enumerate(lines):
        if ADDED_HEAD in l:
            for m in lines[i + 1:]:
                g = ADDED_LINE.match(m.strip())
                if g:
                    out[g.group(2)] = out.get(g.group(2), 0.0) + float(g.group(1))
                elif m.strip() not in ("", "WARNING:"):
                    break
    return out


REPORTS = {"last": lambda n: " -punch_cells %d\n -print_cells %d\n -punch_frequency 1\n -print_frequency 1" % (n, n),
           "freq2": lambda n: " -punch_cells 1-%d\n -punch_frequency 2\n -print_frequency 2" % n,
           "none": lambda n: " -punch_cells %d\n -print_cells %d\n -punch_frequency 1000\n -print_frequency 1000" % (n, n)}


def run_report_case(case):
    """ADVECTION without reactants: `shifts` shifts with a restricted report set (only the last cell / every second shift /
    nothing), then one more shift of the same column with every cell reported.  What is printed or punched must not matter:
    after shifts + 1 shifts cell i holds the initial solution of cell i - (shifts + 1), or the inflow solution."""
    s = phr.Session(DBNAME)
    n, K = case["n"], case["shifts"] + 1
    base = build_input(dict(case, fam="ADV", dir="forward"))
    head, _, adv = base.rpartition("ADVECTION")
    first = "ADVECTION\n -cells %d\n -shifts %d\n -time_step %r\n%s\nEND\n" % (n, case["shifts"], case["dt"], REPORTS[case["report"]](n))
    second = "ADVECTION\n -cells %d\n -shifts 1\n -time_step %r\n -punch_cells 1-%d\n -print_cells 1-%d\n -punch_frequency 1\n -print_frequency 1\nEND\n" % (n, case["dt"], n, n)
    text = head + first + second
    res = s.run(text)
    out = {"case": case, "problems": [], "ops": 1, "states": [core.sha(repr(sorted(case.items())))], "script": s.d.script(), "diagnostics": []}
    if res["rc"] != 0 or res["err"]:
        out.update(not_completed=True, outcome="not-completed", sample={"case": case, "rc": res["rc"], "err": (res["err"] or "")[:300]})
        return out
    rows = res["sel"].get(1, [])
    init = {r["soln"]: r for r in rows if r.get("state") == "i_soln"}
    last = [r for r in rows if r.get("state") == "advect"][-n:]
    if len(last) != n or sorted(r["soln"] for r in last) != list(range(1, n + 1)):
        raise RuntimeError("fully reported final shift: expected one row per cell, got %r (%r)" % ([r.get("soln") for r in last], case))
    fields = ELEMENTS + ["H", "O", "w", "cb", "tc"]
    worst = 0.0
    for r in last:
        i = r["soln"]
        src = init[i - K] if i - K >= 1 else init[0]
        sc = sum(abs(src[f]) for f in ELEMENTS)
        for f in fields:
            if src[f] != 0 and f != "cb":
                worst = max(worst, abs(src[f] - r[f]) / abs(src[f]))
            if not orc._close(src[f], r[f], sc if f == "cb" else 0.0):
                out["problems"].append(("shift depends on what is reported: ADVECTION report=%s" % case["report"],
                                        "pure advection, %d shifts reported as '%s' then one fully reported shift: cell %d has %s = %.17g, its source (%s) had %.17g" % (
                                            case["shifts"], case["report"], i, f, r[f], "cell %d" % (i - K) if i - K >= 1 else "inflow solution", src[f])))
                break
        if out["problems"]:
            break
    out["outcome"] = core.sha(repr([[round(r[f], 12) for f in ELEMENTS] for r in last]))
    out["sample"] = {"case": case, "worst_relative": worst}
    return out


def run_case(case):
    if case.get("report"):
        return run_report_case(case)
    # a brand-new instance per case: TRANSPORT settings (e.g. -stagnant) survive LoadDatabase on a used instance
    s = phr.Session(DBNAME)
    text = build_input(case)
    res = s.run(text)
    out = {"case": case, "problems": [], "ops": 1, "states": [core.sha(repr(sorted(case.items())))], "script": s.d.script(), "diagnostics": []}
    reg = regime(case)
    if res["rc"] != 0 or res["err"]:
        out["not_completed"] = True
        out["outcome"] = "not-completed"
        out["sample"] = {"case": case, "rc": res["rc"], "err": (res["err"] or "")[:300]}
        out["diagnostics"].append("not completed: %s: %s" % (case, (res["err"] or "")[:160].replace("\n", " | ")))
        return out
    n = case["n"]
    init, by_step, dup = table(res)
    d = DIRS[case["dir"]] if case["fam"] == "TR" else 1
    stag = case.get("stag", 0)
    solid = case.get("solid", "none")
    cells = list(range(1, n + 1)) + [k for layer in range(1, stag_layers(stag) + 1) for k in range(layer * n + 2, (layer + 1) * n + 2)]
    # ---- vacuity guards on the observable: every expected row must be there (harness error otherwise)
    for k in range(0, n + 2):
        if k not in init:
            raise RuntimeError("initial-solution row of solution %d missing: %r" % (k, case))
    first_step = 1 if case["fam"] == "ADV" else 0
    if case["fam"] == "TR" and sorted(by_step) == [0] and set(cells) <= set(by_step[0]) and d == 0:
        # a diffusion-only column in which the engine found nothing to mix (one cell, closed ends, or D = 0) prints
        # nothing after shift 0: nothing moved, nothing to judge
        out["outcome"] = "no-mixing-no-rows"
        out["sample"] = {"case": case, "judged": [], "note": "engine performed no mixing step; no rows after shift 0"}
        out["silent"] = True
        return out
    for st in range(first_step, case["shifts"] + 1):
        for cno in cells:
            if cno not in by_step.get(st, {}):
                raise RuntimeError("selected-output row missing for shift %d cell %d: %r (have %s)" % (st, cno, case, dict((k, sorted(v)) for k, v in by_step.items())))
    if case["fam"] == "ADV" and solid == "none":
        by_step[0] = dict((i, init[i]) for i in range(1, n + 1))
    for st in by_step:
        for cno in list(by_step[st]):
            if cno not in cells:
                del by_step[st][cno]      # boundary cells 0 / n+1 (constant boundary): not part of the column
    if solid.startswith("kin"):
        for cs_ in by_step.values():
            for r in cs_.values():
                r["sys_K"] += r.get("kin") or 0.0
                r["sys_Cl"] += r.get("kin") or 0.0
    if solid != "none":
        # vacuity guard: the whole-cell read-out must really include the solid
        if not any(r["sys_" + e] - r[e] > 1e-6 for cs_ in by_step.values() for r in cs_.values() for e in ("Na", "K", "Ca")):
            raise RuntimeError("SYS() totals never exceed the dissolved totals although a solid is present: %r" % (case,))
        if any(r["sys_" + e] < r[e] * (1 - 1e-9) for cs_ in by_step.values() for r in cs_.values() for e in ELEMENTS):
            raise RuntimeError("SYS() total below the dissolved total: %r" % (case,))
    tag_cfg = "mode=%s stag=%d" % (case.get("mode", "plain"), 1 if stag else 0)
    # the engine announces in a WARNING how many moles it added to repair negative concentrations in multicomponent
    # diffusion; the amounts only serve to name the mechanism of an inventory mismatch (oracle.classify), the verdict is
    # the statement's: inventory constant to 1e-9.  (1e-13 mol per cell of an absent element is the engine's floor.)
    announced = announced_additions(res["warn"])
    engine_added = any(v > 1e-12 for v in announced.values())
    problems = []
    worst = {}
    if "inventory" in reg:
        if solid == "none":
            p, w = orc.check_inventory(by_step, cells, ["H", "O"] + ELEMENTS, tag_cfg + (" len=equal" if case.get("mode", "plain") == "plain" else ""),
                                       announced=announced)
        else:
            ren = dict((st, dict((cno, dict([(e, r["sys_" + e]) for e in ["H", "O"] + ELEMENTS] + [("cb", r["cb"])])) for cno, r in cs.items())) for st, cs in by_step.items())
            p, w = orc.check_inventory(ren, cells, ["H", "O"] + ELEMENTS, "%s solid=%s" % (tag_cfg, solid))
        problems += p
        worst["inventory"] = w
    if "shift" in reg:
        entry = init[0] if d > 0 else init[n + 1]
        p, w = orc.check_shift(by_step, entry, n, d, ELEMENTS + ["H", "O", "w", "cb", "tc"],
                               "fam=%s dir=%s" % (case["fam"], case["dir"]), ELEMENTS)
        problems += p
        worst["shift"] = w
    if "convex" in reg:
        hull = [init[0], init[n + 1]] + [by_step[first_step if case["fam"] == "TR" else 0][cno] for cno in cells]
        bcs = case["bc"] if case["fam"] == "TR" else ["flux", "flux"]
        p, w = orc.check_convex(by_step, hull, cells, ELEMENTS, "dir=%s bc=%s/%s stag=%d" % (case["dir"], bcs[0], bcs[1], 1 if stag else 0))
        problems += p
        worst["convex"] = w
    if "balance" in reg:
        entry = init[0] if d > 0 else init[n + 1]
        p, w = orc.check_balance(by_step, entry, n, d, ["H", "O"] + ELEMENTS, lambda e: e, lambda e: "sys_" + e,
                                 "fam=%s solid=%s" % (case["fam"], solid))
        problems += p
        worst["balance"] = w
    seen, uniq = set(), []
    for p in problems:
        if p[0] not in seen:
            seen.add(p[0])
            uniq.append(p)
    out["problems"] = uniq
    last = by_step[max(by_step)]
    prof = tuple(round(last[cno][e] / last[cno]["w"], 9) for cno in cells for e in ("Na", "K", "Cl", "Ca"))
    out["outcome"] = core.sha(repr((sorted(reg), prof)))
    out["sample"] = {"case": case, "judged": sorted(reg), "worst_relative_deviation": worst,
                     "final_Cl_molality": [last[cno]["Cl"] / last[cno]["w"] for cno in cells][:8]}
    out["judged"] = sorted(reg)
    if dup:
        out["diagnostics"].append("%d duplicate (shift, cell) rows in selected output (last one used): %s" % (dup, case))
    if engine_added:
        out["sample"]["engine_warned_added_moles"] = announced
    return out


# ---------------------------------------------------------------- enumeration
def P(fam, **dims):
    """Full product of the given dimensions (simplest-first).  A key 'D_dt' carries (D, dt) pairs: the time step only
    matters through D*dt, so D = 0 is paired with one time step only."""
    keys = list(dims)
    for vals in core.product(*[dims[k] for k in keys]):
        c = {"fam": fam}
        for k, v in zip(keys, vals):
            if k == "D_dt":
                c["D"], c["dt"] = v
            else:
                c[k] = v
        yield c


BC2 = [["closed", "closed"], ["constant", "closed"], ["closed", "constant"], ["constant", "constant"]]
BC3 = [[a, b] for a in ("flux", "constant", "closed") for b in ("flux", "constant", "closed")]
LEN3 = ["equal", "alternating", "growing"]


def families(tier):
    q = tier == "quick"
    fam = []
    if q:
        N, SH = [1, 2, 3, 5, 8], [1, 3]
        DDT = [(0.0, 1e3), (1e-9, 1e3), (1e-9, 1e6)]
        # D1: diffusion only, one diffusion coefficient: inventory (closed, equal lengths) + convexity (all)
        fam.append(("diffusion-only, single D", P(
            "TR", n=N, len=LEN3, D_dt=DDT[1:] + [(3e-10, 1e6)], shifts=SH, dir=["diffusion_only"], bc=BC2, stag=[0, 1, 2, 3, 4], pat=PATTERNS,
            inflow=[0], disp=[0.0], mode=["plain"])))
        # D2: diffusion only, multicomponent (explicit / implicit), closed column: inventory
        fam.append(("diffusion-only, multicomponent", P(
            "TR", n=N, len=LEN3, D_dt=[(3e-10, 1e3), (3e-10, 1e5)], shifts=SH, dir=["diffusion_only"], bc=[["closed", "closed"]],
            stag=[0, 1, 2, 3], pat=PATTERNS, inflow=[0], disp=[0.0], mode=["mcd", "implicit"])))
        # A1: advection + dispersion + diffusion, one diffusion coefficient: exact shift (disp = D = 0) + convexity (all)
        fam.append(("advective TRANSPORT, single D", P(
            "TR", n=[1, 2, 3, 5], len=["equal", "growing"], disp=[0.0, 0.1, 2.0], D_dt=DDT, shifts=[3], dir=["forward", "back"], bc=BC3,
            stag=[0, 1], pat=["uniform", "alt", "band"], inflow=[0], mode=["plain"])))
        # A1c: the same with -correct_disp (numerical-dispersion correction for flux boundaries) on a finer dispersivity grid
        fam.append(("advective TRANSPORT, single D, -correct_disp", P(
            "TR", n=[2, 3, 5], len=["equal"], disp=[0.1, 0.3, 0.6, 1.2, 2.0], D_dt=[(0.0, 1e3), (1e-9, 1e3)], shifts=[3], dir=["forward", "back"],
            bc=[["flux", "flux"], ["flux", "constant"], ["constant", "flux"], ["flux", "closed"]], stag=[0], pat=["band", "uniform", "alt"], inflow=[0, 1],
            mode=["plain"], cd=[True])))
        # A2: ADVECTION keyword (no solid: exact shift; solids: balance)
        fam.append(("ADVECTION keyword", P(
            "ADV", n=N, shifts=[1, 2, 3], dt=[1e3], dir=["forward"], pat=PATTERNS, inflow=[0, 1], solid=["none", "exchange", "calcite"])))
        # A3: what is printed / punched during ADVECTION must not matter
        fam.append(("ADVECTION, restricted report set then one fully reported shift", P(
            "ADV", n=[2, 3, 5, 8], shifts=[1, 2, 3], dt=[1e3], dir=["forward"], pat=PATTERNS, inflow=[0, 1], solid=["none"], report=sorted(REPORTS))))
        # S: reactive solids: closed diffusion-only column (inventory incl. solids) and pure advection (balance)
        fam.append(("solids, diffusion-only closed", P(
            "TR", n=[1, 2, 3, 5], len=["equal"], D_dt=[(1e-9, 1e3), (1e-9, 1e6)], shifts=SH, dir=["diffusion_only"], bc=[["closed", "closed"]],
            stag=[0], pat=PATTERNS, inflow=[0], disp=[0.0], mode=["plain"], solid=["exchange", "calcite", "kinrk", "kincv"])))
        fam.append(("solids, pure advective TRANSPORT", P(
            "TR", n=[1, 2, 3, 5], len=["equal", "growing"], D_dt=[(0.0, 1e3)], shifts=[3], dir=["forward", "back"],
            bc=[["flux", "flux"], ["constant", "flux"], ["closed", "closed"]], stag=[0], pat=PATTERNS, inflow=[0, 1], disp=[0.0], mode=["plain"],
            solid=["exchange", "calcite"])))
    else:
        N, NL, SH = [1, 2, 3, 5, 8], [20, 40], [1, 3, 10]
        DDT = [(0.0, 1e3), (3e-10, 1e3), (1e-9, 1e3), (3e-10, 1e6), (1e-9, 1e6)]
        fam.append(("diffusion-only, single D", P(
            "TR", n=N, len=LEN3, D_dt=DDT[1:], shifts=SH, dir=["diffusion_only"], bc=BC2, stag=[0, 1, 2, 3, 4], pat=PATTERNS,
            inflow=[0, 1], disp=[0.0], mode=["plain"])))
        fam.append(("diffusion-only, single D, long columns", P(
            "TR", n=NL, len=LEN3, D_dt=DDT[1:], shifts=[10], dir=["diffusion_only"], bc=BC2, stag=[0, 1], pat=PATTERNS,
            inflow=[0], disp=[0.0], mode=["plain"])))
        fam.append(("diffusion-only, multicomponent", P(
            "TR", n=N, len=LEN3, D_dt=[(3e-10, 1e3), (3e-10, 1e5), (3e-10, 1e6)], shifts=SH, dir=["diffusion_only"], bc=[["closed", "closed"]],
            stag=[0, 1, 2, 3], pat=PATTERNS, inflow=[0], disp=[0.0], mode=["mcd", "implicit"])))
        fam.append(("diffusion-only, multicomponent, long columns", P(
            "TR", n=NL, len=LEN3, D_dt=[(3e-10, 1e3), (3e-10, 1e5)], shifts=[10], dir=["diffusion_only"], bc=[["closed", "closed"]],
            stag=[0, 1, 3], pat=PATTERNS, inflow=[0], disp=[0.0], mode=["mcd", "implicit"])))
        fam.append(("ADVECTION keyword", P(
            "ADV", n=N + NL, shifts=[1, 2, 3, 10], dt=[1e3], dir=["forward"], pat=PATTERNS, inflow=[0, 1], solid=["none", "exchange", "calcite"])))
        fam.append(("ADVECTION, restricted report set then one fully reported shift", P(
            "ADV", n=N + NL, shifts=[1, 2, 3, 4, 10], dt=[1e3], dir=["forward"], pat=PATTERNS, inflow=[0, 1], solid=["none"], report=sorted(REPORTS))))
        fam.append(("solids, diffusion-only closed", P(
            "TR", n=N + NL, len=["equal"], D_dt=[(1e-9, 1e3), (3e-10, 1e6), (1e-9, 1e6)], shifts=SH, dir=["diffusion_only"], bc=[["closed", "closed"]],
            stag=[0], pat=PATTERNS, inflow=[0], disp=[0.0], mode=["plain"], solid=["exchange", "calcite", "kinrk", "kincv"])))
        fam.append(("solids, pure advective TRANSPORT", P(
            "TR", n=N + NL, len=["equal", "growing"], D_dt=[(0.0, 1e3)], shifts=[3, 10], dir=["forward", "back"], bc=BC3,
            stag=[0], pat=PATTERNS, inflow=[0, 1], disp=[0.0], mode=["plain"], solid=["exchange", "calcite"])))
    if not q:
        fam.append(("advective TRANSPORT, single D, -correct_disp", P(
            "TR", n=[2, 3, 5, 8], len=["equal", "growing"], disp=[0.05, 0.1, 0.3, 0.6, 0.9, 1.2, 1.7, 2.0], D_dt=[(0.0, 1e3), (1e-9, 1e3), (1e-9, 1e6)], shifts=[3, 10],
            dir=["forward", "back"], bc=BC3, stag=[0, 1], pat=PATTERNS + ["band"], inflow=[0, 1], mode=["plain"], cd=[True])))
        # the two big families last: a deadline can then only cut into them
        fam.append(("advective TRANSPORT, single D, long columns", P(
            "TR", n=NL, len=["equal", "growing"], disp=[0.0, 0.1, 2.0], D_dt=[(0.0, 1e3), (1e-9, 1e3), (1e-9, 1e6)], shifts=[10], dir=["forward", "back"], bc=BC3,
            stag=[0, 1], pat=["uniform", "alt"], inflow=[0], mode=["plain"])))
        fam.append(("advective TRANSPORT, single D", P(
            "TR", n=N, len=LEN3, disp=[0.0, 0.1, 2.0], D_dt=[DDT[0]] + DDT[2:], shifts=[3, 10], dir=["forward", "back"], bc=BC3,
            stag=[0, 1, 2], pat=PATTERNS, inflow=[0, 1], mode=["plain"])))
    out = []
    for name, cs in fam:
        cs = [c for c in cs if not (c["fam"] == "ADV" and c.get("solid", "none") != "none" and c["shifts"] < 2)]
        cs.sort(key=cost)
        out.append((name, cs))
    return out


def cost(c):
    return (c["n"] * c["shifts"], c["n"], c["shifts"], c.get("stag", 0), c["dt"])


def run(tier):
    ev = core.Evidence(PROP, tier)
    findings = core.Findings(PROP)
    ev.assumptions = [
        "database/phreeqc.dat loads without error and carries a diffusion coefficient (-dw) for every species used (multicomponent diffusion)",
        "no constant from the engine source is used by the oracle; cell numbering of stagnant cells (i + 1 + n) and the meaning of -stagnant's arguments are taken from the manual",
        "BASIC read-outs TOTMOLE, TOT(\"water\"), CHARGE_BALANCE, TC and SYS(element) report the saved state of the cell",
        "charge inventory is compared relative to max(|charge|, dissolved moles of the column) because a balanced column has zero charge",
        "pure-advection equality is tested with the statement's only tolerance (relative 1e-9), not bitwise: every shifted solution is re-speciated by the engine",
        "stagnant cells get kg water = th_im / th_m (the manual's condition for a mass-conserving first-order exchange); stagnant variant 3 writes the exchange as symmetric MIX blocks between cells of equal water mass",
        "an element that is absent from the whole column has no relative scale of its own: its inventory is compared with 1e-9 x the dissolved moles of the column (the engine's floor of 1e-13 mol per cell in implicit runs passes)",
        "taken from the implementation, used only to name the mechanism in a fingerprint and never in a verdict: the text of the WARNING 'For balancing negative concentrations in MCD, added in total to the system:' and its '%.4e moles <element>.' lines",
    ]
    pool = core.Pool()
    # hard deadlines (the targets are 60 s / 15 min on 16 workers); a tier that hits its deadline stops, marks the bound it
    # was in and all later ones as not completed and reports exhaustive:false with exit 0
    dl = core.Deadline(float(os.environ.get("VERIF_C11_DEADLINE_S", 150 if tier == "quick" else 3000)))
    total = 0
    judged = {}
    ok_so_far = True
    for name, cs in families(tier):
        done = False
        if ok_so_far and not dl.passed():
            before, t0 = ev.traces, time.time()
            done = explore(cs, ev, findings, pool, dl, judged)
            total += ev.traces - before
            sys.stderr.write("  [%s] %s: %d cases in %.1f s\n" % (PROP, name, ev.traces - before, time.time() - t0))
        ok_so_far = ok_so_far and done
        ev.bound("%s: %d configurations" % (name, len(cs)), done, cases=len(cs))
    ev.extra["lattice_points"] = sum(len(cs) for _, cs in families(tier))
    ev.extra["completed_runs"] = ev.traces - ev.not_completed
    judged.pop("_sample_signatures", None)
    ev.extra["judged_by_subclaim"] = judged
    ev.extra["alphabet"] = {"patterns": PATTERNS, "solutions": SOL, "stagnant": {str(k): v for k, v in STAG.items()}, "elements": ELEMENTS, "base_length_m": L0}
    pool.close()
    # vacuity guards.  With confirmed violations on the table the run is reported as violated (exit 1) and the guard that
    # fired is recorded as a diagnostic: a library that breaks transport may well make a fifth of the runs fail.
    guard = None
    if ev.traces and ev.not_completed > 0.2 * ev.traces:
        guard = "%d of %d runs did not complete - the check is broken" % (ev.not_completed, ev.traces)
    elif ev.traces > 100 and len(ev.outcomes) < 20:
        guard = "only %d distinct outcomes" % len(ev.outcomes)
    else:
        for k in ("inventory", "shift", "convex", "balance"):
            if ev.exhaustive and not judged.get(k):
                guard = "sub-claim %s was never judged" % k
    if guard:
        if not findings.violations:
            harness_error(guard)
        ev.diagnostics.insert(0, "vacuity guard fired next to confirmed violations: " + guard)
    return core.finish(ev, findings)


def harness_error(msg):
    """A broken check must never look like a pass (0) or a violation (1)."""
    sys.stderr.write("HARNESS ERROR: %s\n" % msg.lstrip(": "))
    sys.stderr.flush()
    raise SystemExit(2)


def explore(cs, ev, findings, pool, dl, judged):
    def wrapped():
        for c in cs:
            yield c
    # count judged sub-claims through the samples side channel: run_case returns 'judged'
    orig = ev.sample

    seen_sig = judged.setdefault("_sample_signatures", {})

    def tap(s, limit=6):
        for k in s.get("judged", ()):
            judged[k] = judged.get(k, 0) + 1
        if s.get("engine_warned_added_moles"):
            judged["(runs in which the engine warned that it added moles)"] = judged.get("(runs in which the engine warned that it added moles)", 0) + 1
        if s.get("note"):
            judged["(runs without a mixing step: nothing to judge)"] = judged.get("(runs without a mixing step: nothing to judge)", 0) + 1
        # verbatim samples: at most two per combination of (family, judged sub-claims, multicomponent mode), twenty-four in all
        sig = (s.get("case", {}).get("fam"), tuple(s.get("judged", ())), s.get("case", {}).get("mode"), "rc" in s)
        if seen_sig.get(sig, 0) < 2:
            seen_sig[sig] = seen_sig.get(sig, 0) + 1
            orig(s, 24)
    ev.sample = tap
    try:
        return core.explore_cases(cs, run_case, ev, findings, pool, chunksize=4, deadline=dl)
    finally:
        ev.sample = orig


def replay(path):
    return core.replay_main(PROP, path, run_case)
