"""C13  Instance registry and C / C++ / Fortran-glue bindings behave as one consistent API.

Shape H: depth-bounded exhaustive exploration of API call sequences over several instances.  The state after a
history lives in the driver process; `fork` gives every successor its own copy, so each transition is executed exactly
once.  Oracle on every transition:
  (1) cross-binding: the complete observation of every live instance through the C functions equals the one through the
      C++ methods, and the *F functions differ only by 1-based indices, blank padding and reported length;
  (2) isolation: instances other than the target are bitwise unchanged; calls with ids that are not live change nothing
      and return the invalid-instance table;
  (3) store semantics: the target's observation equals the small reference model (switches, file names, current user
      number, per-user-number maps, accumulated lines, id counter) applied to the observation before the call;
      run/load results equal those of the same call on a fresh instance (differential).
"""
import copy
import json
import os
import re

from .. import core, build

PROP = "C13"
HERE = os.path.join(core.ROOT, "data", "c13")

MINI_DB = open(os.path.join(core.ROOT, "data", "mini.dat")).read()
BAD_DB = "SOLUTION_MASTER_SPECIES\n Q Q+ 0 Q\nSOLUTION_SPECIES\n this is not a reaction\nEND\n"        # text that is not a database: LoadDatabaseString reports errors
OK_INPUT = ("SOLUTION 1\n pH 7\n Na 1\n Cl 1\n Ca 0.5\nSELECTED_OUTPUT 1\n -totals Na\nUSER_PUNCH 1\n -headings txt n\n 10 PUNCH \"s\", 3\n"
            "SELECTED_OUTPUT 2\n -totals Cl Ca\nEND\nUSE solution 1\nREACTION 1\n NaCl 1\n 1 mmol\nEND\n")
BAD_INPUT = "SOLUTION 1\n pH 7\n Na 1\n nonsense_option\nEND\n"
ACC_LINES = ["SOLUTION 3", " pH 6", "SELECTED_OUTPUT 5", " -totals Ca"]

GLOBAL_SW = ["OutputFile", "OutputString", "ErrorFile", "ErrorString", "Error", "LogFile", "LogString", "DumpFile", "DumpString"]
USER_SW = ["SelectedOutputFile", "SelectedOutputString"]
NAMES = ["Output", "Error", "Log", "Dump", "SelectedOutput"]
DEFAULT_SW = {"OutputFile": 0, "OutputString": 0, "ErrorFile": 0, "ErrorString": 1, "Error": 1, "LogFile": 0, "LogString": 0,
              "DumpFile": 0, "DumpString": 0}          # IPhreeqc.h: "The initial setting after calling CreateIPhreeqc is ..."
IPQ_OK, IPQ_INVALIDARG, IPQ_BADINSTANCE = 0, -3, -6


def sw_getter(x):
    return "GetErrorOn" if x == "Error" else "Get%sOn" % x


def sw_setter(x):
    return "SetErrorOn" if x == "Error" else "Set%sOn" % x


def default_names(i):
    return {"Output": "phreeqc.%d.out" % i, "Error": "phreeqc.%d.err" % i, "Log": "phreeqc.%d.log" % i, "Dump": "dump.%d.out" % i}


# ------------------------------------------------------------------ reference model
def new_model(i, kind):
    return {"id": i, "kind": kind, "sw": dict(DEFAULT_SW), "fn": default_names(i), "cur": 1,
            "u_file": {1: 0}, "u_str": {1: 0}, "u_name": {1: "selected_1.%d.out" % i},
            "acc": "", "acc_clear": False, "loaded": False, "users": [], "runhist": []}


def model_expect(m):
    """Values of the modelled getters."""
    e = {}
    for x in GLOBAL_SW:
        e[sw_getter(x)] = m["sw"][x]
    for x in ("Output", "Error", "Log", "Dump"):
        e["Get%sFileName" % x] = m["fn"][x]
    e["GetCurrentSelectedOutputUserNumber"] = m["cur"]
    e["GetSelectedOutputFileOn"] = m["u_file"].get(m["cur"], 0)
    e["GetSelectedOutputStringOn"] = m["u_str"].get(m["cur"], 0)
    e["GetSelectedOutputFileName"] = m["u_name"].get(m["cur"], "")
    e["GetSelectedOutputCount"] = len(m["users"])
    e["users"] = list(m["users"])
    e["accumulated"] = m["acc"]
    return e


# ------------------------------------------------------------------ alphabet
def op_list(level):
    """level 'full': every setter x value x binding x slot; 'core': interaction-prone subset."""
    ops = []
    slots = (0, 1)
    binds = ("c", "cpp", "f")
    ops += [("create", "c"), ("create", "cpp"), ("create", "f")]
    for s in slots:
        ops += [("destroy", s, "c"), ("destroy", s, "f" if s == 0 else "cpp")]
    ops += [("destroy_raw", -1), ("destroy_raw", 1000), ("probe_invalid",)]
    if level == "full":
        for s in slots:
            for b in binds:
                for x in GLOBAL_SW + USER_SW:
                    for v in (0, 1):
                        ops.append(("setsw", s, b, x, v))
                ops.append(("setsw", s, b, "OutputFile", 2))
                ops.append(("setsw", s, b, "SelectedOutputString", -1))
                for x in NAMES:
                    for v in (None, "", "a.out"):
                        ops.append(("setname", s, b, x, v))
                for n in (-1, 0, 1, 2, 5):
                    ops.append(("setcur", s, b, n))
                ops.append(("acc", s, b, 0))
                ops.append(("acc", s, b, 2))
                ops.append(("clearacc", s, b))
                ops.append(("runacc", s, b))
                ops.append(("adderr", s, b))
                ops.append(("addwarn", s, b))
                ops.append(("load", s, b))
                ops.append(("loadbad", s, b, "file"))
                ops.append(("loadbad", s, b, "str"))
                ops.append(("run", s, b, "ok"))
                ops.append(("run", s, b, "bad"))
    else:
        for s in slots:
            b = "c" if s == 0 else "cpp"
            for x in USER_SW:
                for v in (0, 1):
                    ops.append(("setsw", s, b, x, v))
            ops.append(("setsw", s, "f", "SelectedOutputFile", 1))
            ops.append(("setsw", s, b, "OutputString", 1))
            ops.append(("setsw", s, b, "ErrorString", 0))
            ops.append(("setsw", s, b, "Error", 0))
            ops.append(("setname", s, b, "SelectedOutput", "s.out"))
            ops.append(("setname", s, b, "SelectedOutput", ""))
            ops.append(("setname", s, "f", "Dump", "d.out"))
            for n in (-1, 1, 2, 5):
                ops.append(("setcur", s, b, n))
            ops.append(("acc", s, b, 0))
            ops.append(("acc", s, "f", 2))
            ops.append(("clearacc", s, b))
            ops.append(("runacc", s, b))
            ops.append(("adderr", s, b))
            ops.append(("load", s, b))
            ops.append(("loadbad", s, b, "file" if s == 0 else "str"))
            ops.append(("run", s, b, "ok"))
            ops.append(("run", s, "f", "bad"))
    return ops


BASES = {
    "empty": [],
    "two": [("create", "c"), ("create", "cpp")],
    "loaded": [("create", "c"), ("create", "cpp"), ("load", 0, "c"), ("load", 1, "cpp")],
    "ran": [("create", "c"), ("create", "cpp"), ("load", 0, "c"), ("load", 1, "cpp"), ("run", 0, "c", "ok"), ("run", 1, "cpp", "bad"),
            ("setcur", 0, "c", 2)],
    # every global switch away from its default (files and strings on, error reporting off), custom file names
    "sinks": [("create", "c"), ("create", "cpp"), ("load", 0, "c"), ("load", 1, "cpp")]
             + [("setsw", s, "c" if s == 0 else "cpp", x, 0 if x == "Error" else 1) for s in (0, 1) for x in GLOBAL_SW]
             + [("setname", s, "c" if s == 0 else "cpp", x, "a.out") for s in (0, 1) for x in NAMES],
}

# ------------------------------------------------------------------ invalid-instance table
INVALID_TABLE = json.load(open(os.path.join(HERE, "invalid.json")))


def probe_invalid_calls():
    """(function, args) for every C function taking an id; results keyed 'Fn' / 'FnF'."""
    calls = []
    for fn, spec in sorted(INVALID_TABLE["c"].items()):
        calls.append(("c", fn, spec["args"]))
    for fn, spec in sorted(INVALID_TABLE["f"].items()):
        calls.append(("f", fn, spec["args"]))
    return calls


# ------------------------------------------------------------------ observation helpers
OBS_FLAGS = "gslcua"


def observe(d, k, b):
    """Observation of slot k through binding b.  Tables are read inside a forked copy of the driver: reading a cell
    (GetSelectedOutputValue) resets the instance's error reporter, and observing must not alter the explored history."""
    o = d.obs("s%d" % k, b, OBS_FLAGS)
    if o.get("users"):
        d.fork()
        try:
            t = d.obs("s%d" % k, b, "t")
        finally:
            d.endfork()
        for u, e in t["sel"].items():
            o["sel"][u]["table"] = e["table"]
    return o


def observe_all(d, st):
    """C-binding observation of every live instance, keyed by slot."""
    return {k: observe(d, k, "c") for k in st["inst"]}


def mask_id(s, i):
    return s.replace(".%d." % i, ".ID.") if isinstance(s, str) else s


def canon(obs_by_slot, st):
    """Canonical state key: every observation with the instance id masked in file names, plus the id counter offset."""
    parts = []
    for k in sorted(obs_by_slot):
        i = st["inst"][k]["id"]
        t = json.dumps(obs_by_slot[k], sort_keys=True)
        t = t.replace(".%d." % i, ".ID.")
        parts.append("%d:%s" % (k, t))
    return core.sha("|".join(parts) + "#%d" % len(st["inst"]))


def fpad(s, L=400):
    return (s[:L]).ljust(L)


def check_f_vs_c(oc, of, problems, tag):
    """*F observation = C observation with 1-based shifts, blank padding, reported length (documented differences only)."""
    def fstr(x, c, what):
        if not isinstance(x, dict) or x.get("s") != fpad(c) or x.get("len") != len(c):
            problems.append(("binding-f-string %s" % what, "%s: F gives %r (len %r) but C gives %r (%s)" % (what, (x or {}).get("s", "")[:60], (x or {}).get("len"), c[:60], tag)))
    for k, v in oc.items():
        if k in ("users", "cur_after"):
            if of.get(k) != v:
                problems.append(("binding-f-int %s" % k, "%s: F %r vs C %r (%s)" % (k, of.get(k), v, tag)))
        elif k.startswith("Get") and k.endswith("FileName"):
            fstr(of.get(k), v, k)
        elif k.startswith("Get") and isinstance(v, int):
            exp = v
            if k == "GetSelectedOutputRowCount" and v > 0:
                exp = v - 1            # documented: the Fortran row count excludes the heading row
            if of.get(k) != exp:
                problems.append(("binding-f-int %s" % k, "%sF returned %r, C returned %r (%s)" % (k, of.get(k), v, tag)))
        elif k.endswith("Lines") or k == "components":
            fl = of.get(k)
            if not isinstance(fl, list) or len(fl) != len(v):
                problems.append(("binding-f-lines %s" % k, "%s: F has %s entries, C has %d (%s)" % (k, None if fl is None else len(fl), len(v), tag)))
            else:
                for a, b in zip(fl, v):
                    fstr(a, b, k)
        elif k == "sel":
            for u, e in v.items():
                fe = of.get("sel", {}).get(u)
                if fe is None:
                    problems.append(("binding-f-sel", "user %s missing in F observation (%s)" % (u, tag)))
                    continue
                for kk in ("cols", "fileon", "stron", "nlines"):
                    if fe[kk] != e[kk]:
                        problems.append(("binding-f-int sel.%s" % kk, "user %s %s: F %r vs C %r (%s)" % (u, kk, fe[kk], e[kk], tag)))
                if fe["rows"] != (e["rows"] - 1 if e["rows"] > 0 else e["rows"]):
                    problems.append(("binding-f-int sel.rows", "user %s rows: F %r vs C %r (%s)" % (u, fe["rows"], e["rows"], tag)))
                fstr(fe["fname"], e["fname"], "sel.fname")
                for a, b in zip(fe.get("lines", []), e.get("lines", [])):
                    fstr(a, b, "sel.lines")
                ft, ct = fe.get("table", []), e.get("table", [])
                if len(ft) != len(ct):
                    problems.append(("binding-f-table-shape", "user %s: F table has %d rows, C %d (%s)" % (u, len(ft), len(ct), tag)))
                    continue
                for r, (fr, cr) in enumerate(zip(ft, ct)):
                    for c, (fc, cc) in enumerate(zip(fr, cr)):
                        bad = False
                        if cc is None:
                            bad = fc["type"] != 0 or fc["rc"] != 0
                        elif isinstance(cc, str):
                            bad = fc["type"] != 4 or fc["s"] != fpad(cc) or fc["len"] != len(cc)
                        elif isinstance(cc, float):
                            bad = fc["type"] != 3 or not (fc["d"] == cc or (fc["d"] != fc["d"] and cc != cc))
                        elif isinstance(cc, dict) and "l" in cc:
                            bad = fc["type"] != 3 or fc["d"] != float(cc["l"])
                        if bad:
                            problems.append(("binding-f-cell", "user %s cell (%d,%d): F %r vs C %r (%s)" % (u, r, c, {k2: (v2 if k2 != "s" else v2[:30]) for k2, v2 in fc.items()}, cc, tag)))
                            break


def check_bindings(d, st, obs_c, problems, tag):
    for k in st["inst"]:
        ocpp = observe(d, k, "cpp")
        oc = obs_c[k]
        if ocpp != oc:
            diff = [kk for kk in set(oc) | set(ocpp) if oc.get(kk) != ocpp.get(kk)]
            for kk in sorted(diff)[:3]:
                problems.append(("binding-c-vs-cpp %s" % kk, "slot %d %s: C %r vs C++ %r (%s)" % (k, kk, str(oc.get(kk))[:80], str(ocpp.get(kk))[:80], tag)))
        of = observe(d, k, "f")
        ocf = {kk: vv for kk, vv in oc.items() if not (kk.endswith("String") and kk.startswith("Get")) and kk != "accumulated"}
        for u in ocf.get("sel", {}):
            pass
        check_f_vs_c(ocf, of, problems, "slot %d, %s" % (k, tag))
        # observing must not change anything
    again = observe_all(d, st)
    if again != obs_c:
        problems.append(("observation-mutates", "observing through C++/F changed the C observation (%s)" % tag))


def check_model(st, obs_c, problems, tag):
    for k, m in st["inst"].items():
        e = model_expect(m)
        o = obs_c[k]
        for key, want in e.items():
            if o.get(key) != want:
                problems.append(("store %s" % key, "slot %d: %s is %r, reference model says %r (%s)" % (k, key, o.get(key), want, tag)))
        for u in m["users"]:
            se = o["sel"].get(str(u))
            if se is None:
                problems.append(("store sel-missing", "slot %d: user %d not observable (%s)" % (k, u, tag)))
                continue
            for key, mm in (("fileon", "u_file"), ("stron", "u_str")):
                if se[key] != m[mm].get(u, 0):
                    problems.append(("store sel.%s" % key, "slot %d user %d: %s is %r, model says %r (%s)" % (k, u, key, se[key], m[mm].get(u, 0), tag)))
            if se["fname"] != m["u_name"].get(u, ""):
                problems.append(("store sel.fname", "slot %d user %d: file name %r, model says %r (%s)" % (k, u, se["fname"], m["u_name"].get(u, ""), tag)))


# ------------------------------------------------------------------ differential references for run/load results
_ref = {}


def run_reference(runhist):
    """(rc of the last call, users, tables, components) after replaying the run-relevant calls `runhist` (loads, runs,
    accumulate/clear) on a brand-new instance - setters and other instances must not influence these."""
    key = tuple(runhist)
    if key not in _ref:
        d2 = core.get_drv("rel")
        d2.fork()                         # a forked copy of the driver: the explored state is not disturbed
        try:
            r = d2.new("c")
            t = "s%d" % r["slot"]
            rc = None
            for h in runhist:
                if h[0] == "load":
                    rc = d2.call(t, "c", "LoadDatabaseString", MINI_DB)
                elif h[0] == "loadbad":
                    rc = d2.call(t, "c", "LoadDatabase", "no_such_database.dat") if h[1] == "file" else d2.call(t, "c", "LoadDatabaseString", BAD_DB)
                elif h[0] == "run":
                    rc = d2.call(t, "c", "RunString", OK_INPUT if h[1] == "ok" else BAD_INPUT)
                elif h[0] == "acc":
                    for l in ACC_LINES[h[1]:h[1] + 2]:
                        d2.call(t, "c", "AccumulateLine", l)
                elif h[0] == "clearacc":
                    d2.call(t, "c", "ClearAccumulatedLines")
                elif h[0] == "runacc":
                    rc = d2.call(t, "c", "RunAccumulated")
            o = d2.obs(t, "c", "ut")
            _ref[key] = (rc, o.get("users", []), {u: e["table"] for u, e in o.get("sel", {}).items()}, d2.obs(t, "c", "c")["components"])
        finally:
            d2.endfork()
    return _ref[key]


# ------------------------------------------------------------------ transition
def apply_op(d, st, op, problems, tag):
    """Execute one op on the real API and on the model; append problems.  st = {"inst": {slot: model}, "next": id counter,
    "dead": [ids], "nslots": n}."""
    name = op[0]
    before = st.get("obs")
    if before is None:
        before = observe_all(d, st)
    st = copy.deepcopy(st)
    st.pop("obs", None)
    target = None
    frame_free = set()          # keys of the target that this op may change without a model (judged differentially instead)
    if name == "create":
        r = d.new(op[1])
        if r["id"] != st["next"]:
            problems.append(("registry-id", "create returned id %d, expected the next unused id %d (%s)" % (r["id"], st["next"], tag)))
        if r["id"] in st["dead"] or any(m["id"] == r["id"] for m in st["inst"].values()):
            problems.append(("registry-id-reused", "create returned id %d which was already issued (%s)" % (r["id"], tag)))
        st["inst"][r["slot"]] = new_model(r["id"], op[1])
        st["next"] = r["id"] + 1
        st["nslots"] = r["slot"] + 1
        target = r["slot"]
    elif name == "destroy":
        k, b = op[1], op[2]
        if k in st["inst"]:
            rc = d.call("s%d" % k, b, "DestroyIPhreeqc")
            if rc != IPQ_OK:
                problems.append(("destroy-rc", "destroying live slot %d via %s returned %r (%s)" % (k, b, rc, tag)))
            st["dead"].append(st["inst"][k]["id"])
            del st["inst"][k]
        elif k < st["nslots"] and b != "cpp":
            rc = d.call("s%d" % k, b, "DestroyIPhreeqc")          # double destroy
            if rc != IPQ_BADINSTANCE:
                problems.append(("destroy-dead-rc", "destroying an already destroyed id via %s returned %r, documented IPQ_BADINSTANCE (%s)" % (b, rc, tag)))
        else:
            return st, before, None
    elif name == "destroy_raw":
        rc = d.call("i%d" % op[1], "c", "DestroyIPhreeqc")
        live_ids = [m["id"] for m in st["inst"].values()]
        if op[1] in live_ids:
            return st, before, None
        if rc != IPQ_BADINSTANCE:
            problems.append(("destroy-invalid-rc", "DestroyIPhreeqc(%d) returned %r, documented IPQ_BADINSTANCE (%s)" % (op[1], rc, tag)))
    elif name == "probe_invalid":
        ids = [-1, st["next"] + 7] + st["dead"][:2]
        for i in ids:
            for b, fn, args in probe_invalid_calls():
                got = d.call("i%d" % i, b, fn, *args)
                want = INVALID_TABLE[b][fn]["result"]
                if isinstance(got, dict) and "s" in got and "rc" not in got:
                    got = {"s": got["s"].rstrip(" #"), "len": got["len"]}
                if isinstance(got, dict) and "rc" in got:
                    got = {"rc": got["rc"], "type": got["type"]}
                if got != want:
                    problems.append(("invalid-id-result %s%s" % (fn, "F" if b == "f" else ""), "%s(%d%s) returned %r, table says %r (%s)" % (
                        fn, i, "".join(", %r" % a for a in args), got, want, tag)))
    else:
        k, b = op[1], op[2]
        if k not in st["inst"]:
            return st, before, None          # op not enabled in this state
        m = st["inst"][k]
        t = "s%d" % k
        target = k
        if name == "setsw":
            x, v = op[3], op[4]
            rc = d.call(t, b, sw_setter(x), v)
            if b != "cpp" and rc != IPQ_OK:
                problems.append(("setter-rc", "%s(%r) via %s returned %r (%s)" % (sw_setter(x), v, b, rc, tag)))
            if x.endswith("String") or x == "Error":
                # the string getter answers with a notice while its switch is off, with the buffer while it is on
                frame_free |= {"Get%sString" % x[:-6]} if x != "Error" else {"GetErrorString"}
            if x in GLOBAL_SW:
                m["sw"][x] = 1 if v else 0
            elif x == "SelectedOutputFile":
                m["u_file"][m["cur"]] = 1 if v else 0
            else:
                m["u_str"][m["cur"]] = 1 if v else 0
        elif name == "setname":
            x, v = op[3], op[4]
            rc = d.call(t, b, "Set%sFileName" % x, v)
            if b != "cpp" and rc != IPQ_OK:
                problems.append(("setter-rc", "Set%sFileName(%r) via %s returned %r (%s)" % (x, v, b, rc, tag)))
            if v:
                if x == "SelectedOutput":
                    m["u_name"][m["cur"]] = v
                else:
                    m["fn"][x] = v
        elif name == "setcur":
            n = op[3]
            rc = d.call(t, b, "SetCurrentSelectedOutputUserNumber", n)
            want = IPQ_OK if n >= 0 else IPQ_INVALIDARG
            if rc != want:
                problems.append(("setcur-rc", "SetCurrentSelectedOutputUserNumber(%d) via %s returned %r, documented %r (%s)" % (n, b, rc, want, tag)))
            if n >= 0:
                m["cur"] = n
                m["u_name"].setdefault(n, "selected_%d.%d.out" % (n, m["id"]))     # documented default: selected_n.id.out
            frame_free |= {"GetSelectedOutputRowCount", "GetSelectedOutputColumnCount", "GetSelectedOutputStringLineCount", "GetSelectedOutputString"}
        elif name == "acc":
            if m["acc_clear"]:
                m["acc"] = ""
                m["acc_clear"] = False
            m["runhist"].append(("acc", op[3]))
            for l in ACC_LINES[op[3]:op[3] + 2]:
                rc = d.call(t, b, "AccumulateLine", l)
                if rc != IPQ_OK:
                    problems.append(("acc-rc", "AccumulateLine via %s returned %r (%s)" % (b, rc, tag)))
                m["acc"] += l + "\n"
            frame_free |= {"GetErrorString", "GetWarningString"}
        elif name == "clearacc":
            d.call(t, b, "ClearAccumulatedLines")
            m["acc"] = ""
            m["runhist"].append(("clearacc",))
        elif name in ("adderr", "addwarn"):
            fn = "AddError" if name == "adderr" else "AddWarning"
            d.call(t, b, fn, "msg from %s\n" % fn)
            frame_free |= {"GetErrorString", "GetWarningString"}
        elif name == "load":
            rc = d.call(t, b, "LoadDatabaseString", MINI_DB)
            if rc != 0:
                problems.append(("load-rc", "LoadDatabaseString(mini) via %s returned %r (%s)" % (b, rc, tag)))
            m.update({"cur": 1, "u_file": {1: 0}, "u_str": {1: 0}, "acc": "", "acc_clear": False, "loaded": True, "users": []})
            m["runhist"] = [("load",)]          # C07: a load returns the instance to the fresh state
            frame_free |= {"*run"}
        elif name == "loadbad":
            # a load that fails (file does not exist / text is not a database): non-zero, the instance has no database
            # afterwards, per-user selected-output state is reset as by any load, every other setting is kept
            rc = d.call(t, b, "LoadDatabase", "no_such_database.dat") if op[3] == "file" else d.call(t, b, "LoadDatabaseString", BAD_DB)
            if rc == 0:
                problems.append(("loadbad-rc", "a failing load (%s) via %s returned 0 (%s)" % (op[3], b, tag)))
            m.update({"cur": 1, "u_file": {1: 0}, "u_str": {1: 0}, "acc": "", "acc_clear": False, "loaded": False, "users": []})
            m["runhist"] = [("loadbad", op[3])]
            frame_free |= {"*run", "GetErrorString", "GetWarningString"}
        elif name in ("run", "runacc"):
            if name == "run":
                m["runhist"].append(("run", op[3]))
                kind = tuple(m["runhist"])
                rc = d.call(t, b, "RunString", OK_INPUT if op[3] == "ok" else BAD_INPUT)
                m["acc"] = ""                      # RunString/RunFile start by clearing the accumulated lines
                m["acc_clear"] = False
            else:
                m["runhist"].append(("runacc",))
                kind = tuple(m["runhist"])
                rc = d.call(t, b, "RunAccumulated")
                m["acc_clear"] = True
            # per-user state as the run leaves it (documented in IPhreeqc.h: SELECTED_OUTPUT n defines user number n)
            frame_free |= {"*run"}
            st["pending_run"] = (k, kind, rc, name)
    after = observe_all(d, st)
    # ---- run results: differential against a fresh instance, then sync the model's user list from the observation
    pr = st.pop("pending_run", None)
    if pr is not None:
        k, kind, rc, nm = pr
        m = st["inst"][k]
        o = after[k]
        if kind is not None:
            rrc, rusers, rtabs, rcomps = run_reference(kind)
            if rc != rrc:
                problems.append(("run-rc", "%s returned %r on this instance but %r on a fresh instance given the same loads/runs (%s)" % (nm, rc, rrc, tag)))
            if True:
                if o["users"] != rusers:
                    problems.append(("run-users", "user numbers %r vs %r on a fresh instance (%s)" % (o["users"], rusers, tag)))
                else:
                    tabs = {u: e["table"] for u, e in o["sel"].items()}
                    if json.dumps(tabs, sort_keys=True) != json.dumps(rtabs, sort_keys=True):
                        problems.append(("run-tables", "selected-output tables differ from those of a fresh instance (%s)" % tag))
                if o["components"] != rcomps:
                    problems.append(("run-components", "components %r vs %r on a fresh instance (%s)" % (o["components"], rcomps, tag)))
        # the engine keeps SELECTED_OUTPUT definitions across runs: users can only grow until the next load
        if m["loaded"]:
            m["users"] = list(o["users"])
            for u in m["users"]:
                if not m["u_name"].get(u):
                    m["u_name"][u] = "selected_%d.%d.out" % (u, m["id"])
    # ---- (2) isolation
    for k2 in before:
        if k2 in after and k2 != target and after[k2] != before[k2]:
            diff = [kk for kk in before[k2] if before[k2].get(kk) != after[k2].get(kk)]
            problems.append(("isolation", "op %r changed slot %d (%s) (%s)" % (op, k2, ",".join(sorted(diff))[:100], tag)))
    # ---- (3) store model + frame
    check_model(st, after, problems, tag)
    if target is not None and target in before and target in after and "*run" not in frame_free:
        modelled = set(model_expect(st["inst"][target])) | {"sel", "cur_after"} | frame_free
        for kk in before[target]:
            if kk in modelled:
                continue
            if before[target][kk] != after[target][kk]:
                problems.append(("frame %s" % kk, "op %r changed %s of its target although it is no part of that call's effect (%s)" % (op, kk, tag)))
    # ---- (1) bindings
    check_bindings(d, st, after, problems, tag)
    st["obs"] = after
    return st, after, canon(after, st)


def initial_state():
    return {"inst": {}, "next": 0, "dead": [], "nslots": 0}


def dedup(problems):
    seen, out = set(), []
    for p in problems:
        if p[0] not in seen:
            seen.add(p[0])
            out.append(p)
    return out


def run_case(case):
    """Linear replay of base + ops in a brand-new driver process, every transition judged."""
    d = core.fresh_drv("rel")
    st = initial_state()
    problems = []
    keys = []
    n = 0
    for i, op in enumerate(BASES[case["base"]] + [tuple(o) for o in case["ops"]]):
        st, after, key = apply_op(d, st, tuple(op), problems, "step %d %r" % (i, op))
        if key:
            keys.append(key)
            n += 1
    return {"case": case, "problems": dedup(problems), "ops": n, "states": keys, "outcome": keys[-1] if keys else "none", "script": d.script()}


# ------------------------------------------------------------------ exhaustive DFS with fork
def explore_subtree(task):
    """task = (base, first_op_index, alphabet level, depth): DFS below base.first_op; returns summary."""
    base, first, level, depth = task
    ops = op_list(level)
    d = core.fresh_drv("rel")
    st = initial_state()
    problems = []
    for i, op in enumerate(BASES[base]):
        st, after, key = apply_op(d, st, op, problems, "base step %d" % i)
    if problems:
        return {"cands": [({"base": base, "ops": []}, p) for p in dedup(problems)], "transitions": 0, "states": [], "skipped": 0}
    res = {"cands": [], "transitions": 0, "states": set(), "skipped": 0, "disabled": 0}
    seen = {}

    def rec(st, hist, left, only=None):
        for j, op in enumerate(ops):
            if only is not None and j != only:
                continue
            d.fork()
            try:
                pr = []
                st2, after, key = apply_op(d, st, op, pr, "after %r" % (hist,))
                if key is None:
                    res["disabled"] += 1
                    continue
                res["transitions"] += 1
                res["states"].add(key)
                for p in dedup(pr):
                    res["cands"].append(({"base": base, "ops": [list(o) for o in hist + [op]]}, p))
                if left > 1 and not pr:
                    if seen.get(key, 0) >= left - 1:
                        res["skipped"] += 1
                    else:
                        seen[key] = left - 1
                        rec(st2, hist + [op], left - 1)
            finally:
                d.endfork()

    rec(st, [], depth, only=first)
    res["states"] = sorted(res["states"])
    return res


def run(tier):
    ev = core.Evidence(PROP, tier)
    findings = core.Findings(PROP)
    ev.assumptions = ["IPhreeqc_interface.F90 itself is not exercised (no Fortran compiler): the *F glue functions are called from C++ with pointer arguments",
                      "invalid-instance results come from IPhreeqc.h where it documents them (IPQ_BADINSTANCE) and are otherwise characterised once on the pinned tree (data/c13/invalid.json)",
                      "the engine keeps SELECTED_OUTPUT definitions until the next database load (user list taken from the observation after a run)"]
    pool = core.Pool()
    plan = []
    if tier == "quick":
        plan = [("full alphabet, depth 1 from %d base states" % len(BASES), "full", 1, list(BASES)),
                ("core alphabet, depth 2 from 3 base states", "core", 2, ["two", "loaded", "ran"])]
        dl = core.Deadline(240)
    else:
        plan = [("full alphabet, depth 1 from %d base states" % len(BASES), "full", 1, list(BASES)),
                ("full alphabet, depth 2 from 3 base states", "full", 2, ["two", "loaded", "ran"]),
                ("core alphabet, depth 3 from 3 base states", "core", 3, ["two", "loaded", "ran"]),
                ("core alphabet, depth 2 from the base state with every switch and name set", "core", 2, ["sinks"])]
        dl = core.Deadline(2400)
    cands = {}
    for name, level, depth, bases in plan:
        if dl.passed():
            ev.bound(name, False)
            continue
        n_ops = len(op_list(level))
        tasks = [(b, j, level, depth) for b in bases for j in range(n_ops)]
        tr = 0
        for res in pool.map(explore_subtree, tasks):
            tr += res["transitions"]
            ev.transitions += res["transitions"]
            ev.traces += res["transitions"]
            for s in res["states"]:
                ev.state(s)
                ev.outcome(s)
            for case, p in res["cands"]:
                cands.setdefault(p[0], [])
                cands[p[0]].append((len(case["ops"]), json.dumps(case), p[1]))
        ev.bound(name, True, alphabet=n_ops, depth=depth, bases=bases, transitions=tr)
    # confirm candidates by linear replay in fresh processes (R3), simplest history first
    for fp in sorted(cands):
        cands[fp].sort()
        _, cj, what = cands[fp][0]
        case = json.loads(cj)
        ok = list(pool.map(core._confirm, [(run_case, case, fp)]))[0]
        if ok:
            r = run_case(case)
            findings.report(fp, what, core.case_text(case, r["script"]))
        else:
            ev.diag("unconfirmed candidate: %s" % fp)
    ev.sample({"base": "ran", "ops": [list(o) for o in op_list("core")[:3]]})
    ev.extra["alphabet_sizes"] = {"full": len(op_list("full")), "core": len(op_list("core"))}
    pool.close()
    return core.finish(ev, findings)


def replay(path):
    return core.replay_main(PROP, path, run_case)
