"""C10  Captured reaction state can be re-instated without changing behaviour.

Shape H: breadth-first exploration of reaction histories; at EVERY reached state the real library is asked to capture the
state and to re-instate it along five routes, and the statement's relations are evaluated on what comes back.

States (two families, both run on the real library through the white-box vdrv driver):
  H  the histories of the C02 explorer (imported, not copied): 43 reaction-step ops (REACTION x step forms, MIX, 18
     attach/replace ops over the six reactant kinds incl. 8 surface variants, temperature) x 2 execution modes
     (USE..SAVE / RUN_CELLS) x 2 initial cells (solutions only / one reactant of every kind), phreeqc.dat.
  S  mc/oracles/c10_states.py: 51 one-kind cells that reach the RAW fields C02's alphabet does not (isotopes, pitzer / sit
     gammas, every surface model and option incl. CD-MUSIC, phase- and kinetics-related exchangers / surfaces,
     Peng-Robinson and -equilibrate gases, alternative formulas, solid-solution parameter forms, kinetics options, and
     MIX / REACTION / REACTION_TEMPERATURE / REACTION_PRESSURE kept under number 1; phreeqc.dat, iso.dat, pitzer.dat,
     sit.dat, phreeqc.dat + CD-MUSIC additions) x all histories over {RUN_CELLS, USE..SAVE} up to depth 1 / 2.

At every state A (slot s0; d1 = its `DUMP -all` text):
  text      B = new instance + same database + same database additions, reads d1: no error (rc 0, empty error string);
            d2 = DUMP of B; C = new instance reads d2, d3 = DUMP of C; d2 == d3 byte for byte (d1 -> d2 may change: "at
            most one cycle"; what changes is counted per field in the evidence).
  reread    A itself reads d1 (a2 = DUMP), reads a2 (a3 = DUMP): no error, a2 == a3.
  modify    M = new instance; every block of d1 except SOLUTION_RAW 1; `SOLUTION 1` = pure water with d1's temperature,
            pressure and water mass; `SOLUTION_MODIFY 1` with d1's -totals, -total_h, -total_o, -cb only.
  storagebin / serializer   phreeqc2cxxStorageBin -> cxxStorageBin2phreeqc, Serializer::Serialize -> Deserialize on A's
            engine object (white-box driver ops).
  For every follow-up in {RUN_CELLS step, REACTION HCl, MIX with solution 2, REACTION_TEMPERATURE 40, (cells with
  kinetics:) a longer incremental time step}: the selected-output table (USER_PUNCH of 50-70 full-precision read-outs per
  reaction step: pH, pe, mu, T, water, volume, conductance, element totals, redox inventory, SI and amounts of phases, gas
  moles / pressure / molar volume, exchange and surface species, EDL potential / charge / water / ions, kinetic and
  solid-solution amounts) of the follow-up on the re-instated state equals the table of the same follow-up on the
  original A: same rows, same text cells, numbers within relative 1e-7.  "On the original" = in a forked copy of the
  driver process, so that every follow-up and every route starts from the very same A.

How "relative 1e-7" is read (R1: not stricter than the text, never wider):
  * a number passes if |a-b| <= 1e-7 max(|a|,|b|); log10-type read-outs (pH, pe, SI) also pass if the quantity they are
    the logarithm of agrees to 1e-7 (|dL| <= log10(1+1e-7)) - otherwise SI = 0 +- 2e-15 of an equilibrated phase could
    never be "equal";
  * CHARGE_BALANCE and ALK are shown, never judged (cancelling sums without a relative scale);
  * a follow-up that does not complete on the original is not judged (R2); one that does not complete on the
    SOLUTION_MODIFY copy only is counted, not judged (the copy starts the solver from other initial guesses; whether
    the solver copes is C03's / C08's subject).
Calibration (R5) - what alarms on the unchanged tree, each under ONE narrow fingerprint (see the evidence and the
known findings): two read errors (SOLUTION -isotope data; -equilibrate gas phase: `-p_read nan`), exchangers / surfaces tied
to a kinetic reactant that the reader rescales, the redox state (pe without redox poise, minor redox amounts) that 14
significant digits cannot carry, and two solver-tolerance effects visible on the modify route only (sit.dat: stale
water activity; fixed-volume gas: pressure converged to 1e-3 atm).  Dump text after the in-memory routes is compared
with d1 for the evidence only (the statement speaks of follow-up results there): Serializer drops entity descriptions
and -viscos_0 on every state, no follow-up depends on them.
"""
import math
import os
import re

from .. import core, build, phr, drv
from ..oracles import raw
from ..oracles import c10_states as S
from . import c02

PROP = "C10"
TOL = 1e-7            # the statement: follow-up results agree to relative 1e-7

# ------------------------------------------------------------------------------------------------ read-outs
COMMON = [("pH", '-LA("H+")'), ("pe", '-LA("e-")'), ("mu", "MU"), ("tc", "TC"), ("water", 'TOT("water")'), ("alk", "ALK"), ("vol", "SOLN_VOL"),
          ("sc", "SC"), ("cb", "CHARGE_BALANCE"), ("step", "STEP_NO"),
          # redox inventory of the step's solution (moles): decides whether pe is a determined result (see poise())
          ("rx_O2", 'MOL("O2") * TOT("water")'), ("rx_H2", 'MOL("H2") * TOT("water")')] + \
         [("rx_%s" % v, 'TOTMOLE("%s")' % v) for v in ("Fe(2)", "Fe(3)", "N(5)", "N(3)", "N(0)", "N(-3)", "S(6)", "S(-2)", "C(4)", "C(-4)")]
H_COLS = ([("m_" + e, 'TOTMOLE("%s")' % e) for e in ("Na", "Ca", "Sr", "Mg", "K", "Cl", "C", "S", "N")] +
          [x for p in ("Calcite", "Gypsum", "CO2(g)", "Aragonite", "Strontianite") for x in (("si_" + p, 'SI("%s")' % p), ("eq_" + p, 'EQUI("%s")' % p))] +
          [("gas_" + g, 'GAS("%s")' % g) for g in ("CO2(g)", "N2(g)", "O2(g)")] + [("gas_p", "GAS_P"), ("gas_vm", "GAS_VM")] +
          [("mol_" + s, 'MOL("%s")' % s) for s in ("NaX", "CaX2", "MgX2", "SrX2", "KX", "Hfo_wOH", "Hfo_wOH2+", "Hfo_wO-", "Hfo_sOCa+", "Hfo_wOCa+")] +
          [("edl_%s_Hfo" % w, 'EDL("%s","Hfo")' % w) for w in ("psi", "sigma", "charge", "water", "Cl", "Na", "Ca")] +
          [("kin_" + k, 'KIN("%s")' % k) for k in ("Calcite", "Zero")] + [("ss_" + s, 'S_S("%s")' % s) for s in ("Calcite", "Strontianite", "Aragonite")])
# Read-outs that are punched and shown but never judged: both are sums that cancel to (nearly) nothing and have no
# relative scale of their own - the charge balance of a solution is the accumulated rounding residue of the solver unless
# the input imposes one; the alkalinity of a solution without a weak acid is [OH-] - [H+] +- ion pairs.
NOT_JUDGED = ("cb", "alk")
# log10-type read-outs (pH, pe, saturation indices): "relative 1e-7" is met if it holds for the logarithm OR for the
# quantity itself (activity, activity product): |dL| <= 1e-7 max|L|  or  |10^dL - 1| <= 1e-7.  Without the second form
# a saturation index of an equilibrated phase (0 +- 2e-15) could never be "equal".
LOG_ABS = 4.3429447e-8          # log10(1 + 1e-7)
# Redox: read-outs that are functions of pe.  They are judged only in rows where pe is a determined quantity:
REDOX_COUPLES = (("rx_Fe(3)", "rx_Fe(2)", 1), ("rx_N(5)", "rx_N(3)", 2), ("rx_N(5)", "rx_N(0)", 5), ("rx_N(5)", "rx_N(-3)", 8), ("rx_N(0)", "rx_N(-3)", 3),
                 ("rx_S(6)", "rx_S(-2)", 8), ("rx_C(4)", "rx_C(-4)", 8))
POISE_MIN = 1.5e-4             # eq per pe unit
E_RESOLUTION = 6e-12           # eq: electron balance carried by a 14-digit dump of ~1 kg of water (see poise())
FIXV_CLASS_MAX = 1e-5
REDOX_FP = "followup-differs redox state beyond the 14 significant digits of the dump (pe without redox poise / minor redox amounts)"
REDOX_SENSITIVE = ("pe", "si_Goethite", "gas_O2_g_", "gas_O2", "gas_CH4", "m_Fe_2_", "m_Fe_3_", "m_N_5_", "m_N_-3_", "m_S_-2_")


SI_OF_REDOX_ELEMENT = {"si_Gypsum": "rx_S(6)"}      # judged SI read-outs of phases built from a valence state of S / N / Fe


def is_log(h):
    return h in ("pH", "pe") or h.startswith("si_")


def is_redox(h):
    return h.startswith("rx_") or h in REDOX_SENSITIVE


def poise(row):
    """Redox buffer capacity d(electron equivalents)/d(pe) of the solution of one punched row, in eq per pe unit, from the
    textbook expression for a couple ox + n e- = red:  beta = ln10 n^2 ox red / (ox + red); for O2/H2O and H2O/H2 (water in
    excess) beta = ln10 16 n(O2) and ln10 4 n(H2).  A DUMP carries the state with 14 significant digits: total H
    (111 mol per kg water) to 5e-12 mol, total O to 5e-13 mol, i.e. the electron balance to ~6e-12 eq; pe is determined
    within log10(1 + 1e-7) = 4.3e-8 only if beta > 6e-12 / 4.3e-8 = 1.4e-4 (POISE_MIN); the amount of a redox species is
    determined to E_RESOLUTION / n mol.  Differences within these limits are the resolution of the capture format, not
    of the reader; they are classed under the one fingerprint REDOX_FP."""
    g = lambda k: max(float(row.get(k) or 0.0), 0.0)
    beta = 16.0 * g("rx_O2") + 4.0 * g("rx_H2")
    for ox, red, n in REDOX_COUPLES:
        a, b = g(san(ox)), g(san(red))
        if a + b > 0.0:
            beta += n * n * a * b / (a + b)
    return 2.302585092994046 * beta


def san(h):
    return re.sub(r"[^A-Za-z0-9_+\-.\[\]]", "_", h)


def punch_text(cols):
    heads = [san(h) for h, _ in cols]
    return ("SELECTED_OUTPUT 1\n -reset false\n -high_precision true\nUSER_PUNCH 1\n -headings " + " ".join(heads) + "\n" +
            "".join(" %d PUNCH %s\n" % (10 * (i + 1), e) for i, (_, e) in enumerate(cols))), heads


_file_cache = {}


def setup(case):
    """-> dict(db path, prelude = database additions + read-out definition, heads, kinetic)"""
    if case["fam"] == "H":
        cols = COMMON + H_COLS
        add = c02.RATES
        db = c02.DBNAME
        kin = True
    else:
        ini = S.INITS[case["init"]]
        cols = COMMON + ini["cols"]
        add = ini["prelude"]
        if isinstance(add, tuple):
            p = os.path.join(phr.DBDIR, add[1])
            if p not in _file_cache:
                with open(p, encoding="latin-1") as f:
                    _file_cache[p] = f.read()
            add = S.RATE_ZERO + _file_cache[p] + "\nEND\n"
        db = ini["db"]
        kin = ini["kinetic"]
    pt, heads = punch_text(cols)
    return {"db": phr.dbpath(db), "prelude": add + pt + "END\n", "punch": pt + "END\n", "heads": heads, "kinetic": kin}


# ------------------------------------------------------------------------------------------------ driver helpers
def fresh(d, su):
    r = d.new("cpp")
    s = "s%d" % r["slot"]
    if d.call(s, "cpp", "LoadDatabase", su["db"]) != 0:
        raise RuntimeError("database %s does not load" % su["db"])
    d.call(s, "cpp", "SetDumpStringOn", 1)
    rc = d.call(s, "cpp", "RunString", su["prelude"])
    if rc != 0:
        raise RuntimeError("database additions do not load: %s" % d.call(s, "cpp", "GetErrorString")[:400])
    return s


RUN_TIMEOUT = 45.0      # s; a follow-up takes < 1 s, the heaviest history step a few seconds


def rs(d, s, text):
    rc = d.call(s, "cpp", "RunString", text, timeout=RUN_TIMEOUT)
    if isinstance(rc, dict):
        return -1, "exit() called inside the library", ""
    return rc, d.call(s, "cpp", "GetErrorString"), d.call(s, "cpp", "GetWarningString")


def kill_orphans(scratch):
    """After a time-out the driver client kills the top driver process only; forked copies that are still computing would
    live on.  They are recognised by their working directory (the driver's private scratch directory) and killed."""
    import signal
    for pid in os.listdir("/proc"):
        if not pid.isdigit():
            continue
        try:
            cwd = os.readlink("/proc/%s/cwd" % pid)
        except OSError:
            continue
        if cwd.split(" (deleted)")[0] == scratch:
            try:
                os.kill(int(pid), signal.SIGKILL)
            except OSError:
                pass


class Fork:
    """`with Fork(d):` - the commands inside run in a forked copy of the driver process (all instances copied)."""

    def __init__(self, d):
        self.d = d

    def __enter__(self):
        self.scratch = self.d.dir
        self.d.fork()

    def __exit__(self, et, ev, tb):
        if et is not None and issubclass(et, (drv.DrvDied, drv.DrvTimeout)):
            kill_orphans(self.scratch)          # the driver has been restarted: there is no fork to end
            return False
        self.d.endfork()
        return False


def dump(d, s):
    rc, err, _ = rs(d, s, "DUMP\n -all\nEND\n")
    if rc != 0:
        raise RuntimeError("DUMP -all fails: %s" % err[:300])
    return d.call(s, "cpp", "GetDumpString")


DUMP_OPTION = {"SOLUTION_RAW": "solution", "EQUILIBRIUM_PHASES_RAW": "equilibrium_phases", "EXCHANGE_RAW": "exchange", "SURFACE_RAW": "surface",
               "GAS_PHASE_RAW": "gas_phase", "SOLID_SOLUTIONS_RAW": "solid_solutions", "KINETICS_RAW": "kinetics", "MIX_RAW": "mix",
               "REACTION_RAW": "reaction", "REACTION_TEMPERATURE_RAW": "temperature", "REACTION_PRESSURE_RAW": "pressure"}


def dump_by_kind(d, s, d1):
    """The same state dumped one entity kind per DUMP block (each the only content of its call), in the order of d1."""
    kinds = {}
    for line in d1.split("\n"):
        m = _HDRLINE.match(line)
        if m and m.group(1) in DUMP_OPTION and int(m.group(2)) >= 0:
            kinds.setdefault(m.group(1), []).append(int(m.group(2)))
    parts = []
    for kw, nums in kinds.items():
        rc, err, _ = rs(d, s, "DUMP\n -%s %s\nEND\n" % (DUMP_OPTION[kw], " ".join(str(n) for n in nums)))
        if rc != 0:
            raise RuntimeError("DUMP -%s fails: %s" % (DUMP_OPTION[kw], err[:300]))
        parts.append(d.call(s, "cpp", "GetDumpString"))
    return "".join(parts), len(kinds)


def table(d, s):
    t = d.obs(s, "cpp", "t")["sel"].get("1", {}).get("table") or []
    return [[c["l"] if isinstance(c, dict) and "l" in c else c for c in r] for r in t]


# ------------------------------------------------------------------------------------------------ histories
KW = (("EQUILIBRIUM_PHASES_RAW", "equilibrium_phases", "pp"), ("EXCHANGE_RAW", "exchange", "ex"), ("SURFACE_RAW", "surface", "su"),
      ("GAS_PHASE_RAW", "gas_phase", "ga"), ("SOLID_SOLUTIONS_RAW", "solid_solutions", "ss"), ("KINETICS_RAW", "kinetics", "ki"))
RECIPES = (("REACTION_RAW", "reaction"), ("REACTION_TEMPERATURE_RAW", "reaction_temperature"), ("REACTION_PRESSURE_RAW", "reaction_pressure"))
S_OPS = ("cells", "usesave")


def present(blocks):
    return [(kw, short) for k, kw, short in KW if (k, 1) in blocks]


def signature(blocks):
    sig = "+".join(short for _, short in present(blocks)) or "solution"
    extra = [kw for k, kw in RECIPES if (k, 1) in blocks] + (["mix"] if ("MIX_RAW", 1) in blocks else [])
    return sig + ("".join("+" + e for e in extra))


def s_op_text(op, blocks):
    if op == "cells":
        return "RUN_CELLS\n -cells 1\n -time_step 600\nEND\n"
    lines = ["USE mix 1" if ("MIX_RAW", 1) in blocks else "USE solution 1"]
    lines += ["USE %s 1" % kw for kw, _ in present(blocks)]
    lines += ["USE %s 1" % kw for k, kw in RECIPES if (k, 1) in blocks]
    lines += ["SAVE solution 1"] + ["SAVE %s 1" % kw for kw, short in present(blocks) if short != "ki"]
    return "\n".join(lines) + "\nEND\n"


def run_history(d, A, case):
    """Replays the history in slot A.  -> (completed, error text, engine runs)"""
    n = 0
    if case["fam"] == "H":
        rc, err, _ = rs(d, A, c02.INIT[case["init"]])
        n += 1
        if rc != 0:
            raise RuntimeError("initial simulation fails: %s" % err[:300])
        pres, kin = set(c02.INIT_MODEL[case["init"]][0]), c02.INIT_MODEL[case["init"]][1]
        for op in case["ops"]:
            if op in c02.ATTACH:
                pres.add(c02.ATTACH[op][0])
                if c02.ATTACH[op][0] == "ki":
                    kin = op
            defs, step, _ = c02.op_texts(op, case["mode"], pres, kin)
            if defs is not None:
                rc, err, _ = rs(d, A, defs + "END\n")
                n += 1
                if rc != 0:
                    return False, err, n
            rc, err, _ = rs(d, A, step)
            n += 1
            if rc != 0:
                return False, err, n
        return True, "", n
    rc, err, _ = rs(d, A, S.INITS[case["init"]]["text"])
    n += 1
    if rc != 0:
        raise RuntimeError("initial simulation of %s fails: %s" % (case["init"], err[:300]))
    if case["ops"]:
        blocks = raw.parse(dump(d, A))
        for op in case["ops"]:
            rc, err, _ = rs(d, A, s_op_text(op, blocks))
            n += 1
            if rc != 0:
                return False, err, n
    return True, "", n


# ------------------------------------------------------------------------------------------------ follow-ups
def followups(blocks, kinetic):
    use = "".join("USE %s 1\n" % kw for kw, _ in present(blocks))
    pre = "INCREMENTAL_REACTIONS false\n"      # a global switch, not reaction state: every follow-up states it
    f = [("cells", pre + "RUN_CELLS\n -cells 1\n -time_step 1800\nEND\n"),
         ("reaction", pre + "USE solution 1\n" + use + "REACTION 7\n HCl 1\n 1 mmol\nEND\n"),
         ("mix", pre + "MIX 7\n 1 0.7\n 2 0.3\n" + use + "END\n"),
         ("temperature", pre + "USE solution 1\n" + use + "REACTION_TEMPERATURE 7\n 40\nEND\n"),
         # the cell's reactants meet the other water, which lacks most of their elements (Ca, Sr, C, S): a reactant then has to
         # seed the elements the solution does not contain
         ("foreign-water", pre + "USE solution 2\n" + use + "END\n")]
    if not use:
        f.pop()              # no reactant in the cell: USE solution alone is no calculation
    if ("KINETICS_RAW", 1) in blocks:
        f.append(("kinetics", "INCREMENTAL_REACTIONS true\nRUN_CELLS\n -cells 1\n -time_step 7200\nEND\n"))
    return f


REDOX_PAIRS = {"Fe": ("Fe(2)", "Fe(3)"), "N": ("N(5)", "N(-3)"), "S": ("S(6)", "S(-2)")}      # phreeqc.dat / iso.dat style names


def modify_text(blocks, others):
    """Route `modify`: everything but solution 1 as dumped; solution 1 = pure water of the same temperature, pressure
    and water mass, then SOLUTION_MODIFY with the element totals, total H, total O and charge of the dump only."""
    b = blocks[("SOLUTION_RAW", 1)]
    t = "".join(v["text"] for (k, n), v in blocks.items() if not (k == "SOLUTION_RAW" and n == 1))
    t += "".join(l + "\n" for l in others)
    # the receiving solution holds two valence states of every redox element the dump lists as a plain element total:
    # SOLUTION_MODIFY must replace them by the element total (stale valence-state entries would be counted twice)
    val = [e for e in b["totals"] if "(" in e]
    seed = "".join(" %s 1e-3\n" % e for e in val if e.split("(")[0] not in ("H", "O"))
    seed += "".join(" %s 1e-3\n %s 1e-3\n" % REDOX_PAIRS[e] for e in b["totals"] if e in REDOX_PAIRS)
    t += "END\nSOLUTION 1\n temp %r\n pressure %r\n pH 7\n%s -water %r\nEND\n" % (b["temp"], b["pressure"], seed, b["mass_water"])
    t += "SOLUTION_MODIFY 1\n -total_h %r\n -total_o %r\n -cb %r\n -totals\n" % (b["total_h"], b["total_o"], b["cb"])
    # "only element totals": the valence-state entries of the dump are summed per element
    el = {}
    for e, v in b["totals"].items():
        base = e.split("(")[0]
        key = e if base in ("H", "O") else base
        el[key] = el.get(key, 0.0) + v
    for e, v in el.items():
        t += "  %s %r\n" % (e, v)
    return t + "END\n"


# ------------------------------------------------------------------------------------------------ the oracle
def isnum(x):
    return isinstance(x, (int, float)) and not isinstance(x, bool)


def compare_tables(ta, tb, info=None):
    """-> (list of (row, heading, a, b, rel or None), worst relative difference of judged numeric cells).
    info (dict) collects what was left unjudged for want of redox poise."""
    if len(ta) != len(tb) or (ta and ta[0] != tb[0]):
        return [(-1, "shape", "%d rows" % (len(ta) - 1), "%d rows" % (len(tb) - 1), None, False)], 0.0
    bad, worst = [], 0.0
    for i, (ra, rb) in enumerate(zip(ta[1:], tb[1:])):
        beta = min(poise(dict(zip(ta[0], ra))), poise(dict(zip(ta[0], rb))))
        poised = beta >= POISE_MIN
        if info is not None:
            info["rows"] = info.get("rows", 0) + 1
            info["unpoised_rows"] = info.get("unpoised_rows", 0) + (0 if poised else 1)
        for h, a, b in zip(ta[0], ra, rb):
            if h in NOT_JUDGED:
                continue
            if isnum(a) and isnum(b):
                if a == b:
                    continue
                if a != a or b != b:
                    if not (a != a and b != b):
                        bad.append((i, h, a, b, None, False))
                    continue
                rel = abs(a - b) / max(abs(a), abs(b))
                if rel > TOL and is_log(h) and abs(a - b) <= LOG_ABS:
                    continue
                if not is_redox(h):
                    worst = max(worst, rel if rel <= TOL else 0.0)
                if rel > TOL:
                    lim = False
                    if h in SI_OF_REDOX_ELEMENT:
                        # the saturation index follows the element's own valence state; when the row holds so little of it that
                        # the electron resolution of the capture (E_RESOLUTION) is a visible fraction, the index moves with it
                        row = dict(zip(ta[0], ra))
                        amt = max(float(row.get(san(SI_OF_REDOX_ELEMENT[h])) or 0.0), 0.0)
                        lim = amt > 0.0 and abs(a - b) <= math.log10(1.0 + 2.0 * E_RESOLUTION / amt)
                    if is_redox(h):
                        # beyond what 14 digits carry?  (pe / SI of a redox phase: E_RESOLUTION x 8 electrons / beta; amounts: E_RESOLUTION)
                        lim = (not poised) or (abs(a - b) <= 8.0 * E_RESOLUTION / beta if is_log(h) else abs(a - b) <= 2.0 * E_RESOLUTION)
                        if h == "pe" and not poised and info is not None:
                            info["max_unpoised_pe_difference"] = max(info.get("max_unpoised_pe_difference", 0.0), abs(a - b))
                    bad.append((i, h, a, b, rel, lim))
            elif a != b:
                bad.append((i, h, a, b, None, False))
    return bad, worst


def group(h):
    return h.split("_")[0]


_HDRLINE = re.compile(r"^([A-Z][A-Z_]*_RAW)\s+(-?\d+)")


def field_lines(text):
    """[(path, line)] : path = KIND/option[/option..] of every line of a dump (names of components dropped), so that a
    difference between two dumps can be named by the RAW field it sits in."""
    out, kind, stack = [], "?", []
    for line in text.splitlines():
        m = _HDRLINE.match(line)
        if m:
            kind, stack = m.group(1), []
            out.append((kind + "/header", line))
            continue
        if not line.strip():
            continue
        ind = len(line) - len(line.lstrip(" "))
        tok = line.split()[0]
        while stack and stack[-1][0] >= ind:
            stack.pop()
        if tok.startswith("-") and len(tok) > 1 and not tok[1].isdigit() and tok[1] != ".":
            stack.append((ind, tok[1:]))
            out.append((kind + "/" + "/".join(n for _, n in stack), line))
        elif tok.startswith("#"):
            continue
        else:
            out.append((kind + "/" + "/".join(n for _, n in stack) + "/row", line))
    return out


def changed_fields(ta, tb):
    """Sorted RAW field paths in which two dump texts differ."""
    if ta == tb:
        return []
    la, lb = field_lines(ta), field_lines(tb)
    if len(la) == len(lb) and all(x[0] == y[0] for x, y in zip(la, lb)):
        return sorted({x[0] for x, y in zip(la, lb) if x[1] != y[1]}) or ["(comment or blank lines only)"]
    from collections import Counter
    ca, cb = Counter(la), Counter(lb)
    return sorted({p for (p, _l) in (ca - cb)} | {p for (p, _l) in (cb - ca)}) or ["(line order only)"]


# GasComp -p is a work-space value (partial pressure of the last calculation) that the reader does not take over and every
# calculation recomputes; it is the one field that changes in the first cycle of every gas phase.  It is left out of the
# *fingerprint* of a follow-up difference (not out of the comparison) so that the fingerprint names the operative change.
BENIGN = ("GAS_PHASE_RAW/component/p",)


def mechanism(fields):
    return sorted(f for f in fields if f not in BENIGN)


# what Serializer does not carry on the unchanged tree (entity descriptions, SOLUTION_RAW -viscos_0): no follow-up depends
# on them; they are counted in the evidence and left out of the fingerprint of a follow-up difference
SERIALIZER_DROPS = ("SOLUTION_RAW/viscos_0",)
RESCALE_FIELDS = {"EXCHANGE_RAW": ("component/totals/row", "component/charge_balance"),
                  "SURFACE_RAW": ("component/totals/row", "component/charge_balance", "charge_component/charge_balance", "charge_component/grams")}


def related_rescale(changed, blocks):
    """If everything the first read/dump cycle changed is the set of amounts of exchangers / surfaces whose components
    are tied to a kinetic reactant or a phase (-rate_name / -phase_name in the dump): the kinds concerned, else []."""
    kinds = []
    for f in changed:
        kind, _, rest = f.partition("/")
        if rest not in RESCALE_FIELDS.get(kind, ()):
            return []
        b = blocks.get((kind, 1)) or {}
        tied = any(isinstance(c.get(k), str) and c.get(k) for c in b.get("component", {}).values() for k in ("rate_name", "phase_name"))
        if not tied:
            return []
        if kind not in kinds:
            kinds.append(kind)
    return sorted(kinds)


_SS_P = re.compile(r"^(\s+-p\s+\S+\s+\S+)\s+\S+\s+\S+\s*$", re.M)


def mask_ss_p(text):
    """cxxSS::dump_raw prints p[0..3] although the 2-parameter input forms (-miscibility_gap, -critical_point, -thompson,
    ...) leave the vector with 2 entries: the 3rd and 4th number of a solid solution's `-p` line are whatever the heap holds
    (an out-of-bounds read, reported as a diagnostic).  They are masked wherever text enters a state key or the evidence
    (R4); the fixed-point comparison d2 == d3 is on the unmasked text (both sides were read from text, so they agree)."""
    return _SS_P.sub(lambda m: m.group(1) + "\t?\t?", text)


def errline(err):
    for l in err.splitlines():
        if l.strip():
            return re.sub(r"[-+]?\d+\.?\d*([eE][-+]?\d+)?", "#", l.strip())[:100]
    return "(empty)"


ROUTES = ("text", "modify", "reread", "storagebin", "serializer")
TEXT_ROUTES = ("text", "modify", "reread")      # the state travels as 14-digit text
# follow-ups judged on the in-memory copies only (exact copies): solution 2 has no redox buffer, so after a 14-digit text
# restore its pe is arbitrary (finding F34) and a calculation that starts from it can end anywhere or fail to converge
MEMORY_ONLY = ("foreign-water",)


def run_case(case):
    d = core.get_drv("rel", whitebox=True)
    out = {"case": case, "problems": [], "ops": 0, "diagnostics": []}
    phase = "history"
    try:
        return _run_case(d, case, out)
    except (drv.DrvDied, drv.DrvTimeout) as e:
        log = getattr(d, "dead_log", None) or []
        what = "%s %s | last commands: %s" % (type(e).__name__, str(e)[:100], " ; ".join(l[:200] for l in log[-2:]))
        phase = out.get("phase", phase)
        if phase == "history" or phase.endswith("on the original"):
            # a crash / hang while *reaching* the state, or of a follow-up on the original itself, is not this property's
            # subject (C08 / C03): counted as not completed
            out.update(not_completed=True, outcome="not-completed", err="DRIVER DIED (%s): %s" % (phase, what), driver_death=True)
            out["problems"] = []
            return out
        phase = re.sub(r"follow-up \S+ ", "a follow-up ", phase)
        out["problems"].append(("library crash or hang phase=%s" % phase, "the driver process died / hung while %s\n%s" % (phase, what)))
        out.setdefault("outcome", "crash")
        return out


def _run_case(d, case, out):
    su = setup(case)
    problems, diags = out["problems"], out["diagnostics"]
    d.reset()
    A = fresh(d, su)
    out["phase"] = "history"
    ok, err, n = run_history(d, A, case)
    out["ops"] += n
    if not ok:
        out.update(not_completed=True, outcome="not-completed", err=err[:300])
        return out
    # the history may have defined its own SELECTED_OUTPUT 1 (C02's inputs do): the read-out definition is stated again
    rc, err, _ = rs(d, A, su["punch"])
    if rc != 0:
        raise RuntimeError("read-out definition fails after the history: %s" % err[:300])
    d1 = dump(d, A)
    blocks = raw.parse(d1)
    others = raw.other(d1)
    key = core.sha(raw.canonical(mask_ss_p(d1), 12))
    tag = "state: %s" % case_name(case)
    # the text of an entity does not depend on what else the DUMP block selected
    dk, nk = dump_by_kind(d, A, d1)
    out["ops"] += nk
    nouse = lambda t: "".join(l for l in t.splitlines(True) if not l.startswith("USE "))      # the 'USE <kind> none' footer of every DUMP
    chk = changed_fields(nouse(d1), nouse(dk))
    if chk:
        problems.append(("dump-by-kind-differs-from-dump-all fields=%s" % ",".join(chk)[:200],
                         "the state dumped one entity kind per DUMP block differs from DUMP -all of the same state in %s\n%s\n%s" % (", ".join(chk), first_diff(nouse(d1), nouse(dk)), tag)))
    out.update(key=key, states=[key], outcome=key, cell=signature(blocks))
    stats = {"first_cycle": [], "wb_dump": {}, "worst": {}, "judged": 0, "fu_not_completed": 0, "read_warnings": 0, "modify_fu_not_completed": 0, "redox": {}, "redox_limited": 0}
    out["stats"] = stats

    def read_back(s, text, route, what):
        rc, e, w = rs(d, s, text)
        out["ops"] += 1
        if w.strip():
            stats["read_warnings"] += 1
            diags.append("warning while reading %s (%s): %s" % (what, case_name(case), errline(w)))
        if rc != 0 or e.strip():
            problems.append(("read-error msg=%s" % errline(e),
                             "reading %s back raises an error (rc=%d): %s\n%s" % (what, rc, e.strip()[:600], tag)))
            return False
        return True

    def fixed_point(da, db_, route, names):
        ch = changed_fields(da, db_)
        if ch:
            problems.append(("dump-not-a-fixed-point route=%s fields=%s" % (route, ",".join(ch)[:200]),
                             "%s differs from %s (the text must be stable after one read/dump cycle) in %s\n%s\n%s" % (
                                 names[1], names[0], ", ".join(ch), first_diff(da, db_), tag)))

    # ---- route text: B reads d1, C reads B's dump
    out["phase"] = "reading the dump into a new instance"
    B = fresh(d, su)
    okB = read_back(B, d1, "text", "the dump d1 of the state")
    d2 = None
    if okB:
        d2 = dump(d, B)
        stats["first_cycle"] = changed_fields(d1, d2)
        C = fresh(d, su)
        if read_back(C, d2, "text", "the second-generation dump d2"):
            fixed_point(d2, dump(d, C), "text", ("d2 (dump of the instance that read d1)", "d3 (dump of the instance that read d2)"))
        out["ops"] += 2
    # ---- route modify
    out["phase"] = "building the SOLUTION_MODIFY copy"
    M = None
    if ("SOLUTION_RAW", 1) in blocks:
        M = fresh(d, su)
        if not read_back(M, modify_text(blocks, others), "modify", "the dump with solution 1 replaced by SOLUTION + SOLUTION_MODIFY (totals, total_h, total_o, cb)"):
            M = None
    F = followups(blocks, su["kinetic"])
    ref = {}

    def judge(route, fname, rcA, tabA, rcX, errX, tabX):
        if rcA != 0:
            return
        if rcX != 0:
            if route == "modify":
                # a solution rebuilt from totals starts the solver from other initial guesses; whether it converges is a
                # matter of the solver's robustness (C03/C08), not of what the totals capture: counted, not judged
                stats["modify_fu_not_completed"] += 1
                diags.append("follow-up '%s' does not complete on the SOLUTION_MODIFY copy (%s): %s" % (fname, case_name(case), errline(errX)))
                return
            problems.append(("followup-fails-on-reinstated-state route=%s msg=%s" % (route, errline(errX)),
                             "follow-up '%s' completes on the original state but fails on the state re-instated via '%s': %s\n%s" % (
                                 fname, route, errX.strip()[:400], tag)))
            return
        bad, worst = compare_tables(tabA, tabX, stats["redox"])
        stats["judged"] += 1
        if not bad:       # the worst difference *among comparisons that agree* (a differing state yields a continuum up to the tolerance)
            stats["worst"][route] = max(stats["worst"].get(route, 0.0), worst)
        if bad:
            lines = ["  step %d %-14s original %.17g   re-instated %.17g   relative %s" % (i + 1, h, a, b, "%.3g" % r if r is not None else "-") if isnum(a) and isnum(b)
                     else "  step %d %-14s original %r   re-instated %r" % (i + 1, h, a, b) for i, h, a, b, r, _ in bad[:12]]
            changed = mechanism(stats["first_cycle"]) if route in TEXT_ROUTES else []
            copy_changed = [f for f in stats["wb_dump"].get(route, []) if not f.endswith("/header") and f not in SERIALIZER_DROPS]
            if route in TEXT_ROUTES and all(x[5] for x in bad):
                fp = REDOX_FP
                stats["redox_limited"] += 1
            elif changed:
                # the reader altered the state (d1 -> d2 differ in these fields): that is the mechanism, whatever the route
                rel_kinds = related_rescale(changed, blocks)
                if rel_kinds:
                    fp = "followup-differs amounts of %s rescaled by the reader to the related kinetic reactant / phase" % "+".join(rel_kinds)
                else:
                    fp = "followup-differs state-changed-by-reading-its-dump fields=%s" % ",".join(changed)
            elif copy_changed:
                fp = "followup-differs route=%s state-changed-by-the-in-memory-copy fields=%s" % (route, ",".join(copy_changed))
            else:
                hard = [x for x in bad if not x[5]] if route in TEXT_ROUTES else bad      # in-memory copies are exact: nothing is excused
                lead = max(hard, key=lambda x: x[4] if x[4] is not None else 9.0)
                gp = blocks.get(("GAS_PHASE_RAW", 1))
                if route == "modify" and gp is not None and float(gp.get("type", 0)) == 1 and all(x[4] is not None and x[4] <= FIXV_CLASS_MAX for x in hard):
                    # known mechanism (finding F16 of C15): the pressure of a fixed-volume gas phase is only converged to 1e-3 atm,
                    # so two legitimate solver trajectories end 1e-7..1e-6 apart; larger differences keep the generic fingerprint
                    fp = "followup-differs route=modify cell-with-fixed-volume-gas relative-difference<=1e-5 (trajectory-dependent result)"
                else:
                    fp = "followup-differs route=%s db=%s cell=%s leading-readout=%s" % (route, os.path.basename(su["db"]), out["cell"], group(lead[1]))
            problems.append((fp, "follow-up '%s' on the state re-instated via '%s' differs from the same follow-up on the original (tolerance %g relative), %d cells:\n%s\n"
                                 "fields of the dump changed by the first read/dump cycle: %s\n%s" % (
                                     fname, route, TOL, len(bad), "\n".join(lines), ", ".join(stats["first_cycle"]) or "none", tag)))

    # ---- follow-ups on A, B, M (each in a forked copy of the process: A stays untouched)
    for fname, text in F:
        with Fork(d):
            out["phase"] = "follow-up %s on the original" % fname
            rcA, errA, _ = rs(d, A, text)
            tabA = table(d, A)
            ref[fname] = (rcA, tabA)
            out["ops"] += 1
            if rcA != 0:
                stats["fu_not_completed"] += 1
                continue
            if len(tabA) < 2:
                raise RuntimeError("follow-up %s produced no selected-output row (%s)" % (fname, case_name(case)))
            for route, s in (("text", B if okB else None), ("modify", M)):
                if s is None or fname in MEMORY_ONLY:
                    continue
                out["phase"] = "follow-up %s on the state re-instated via %s" % (fname, route)
                rcX, errX, _ = rs(d, s, text)
                out["ops"] += 1
                judge(route, fname, rcA, tabA, rcX, errX, table(d, s))
    # ---- routes that transform A itself (in a fork), follow-ups in nested forks
    for route in ("reread", "storagebin", "serializer"):
        out["phase"] = "route %s" % route
        with Fork(d):
            if route == "reread":
                if not read_back(A, d1, route, "its own dump d1 (same instance)"):
                    continue
                a2 = dump(d, A)
                if read_back(A, a2, route, "its own second-generation dump"):
                    fixed_point(a2, dump(d, A), route, ("a2 (dump after the instance read its own d1)", "a3 (dump after it read a2)"))
                out["ops"] += 2
            else:
                r = d.cmd("wb", A, "storagebin_roundtrip" if route == "storagebin" else "serialize_roundtrip")
                if "exc" in r:
                    problems.append(("whitebox-copy-throws route=%s" % route, "%s: %s\n%s" % (route, r["exc"], tag)))
                    continue
                stats["wb_dump"][route] = changed_fields(mask_ss_p(d1), mask_ss_p(dump(d, A)))
                out["ops"] += 1
            for fname, text in F:
                rcA, tabA = ref[fname]
                if rcA != 0 or (route in TEXT_ROUTES and fname in MEMORY_ONLY):
                    continue
                out["phase"] = "follow-up %s on the state re-instated via %s" % (fname, route)
                with Fork(d):
                    rcX, errX, _ = rs(d, A, text)
                    out["ops"] += 1
                    judge(route, fname, rcA, tabA, rcX, errX, table(d, A))
    # de-duplicate fingerprints inside the case
    seen, uniq = set(), []
    for p in problems:
        if p[0] not in seen:
            seen.add(p[0])
            uniq.append(p)
    out["problems"] = uniq
    if uniq:
        out["script"] = d.script()
    fu = ref.get("reaction") or (0, [])
    out["sample"] = {"state": case_name(case), "cell": out["cell"], "dump_bytes": len(d1), "blocks": sorted("%s %d" % k for k in blocks),
                     "fields_changed_by_first_cycle": stats["first_cycle"], "followups_judged": stats["judged"],
                     "worst_relative_difference_by_route": {k: float("%.3g" % v) for k, v in stats["worst"].items()},
                     "reaction_followup_last_row": dict(zip(fu[1][0], fu[1][-1])) if fu[0] == 0 and len(fu[1]) > 1 else None}
    return out


def first_diff(a, b):
    la, lb = a.splitlines(), b.splitlines()
    for i, (x, y) in enumerate(zip(la, lb)):
        if x != y:
            return "first difference at line %d:\n  - %s\n  + %s" % (i + 1, x, y)
    return "line counts %d vs %d" % (len(la), len(lb))


def case_name(case):
    if case["fam"] == "H":
        return "C02 history init=%s mode=%s ops=[%s]" % (case["init"], case["mode"], " ".join(case["ops"]))
    return "kind cell %s (%s) ops=[%s]" % (case["init"], S.INITS[case["init"]]["db"], " ".join(case["ops"]))


# ------------------------------------------------------------------------------------------------ exploration
MAX_NEW = 8


def new_stats():
    return {"completed": 0, "not_completed": 0, "nc_samples": [], "deaths": 0, "judged": 0, "fu_nc": 0, "first_cycle": {}, "wb_dump": {r: {} for r in ("storagebin", "serializer")},
            "worst": {}, "cells": {}, "reported": set(), "unreplayed": 0, "read_warnings": 0, "identical_first_cycle": 0,
            "modify_fu_nc": 0, "redox_limited": 0, "rows": 0, "unpoised_rows": 0, "max_unpoised_pe": 0.0}


def explore_level(cases, ev, findings, pool, stats, chunk=2):
    cand, results = {}, []
    for res in pool.map(run_case, cases, chunk, ordered=True):
        results.append({"case": res["case"], "not_completed": res.get("not_completed", False), "key": res.get("key")})
        ev.traces += 1
        ev.transitions += res["ops"]
        if res.get("not_completed"):
            ev.not_completed += 1
            stats["not_completed"] += 1
            if len(stats["nc_samples"]) < 4:
                stats["nc_samples"].append({"state": case_name(res["case"]), "error": res["err"]})
            if res.get("driver_death"):
                stats["deaths"] += 1
                ev.diag("driver death while replaying a history, counted as not completed: %s" % res["err"][:400])
        else:
            stats["completed"] += 1
            if "key" in res:
                ev.state(res["key"])
            ev.outcome(res.get("outcome", "?"))
            st = res.get("stats")
            if st:
                stats["judged"] += st["judged"]
                stats["fu_nc"] += st["fu_not_completed"]
                stats["read_warnings"] += st["read_warnings"]
                stats["modify_fu_nc"] += st["modify_fu_not_completed"]
                stats["redox_limited"] += st["redox_limited"]
                rd = st["redox"]
                stats["rows"] += rd.get("rows", 0)
                stats["unpoised_rows"] += rd.get("unpoised_rows", 0)
                stats["max_unpoised_pe"] = max(stats["max_unpoised_pe"], rd.get("max_unpoised_pe_difference", 0.0))
                if not st["first_cycle"]:
                    stats["identical_first_cycle"] += 1
                for f in st["first_cycle"]:
                    stats["first_cycle"][f] = stats["first_cycle"].get(f, 0) + 1
                for r, fl in st["wb_dump"].items():
                    for f in fl:
                        stats["wb_dump"][r][f] = stats["wb_dump"][r].get(f, 0) + 1
                for r, v in st["worst"].items():
                    stats["worst"][r] = max(stats["worst"].get(r, 0.0), v)
                stats["cells"][res["cell"]] = stats["cells"].get(res["cell"], 0) + 1
            if "sample" in res and (len(res["case"]["ops"]) >= 1) and res["sample"]["cell"] != "solution":
                ev.sample(res["sample"], limit=5)
        for dg in res.get("diagnostics", ()):
            ev.diag(dg, limit=30)
        for fp, what in res["problems"]:
            cand.setdefault(fp, (res["case"], what, res.get("script", "")))
    for fp in cand:
        if fp in stats["reported"]:
            continue
        if findings.match(fp) is None and len(findings.violations) >= MAX_NEW:
            stats["unreplayed"] += 1
            ev.diag("further candidate fingerprint, not replayed (more than %d new violations already reported): %s" % (MAX_NEW, fp))
            continue
        case, what, script = cand[fp]
        if list(pool.map(core._confirm, [(run_case, case, fp)]))[0]:
            stats["reported"].add(fp)
            findings.report(fp, what, core.case_text(case, script))
        else:
            ev.diag("unconfirmed candidate (did not reproduce twice in fresh processes): %s" % fp)
    return results


def bfs_h(name, init, mode, ops, depth, ev, findings, pool, deadline, stats):
    frontier = [()]
    for k in range(1, depth + 1):
        cases = [{"fam": "H", "init": init, "mode": mode, "ops": list(seq) + [op]} for seq in frontier for op in ops]
        bname = "H %s: init=%s mode=%s depth %d (%d histories over %d ops)" % (name, init, mode, k, len(cases), len(ops))
        if deadline.passed():
            ev.bound(bname, False, cases=len(cases))
            return False
        res = explore_level(cases, ev, findings, pool, stats)
        seen, nxt, dup = set(), [], 0
        for r in res:
            if r["not_completed"] or r["key"] is None:
                continue
            if r["key"] in seen:
                dup += 1
                continue
            seen.add(r["key"])
            nxt.append(tuple(r["case"]["ops"]))
        ev.bound(bname, True, cases=len(cases), distinct_states=len(nxt), duplicates_pruned=dup)
        frontier = nxt
    return True


SUB_X = ("rx:HCl:1", "rx:CaCO3:3cum", "mix:half", "temp:60")


CORE12 = ("pp:calcite+co2", "ex:X-equil", "su:ddl-equil", "su:donnan-new", "ga:fixV", "ga:fixP", "ss:ideal", "ki:calcite",
          "rx:HCl:1", "rx:CaCO3:3cum", "mix:half", "temp:60")


def sub_alphabet():
    return [o for o in c02.alphabet() if o in c02.ATTACH or o in SUB_X]


def run(tier):
    ev = core.Evidence(PROP, tier)
    findings = core.Findings(PROP)
    ev.assumptions = [
        "the databases phreeqc.dat, iso.dat, pitzer.dat, sit.dat load without error; the CD-MUSIC additions are the goethite reactions of database/EPRI/cdmusic_hiemstra.dat",
        "'the same database additions' = the RATES / PHASES / master-species definitions of the state's input and the SELECTED_OUTPUT / USER_PUNCH read-out definition, run in the new instance before the dump is read",
        "INCREMENTAL_REACTIONS is a global switch of the run, not reaction state: every follow-up input states it",
        "route modify: the solution that receives SOLUTION_MODIFY (-totals, -total_h, -total_o, -cb of the dump) is pure water defined with the dump's -temp, -pressure and -mass_water "
        "(dump conventions taken from the implementation: SOLUTION_RAW -totals are moles per valence state; -total_h / -total_o hold all H and O; -cb is the charge in eq)",
        "CHARGE_BALANCE and ALK are punched and shown in samples but not judged; log10-type read-outs (pH, pe, SI) pass if either the logarithm or the quantity itself agrees to relative 1e-7; "
        "every other read-out is judged at relative 1e-7 of the larger of the two values",
        "constant from the implementation: DUMP writes DBL_DIG-1 = 14 significant digits; total H (111 mol/kg water) and total O are thereby carried to 5e-12 / 5e-13 mol, the electron balance to "
        "E_RESOLUTION = 6e-12 eq; differences of pe in rows whose redox buffer capacity (textbook beta = ln10 n^2 ox red/(ox+red), O2: 16 ln10 n, H2: 4 ln10 n, from punched redox inventories) is below "
        "1.5e-4 eq/pe, and of redox-species amounts by <= 1.2e-11 mol, are classed under the single fingerprint '" + REDOX_FP + "' (text routes only; in-memory copies are judged without exception)",
        "dump convention from the implementation: GAS_PHASE_RAW -type 1 = fixed volume (used only to class a modify-route difference <= 1e-5 under the fixed-volume-gas fingerprint, cf. C15's finding F16)",
        "a follow-up that fails on the SOLUTION_MODIFY copy but completes on the original is counted, not judged (different initial guesses; solver robustness is C03/C08)",
        "dump text after the storage-bin / serializer routes is compared with the original dump for the evidence only (statement: follow-up results)",
        "white-box routes use Phreeqc::phreeqc2cxxStorageBin / cxxStorageBin2phreeqc and Serializer::Serialize(engine, 0, 1000, true, true) / Deserialize on the same engine object: "
        "an entity kind that a copy routine skipped entirely would go unnoticed (the engine keeps its own object)",
        "the 3rd and 4th number of SOLID_SOLUTIONS_RAW -p lines are masked in state keys and evidence (cxxSS::dump_raw prints p[2], p[3] of a 2-element vector for the 2-parameter input forms: heap garbage)",
    ]
    pool = core.Pool()
    stats = new_stats()
    allops, light, subx = c02.alphabet(), c02.alphabet("light"), sub_alphabet()
    if tier == "quick":
        dl = core.Deadline(170)
        sdepth = 1
        plan = [("full alphabet", "plain", m, allops, 1) for m in ("use", "cells")] + \
               [("light alphabet", "full", m, light, 1) for m in ("use", "cells")] + \
               [("attach+4 sub-alphabet", "plain", m, subx, 2) for m in ("use", "cells")]
    else:
        dl = core.Deadline(1500)
        sdepth = 2
        plan = [("full alphabet", "full", m, allops, 1) for m in ("use", "cells")] + \
               [("attach+4 sub-alphabet without the 3 heavy ops", "full", m, [o for o in subx if o in light], 2) for m in ("use", "cells")] + \
               [("full alphabet", "plain", m, allops, 2) for m in ("use", "cells")] + \
               [("core-12 sub-alphabet", "plain", m, list(CORE12), 3) for m in ("use", "cells")]
    # family S: every kind cell x every history over S_OPS up to sdepth (no pruning)
    scases = [{"fam": "S", "init": i, "ops": list(seq)} for seq in core.sequences(S_OPS, sdepth) for i in S.ORDER]
    explore_level(scases, ev, findings, pool, stats)
    ev.bound("S: %d kind cells x all histories over %s up to depth %d (%d states)" % (len(S.ORDER), list(S_OPS), sdepth, len(scases)), True, cases=len(scases))
    explore_level([{"fam": "H", "init": i, "mode": "use", "ops": []} for i in ("plain", "full")], ev, findings, pool, stats)
    ev.bound("H: the two initial cells (depth 0)", True, cases=2)
    for name, init, mode, ops, depth in plan:
        bfs_h(name, init, mode, ops, depth, ev, findings, pool, dl, stats)
    pool.close()
    ev.diag("seen while calibrating, outside this statement (memory safety, C08): cxxSS::dump_raw (SS.cxx) prints p[0..3] although -miscibility_gap / -critical_point / -thompson / "
            "-margules etc. leave the vector with 2 elements: out-of-bounds read, the dump shows heap garbage (e.g. `-p 0.0048 0.8579 6.99e-308 2.42e-322`)")
    total = stats["completed"] + stats["not_completed"]
    ev.extra["alphabet"] = {"H_ops (mc/props/c02.py)": allops, "H_light": "all but su:dl-new su:dl-equil ss:nonideal", "H_sub_alphabet": subx, "H_core12": list(CORE12), "H_inits": ["plain", "full"],
                            "H_modes": ["use (USE..SAVE)", "cells (RUN_CELLS)"], "S_kind_cells": S.ORDER, "S_ops": list(S_OPS),
                            "routes": list(ROUTES), "followups": ["cells", "reaction", "mix", "temperature", "kinetics (cells with KINETICS only)"]}
    ev.extra["lattice_points"] = total
    ev.extra["completed_runs"] = stats["completed"]
    ev.extra["not_completed_runs"] = stats["not_completed"]
    ev.extra["not_completed_samples"] = stats["nc_samples"]
    ev.extra["followup_comparisons_judged"] = stats["judged"]
    ev.extra["followups_not_completed_on_the_original"] = stats["fu_nc"]
    ev.extra["worst_relative_difference_of_agreeing_comparisons_by_route"] = {k: float("%.3g" % v) for k, v in sorted(stats["worst"].items())}
    ev.extra["followups_not_completed_on_the_SOLUTION_MODIFY_copy (not judged)"] = stats["modify_fu_nc"]
    ev.extra["followup_comparisons_that_differ_only_within_the_redox_resolution_of_the_dump"] = stats["redox_limited"]
    ev.extra["compared_rows"] = stats["rows"]
    ev.extra["compared_rows_without_redox_poise (pe and pe-dependent read-outs not judged there)"] = stats["unpoised_rows"]
    ev.extra["largest_pe_difference_in_rows_without_redox_poise"] = float("%.3g" % stats["max_unpoised_pe"])
    ev.extra["states_whose_first_cycle_dump_is_identical"] = stats["identical_first_cycle"]
    ev.extra["fields_changed_by_the_first_read_dump_cycle (allowed: 'at most one cycle')"] = dict(sorted(stats["first_cycle"].items()))
    ev.extra["dump_fields_changed_by_in_memory_routes (evidence only)"] = {r: dict(sorted(v.items())) for r, v in stats["wb_dump"].items()}
    ev.extra["states_by_cell_composition"] = dict(sorted(stats["cells"].items()))
    ev.extra["warnings_while_reading_dumps"] = stats["read_warnings"]
    ev.extra["driver_deaths_in_histories_counted_as_not_completed"] = stats["deaths"]
    ev.extra["candidate_fingerprints_not_replayed"] = stats["unreplayed"]
    if total and stats["completed"] < 0.5 * total:
        print("HARNESS ERROR C10: only %d of %d states were reached - the check is broken" % (stats["completed"], total))
        raise SystemExit(2)
    if total > 50 and len(ev.outcomes) < 20:
        print("HARNESS ERROR C10: %d histories but only %d distinct states - the check is vacuous" % (total, len(ev.outcomes)))
        raise SystemExit(2)
    if stats["judged"] < 4 * stats["completed"]:
        print("HARNESS ERROR C10: only %d follow-up comparisons for %d states - the check is vacuous" % (stats["judged"], stats["completed"]))
        raise SystemExit(2)
    return core.finish(ev, findings)


def replay(path):
    return core.replay_main(PROP, path, run_case)
