"""C19  Gas phases obey their equation of state and fugacity-based equilibrium.

Shape L: the full Cartesian lattice
    gas subset (size 1..k of 7 database gases) x mode (phase type {fixed volume, fixed pressure} x initial definition
    {partial pressures, moles (GAS_PHASE_MODIFY), -equilibrate} x solution {pure water, pre-saturated} x history {fresh,
    warm}) x pressure level (8, 0.01..1000 atm) x temperature
    x database {phreeqc.dat (critical constants => Peng-Robinson), phreeqc.dat with altered GAS_BINARY_PARAMETERS,
                phreeqc.dat without -T_c/-P_c/-Omega (ideal gas)}
plus the same gases as EQUILIBRIUM_PHASES (x history).  Every point is run once on the real library (fresh instance,
database re-loaded) and every reported row is judged by mc/oracles/c19_gas.py (Peng-Robinson / ideal gas written from the
manual + Peng & Robinson 1976, critical constants and k_ij parsed from the database text).

History "warm": the same calculation is first run at 60 C in the same instance (reactants numbered 9, nothing punched),
so that everything the engine caches per phase between calculations (alpha(T), phi, corrected log K) is stale when the
judged simulation starts.  (Added after calibration: a mutant that mis-computes alpha only when the temperature of a
phase changes inside one instance was invisible to a lattice of fresh instances.)

History "redef" (own bound; added after seeded regression C19-c, which keeps the cached Peng-Robinson a, b, alpha and
log phi of a phase across its redefinition - invisible while every point ran on a freshly loaded database): (1) the
calculation with the database's gas, (2) a PHASES block redefining the gas(es) - another literature set of critical
constants, a clearly different "fitted" set, none at all (ideal gas), or (database without constants) the constants
given for the first time, (3) the calculation again; as simulations of one RunString and as three RunString calls;
fixed pressure, fixed volume and EQUILIBRIUM_PHASES.  (3) is judged by the same relations with the constants NOW in
force and must equal the same (2)+(3) on a fresh instance (differential; statement tolerances).  Fingerprints of this
bound end in "after PHASES redefinition".  Calibration: database variant "ideal" carries no GAS_BINARY_PARAMETERS lines,
the engine then uses its documented hard-coded k_ij (H2O-CO2 0.19 ...), so the variant used here ("idealk") keeps the
block; a 1e-14 mol left-over gas phase (reported P < 0.01 atm) is outside the quantifier for the comparison as well.

Pre-saturated solution: pH from charge balance and phase boundaries X(valence) <-> gas at the gas's partial pressure; for
NH3 the boundary pressure is capped at 0.1 atm.  (The first version fixed pH 7 and did not cap: 1150 of 15168 quick
points then failed in the *initial solution* - hundreds of mol/kgw NH4+/HCO3- - which was an input-generation problem,
not a gas-phase result.)  The remaining not-completed runs (~10 %) are convergence failures of the batch reaction itself,
three quarters of them at 300 / 1000 atm (tens of moles of gas against 0.1 kg water) or in redox-reactive pairs
(O2+H2S, O2+NH3, N2+NH3); they are counted, not judged (rule R2).

What is judged on every completed batch-reaction row (statement clause -> relation, tolerance):
  (b) EOS: ideal gas P V = n R T, or Peng-Robinson P(V/n, T, x) with a, b, alpha, k_ij from the database text; 1e-4;
      PR only where the cubic has a single real root (statement: "outside the two-phase region of the cubic")
  (c) p_i = x_i P and sum p_i = P (1e-4)
  (d) phi_i = Peng-Robinson fugacity coefficient, 1e-6, only strictly inside the clamp (0.0101, 84)
  (e) phi_i p_i = 10^SI_i (1e-4)
  (f) a fixed-pressure phase that exists has sum_i 10^SI_i / phi_i >= P (the converse is a diagnostic only)
  (a) the initial definition from partial pressures (DUMP of the stored GAS_PHASE): x_i = p_i / P and EOS
  EQUILIBRIUM_PHASES gases: phi p = 10^SI; phi against the pure-gas EOS for single gases (ideal: phi = 1).
Not claimed: anything inside the three-root region of the cubic except the identities (c), (e), (f); rows whose reported
pressure is outside 0.01..1000 atm; components below mole fraction 1e-9.

Calibration result on the unchanged tree: one genuine defect (known finding F13, fingerprint
"fugacity vs SI: fixed-volume Peng-Robinson gas without a PR state at V/n (10^SI = 2^k phi p)"): gases.cpp calc_PR()
doubles V_m until the PR pressure is positive and the run completes with 10^SI = 2^k phi p.
"""
import itertools
import math
import os
import sys

from .. import build, core, drv
from ..oracles import c19_gas as G

PROP = "C19"
DBFILE = os.path.join(build.REPO, "database", "phreeqc.dat")

GASES = ["CO2(g)", "CH4(g)", "N2(g)", "O2(g)", "H2S(g)", "H2O(g)", "NH3(g)", "H2(g)"]      # H2: the one gas with a negative acentric factor
# element / valence state whose total is fixed by a phase boundary when the solution is pre-saturated with the gas
BOUNDARY = {"CO2(g)": "C(4)", "CH4(g)": "C(-4)", "N2(g)": "N(0)", "O2(g)": "O(0)", "H2S(g)": "S(-2)", "NH3(g)": "N(-3)", "H2(g)": "H(0)"}
# pre-saturation of the solution with NH3 is capped at 0.1 atm (6 mol/kgw): the aqueous model of phreeqc.dat has no
# solution for ammonia at >= 1 atm (> 58 mol/kgw), the *initial solution* then fails before any gas calculation
SAT_CAP = {"NH3(g)": 0.1}
P_LEVELS = [0.01, 0.1, 1.0, 10.0, 50.0, 100.0, 300.0, 1000.0]
T_LEVELS = [25.0, 100.0, 200.0, 0.0]
T_WARM = 60.0          # temperature of the preceding calculation in the history dimension (not a lattice temperature)
WEIGHTS = {1: [1.0], 2: [2.0 / 3, 1.0 / 3], 3: [4.0 / 7, 2.0 / 7, 1.0 / 7]}
# altered binary interaction parameters for database variant "kij" (values are arbitrary but plausible; pairs that the
# shipped database does not list are included, one is negative, one pair is listed in the reverse order)
KIJ_TABLE = [("H2O(g)", "CO2(g)", 0.25), ("CH4(g)", "CO2(g)", 0.1), ("O2(g)", "N2(g)", -0.05), ("H2S(g)", "CH4(g)", 0.08),
             ("NH3(g)", "H2O(g)", -0.25), ("H2O(g)", "H2S(g)", 0.19), ("H2O(g)", "CH4(g)", 0.49), ("H2O(g)", "N2(g)", 0.49)]

# ---- history dimension "redef": PHASES redefines a gas that the instance has already used -------------------------------
# critical constants (T_c K, P_c atm, acentric factor) of the redefinition sets; "alt" = another literature set (the
# reference equations of state: Span & Wagner 1996, Setzmann & Wagner 1991, Span et al. 2000, Schmidt & Wagner 1985,
# Lemmon & Span 2006, IAPWS-95, Tillner-Roth et al. 1993; P_c converted from MPa), "fit" = a clearly different "fitted"
# set (about +2 % T_c, +4 % P_c, +0.035 omega).  The values only have to be *different* from the database's and known to
# the oracle: the oracle evaluates the equation of state with whatever constants the PHASES block gives.
REDEF_SETS = {
    "alt": {"CO2(g)": (304.1282, 72.808, 0.22394), "CH4(g)": (190.564, 45.3906, 0.01142), "N2(g)": (126.192, 33.5139, 0.0372),
            "O2(g)": (154.581, 49.7705, 0.0222), "H2S(g)": (373.1, 88.823, 0.1005), "H2O(g)": (647.096, 217.755, 0.3443),
            "NH3(g)": (405.4, 111.848, 0.25601), "H2(g)": (33.145, 12.797, -0.219)},
    "fit": {"CO2(g)": (310.0, 76.0, 0.26), "CH4(g)": (194.4, 47.2, 0.043), "N2(g)": (128.7, 34.8, 0.074),
            "O2(g)": (157.7, 51.8, 0.056), "H2S(g)": (380.7, 91.7, 0.135), "H2O(g)": (660.2, 226.3, 0.379),
            "NH3(g)": (413.7, 115.8, 0.285), "H2(g)": (33.9, 13.3, -0.19)},
    "ideal": None,       # PHASES entry without -T_c / -P_c / -Omega: the gas becomes an ideal gas
    "crit": "db",        # (database variant "idealk" only) PHASES entry that GIVES the gas the constants of phreeqc.dat
}
AFTER = " after PHASES redefinition"      # part of every fingerprint raised in the redefinition history

# the engine accepts the pressure unknown of a fixed-volume gas phase when it is within 1e-3 atm of the sum of the partial
# pressures (finding F16 of C15 / C10): at the low end of the statement's pressure range the REPORTED pressure can then be off
# by more than 1e-4 relative although moles, volume and saturation indices satisfy the equation of state
P_ABS_ENGINE = 1e-3
P_ABS_NOTE = " reported pressure within the engine's absolute tolerance of 1e-3 atm"
TOL_EOS = 1e-4        # statement: P, V, T, n satisfy the equation of state, relative 1e-4
TOL_PHI = 1e-6        # statement: fugacity coefficient matches the equation of state, 1e-6
TOL_ID = 1e-4         # identities without a tolerance in the statement (x_i P, sum p_i = P, phi_i p_i = 10^SI_i): see run()
P_MIN, P_MAX = 0.01, 1000.0       # quantifier of the statement: rows whose reported total pressure is outside are not judged
X_MIN = 1e-9          # components below this mole fraction are not judged component-wise (below the solver's resolution: convergence tolerance 1e-8 of element totals)
PHI_LO, PHI_HI = 0.0101, 84.0     # strictly inside the documented clamp 0.01 .. 85 (engine: exp(-4.6) .. exp(4.44))

# ------------------------------------------------------------------------------------------------ databases (per process)
_db = {}


def db(variant):
    """(pre-encoded driver command that loads the variant, gas table, k_ij table)"""
    if variant not in _db:
        text = open(DBFILE, encoding="latin-1").read()
        if variant == "pr":
            line = drv.cmdline("call", "s0", "c", "LoadDatabase", DBFILE)
        else:
            if variant == "ideal":
                text = G.strip_critical_constants(text)
            elif variant == "idealk":
                # no critical constants, but the GAS_BINARY_PARAMETERS block kept: for the history in which PHASES later GIVES
                # the gases critical constants (without the block the engine would use its documented hard-coded k_ij)
                text = G.strip_critical_constants(text, keep_binary=True)
            else:
                text = G.replace_binary_parameters(text, KIJ_TABLE)
            line = drv.cmdline("call", "s0", "c", "LoadDatabaseString", text)
        gases, kij = G.parse_gas_data(text)
        for g in GASES:
            if g not in gases:
                raise RuntimeError("gas %s not found in PHASES of %s" % (g, DBFILE))
        _db[variant] = (line, gases, kij)
    return _db[variant]


_body = {}


def phase_body(name):
    """PHASES entry of the gas as in phreeqc.dat, without critical constants (logical lines)."""
    if name not in _body:
        _body[name] = G.phase_definition(open(DBFILE, encoding="latin-1").read(), name)
    return _body[name]


def redefined(case):
    """[(gas, (T_c, P_c, omega) or None)] for the gases the PHASES block of a history-'redef' case redefines."""
    names = case["gases"] if case.get("which", "all") == "all" else case["gases"][:1]
    table = REDEF_SETS[case["redef"]]
    if table == "db":
        dbg = db("pr")[1]
        return [(g, (dbg[g]["tc"], dbg[g]["pc"], dbg[g]["omega"])) for g in names]
    return [(g, table[g] if table else None) for g in names]


def phases_block(case):
    lines = ["PHASES"]
    for g, crit in redefined(case):
        lines += phase_body(g)
        if crit:
            lines += [" -T_c %s" % fmt(crit[0]), " -P_c %s" % fmt(crit[1]), " -Omega %s" % fmt(crit[2])]
    return "\n".join(lines) + "\n"


def gases_in_force(case, gases_db):
    """The gas table the oracle has to use for the judged simulation: the database's, overlaid with the redefinition."""
    if case.get("hist") != "redef":
        return gases_db
    out = dict(gases_db)
    for g, crit in redefined(case):
        tc, pc, w = crit if crit else (0.0, 0.0, 0.0)
        out[g] = dict(gases_db[g], tc=float(tc), pc=float(pc), omega=float(w))
    return out


def redef_texts(case):
    """(RunString texts of the instance with history, RunString texts of the fresh reference instance).
    how = 'sim':  ONE RunString: simulation 1 = the calculation with the database's gas (reactants numbered 9, nothing
                  punched), simulation 2 = PHASES redefinition + the judged calculation;
    how = 'call': THREE RunString calls: the calculation with the database's gas; PHASES redefinition alone; the judged
                  calculation.
    The reference instance gets the same texts without the first calculation."""
    first = build_sim(dict(case, T=T_WARM if case.get("pre") == "warm" else case["T"]), 9, False)
    ph = phases_block(case)
    judged = build_sim(case, 1, True)
    if case["how"] == "sim":
        return [first + ph + judged], [ph + judged]
    return [first, ph + "END\n", judged], [ph + "END\n", judged]


# ------------------------------------------------------------------------------------------------ input text
def fmt(v):
    return repr(float(v))


def solution_block(case, pp, n=1):
    lines = ["SOLUTION %d" % n, " temp %s" % fmt(case["T"]), " pH 7", " -water 0.1"]
    if case["soln"] == "sat":
        # pH follows from charge balance: at a fixed pH 7 a solution "saturated" with NH3 / CO2 / H2S at high pressure would
        # need hundreds of mol/kgw of NH4+ / HCO3- / HS- and the initial speciation (not the gas calculation) fails
        lines[2] = " pH 7 charge"
        for g, p in pp:
            if g in BOUNDARY and p > 0:
                lines.append(" %s 1 %s %s" % (BOUNDARY[g], g, fmt(math.log10(min(p, SAT_CAP.get(g, p))))))
    return lines


def punch_block(gases, kind):
    heads = ["gp", "gvm", "patm", "tk"]
    prog = ["10 PUNCH GAS_P, GAS_VM, PRESSURE, TK"]
    for k, g in enumerate(gases):
        heads += ["n%d" % k, "p%d" % k, "phi%d" % k, "si%d" % k, "sr%d" % k]
        amount = 'GAS("%s")' % g if kind == "gas" else 'EQUI("%s")' % g
        prog.append('%d PUNCH %s, PR_P("%s"), PR_PHI("%s"), SI("%s"), SR("%s")' % (20 + 10 * k, amount, g, g, g, g))
    out = ["SELECTED_OUTPUT 1", " -reset false", " -state true", " -high_precision true"]
    if kind == "gas":
        out.append(" -gases " + " ".join(gases))
    out += ["USER_PUNCH 1", " -headings " + " ".join(heads)] + [" " + l for l in prog]
    return out


def partial_pressures(case):
    w = WEIGHTS[len(case["gases"])]
    return [(g, case["P"] * wi) for g, wi in zip(case["gases"], w)]


def build_input(case):
    if case.get("hist") == "warm":
        # history dimension: the same calculation at T_WARM (reactants numbered 9, no selected output) is run first in the
        # same instance, so every per-phase quantity the engine caches between calculations (Peng-Robinson alpha(T),
        # fugacity coefficient, pressure-corrected log K) is stale when the judged simulation starts
        return build_sim(dict(case, T=T_WARM), 9, False) + build_sim(case, 1, True)
    return build_sim(case, 1, True)


def build_sim(case, n, punch):
    pp = partial_pressures(case)
    TK = case["T"] + 273.15
    if case["kind"] == "equi":
        lines = solution_block(dict(case, soln="water"), pp, n)
        lines.append("EQUILIBRIUM_PHASES %d" % n)
        for g, p in pp:
            lines.append(" %s %s 10" % (g, fmt(math.log10(p))))
        lines += (punch_block(case["gases"], "equi") if punch else []) + ["END"]
        return "\n".join(lines) + "\n"
    gas = ["GAS_PHASE %d" % n, " -fixed_volume" if case["type"] == "V" else " -fixed_pressure"]
    if case["type"] == "P":
        gas.append(" -pressure %s" % fmt(case["P"]))
    gas += [" -volume 1", " -temperature %s" % fmt(case["T"])]
    if case["init"] == "equil":
        gas.append(" -equilibrate %d" % n)
        gas += [" %s" % g for g, p in pp]
    else:
        gas += [" %s %s" % (g, fmt(p)) for g, p in pp]
    if case["init"] == "mol":
        # simulation 1 defines the gas phase alone (no solution: nothing reacts); simulation 2 overwrites the moles
        lines = gas + ["END", "GAS_PHASE_MODIFY %d" % n]
        for g, p in pp:
            lines += [" -component %s" % g, "  -moles %s" % fmt(p * 1.0 / (G.R * TK))]
        lines += solution_block(case, pp, n) + ["USE gas_phase %d" % n]
    else:
        lines = solution_block(case, pp, n) + gas
    if punch:
        lines += punch_block(case["gases"], "gas")
        if case["init"] == "pp":
            lines += ["DUMP", " -gas_phase 1"]
    lines.append("END")
    return "\n".join(lines) + "\n"


# ------------------------------------------------------------------------------------------------ dump reader
def parse_gas_raw(dump):
    """{'type','total_p','volume','temperature','v_m', 'comps': {name: {'moles','p_read',...}}} of the first GAS_PHASE_RAW."""
    out, comps, cur = {}, {}, None
    seen = False
    for line in dump.splitlines():
        t = line.split()
        if not t:
            continue
        if t[0] == "GAS_PHASE_RAW":
            if seen:
                break
            seen = True
            continue
        if not seen or not t[0].startswith("-"):
            continue
        key = t[0][1:]
        if key == "component":
            cur = comps.setdefault(t[1], {})
        elif len(t) == 2:
            try:
                v = float(t[1])
            except ValueError:
                continue
            (cur if line.startswith("    ") and cur is not None else out)[key] = v
    out["comps"] = comps
    return out


# ------------------------------------------------------------------------------------------------ oracle
def p10(v):
    try:
        return 10.0 ** v
    except OverflowError:
        return float("inf")


def cell(row, k):
    v = row.get(k)
    if isinstance(v, dict):
        v = v.get("l", v.get("e"))
    return v


class Judge:
    def __init__(self, case, gases_db, kij, gases_before=None):
        self.case = case
        self.gdb = gases_db          # gas constants in force in the judged simulation
        self.gdb_before = gases_before   # (history 'redef') the constants the instance used before the redefinition
        self.after = AFTER if case.get("hist") == "redef" else ""
        self.kij = kij
        self.problems = []
        self.diags = []
        self.stats = {}           # relation -> [n judged, max residual]
        self.flags = set()

    def stat(self, name, r):
        s = self.stats.setdefault(name, [0, 0.0])
        s[0] += 1
        if r > s[1]:
            s[1] = r

    def bad(self, fp, what):
        if all(p[0] != fp for p in self.problems):
            self.problems.append((fp, what))

    def eos_kind(self):
        g = [self.gdb[n] for n in self.case["gases"]]
        if all(x["tc"] > 0 and x["pc"] > 0 for x in g):
            return "PR"
        if all(x["tc"] == 0 and x["pc"] == 0 for x in g):
            return "ideal"
        return "mixed"

    def phi_before(self, names, x, T, P):
        g = [self.gdb_before[n] for n in names]
        if not all(v["tc"] > 0 and v["pc"] > 0 for v in g):
            return [1.0] * len(names) if all(v["tc"] == 0 and v["pc"] == 0 for v in g) else None
        mix = G.Mixture(names, x, T, self.gdb_before, self.kij)
        roots, near, _, _ = mix.z_roots(P)
        if len(roots) != 1 or near:
            return None
        return [math.exp(v) for v in mix.ln_phi(P, roots[0])]

    # -- one gas-phase row -------------------------------------------------------------------
    def gas_row(self, row, where):
        c = self.case
        names = c["gases"]
        T = cell(row, "tk")
        P = cell(row, "pressure")
        ntot = cell(row, "total mol")
        V = cell(row, "volume")
        gp, gvm = cell(row, "gp"), cell(row, "gvm")
        n = [cell(row, "n%d" % k) for k in range(len(names))]
        p = [cell(row, "p%d" % k) for k in range(len(names))]
        phi = [cell(row, "phi%d" % k) for k in range(len(names))]
        si = [cell(row, "si%d" % k) for k in range(len(names))]
        sr = [cell(row, "sr%d" % k) for k in range(len(names))]
        nums = [T, P, ntot, V, gp, gvm] + n + p + phi + si + sr
        if any(not isinstance(v, (int, float)) or v != v or abs(v) == float("inf") for v in nums):
            self.bad("non-numeric read-out %s" % where, "row %s of %r has a non-numeric / non-finite cell: %r" % (where, c, row))
            return
        eos = self.eos_kind()
        if eos == "ideal":
            # PR_P / PR_PHI are documented for Peng-Robinson gases only; the documented partial pressure of an ideal gas
            # component is 10^SI (manual: "for a gas, SI = log10(fugacity)", example 7 uses 10^SI / SR)
            p = list(sr)
        tag = "%s eos=%s type=%s%s" % (where, eos, c["type"], self.after)
        nsum = sum(n)
        present = ntot > 0 and P > 0 and nsum > 0
        if not present:
            self.flags.add("absent")
            if c["type"] == "P":
                # the statement only says "exists only if"; the converse is recorded as a diagnostic, never a problem
                f = sum(p10(s) for s in si if s > -90)
                if eos == "ideal" and f > c["P"] * (1 + TOL_EOS):
                    self.diags.append("fixed-pressure gas phase absent although the sum of equilibrium partial pressures %.6g exceeds P=%g: %r" % (f, c["P"], c))
            return
        if not (P_MIN <= P <= P_MAX):
            # outside the quantifier of the statement (pressures 0.01 .. 1000 atm): counted, not judged
            self.flags.add("present, P outside 0.01..1000 atm (not judged)")
            return
        self.flags.add("present")
        x = [v / nsum for v in n]
        live = [k for k in range(len(names)) if x[k] >= X_MIN]
        if len(live) < len(names):
            self.flags.add("trace component not judged")
        xl = [x[k] for k in live]
        xl = [v / sum(xl) for v in xl]
        vm_cols = V / ntot
        valid_state = True          # a Peng-Robinson state exists at the reported density (V/n > b and P_PR(V/n) > 0)
        # (b) equation of state
        if eos == "ideal":
            for label, PP, VM in (("sel", P, vm_cols), ("basic", gp, gvm)):
                r = G.rel(G.R * T / VM, PP)
                self.stat("eos-ideal", r)
                if r > TOL_EOS:
                    self.bad("eos ideal-gas law %s %s" % (label, tag), "P=%r V/n=%r T=%r: R T/(V/n)=%r differs from P by %.3g relative; case %r" % (PP, VM, T, G.R * T / VM, r, c))
            oracle_phi = [1.0] * len(names)
            judged_phi = True
        else:
            mix = G.Mixture([names[k] for k in live], xl, T, self.gdb, self.kij)
            judged_phi = False
            oracle_phi = [None] * len(names)
            for label, PP, VM in (("sel", P, vm_cols), ("basic", gp, gvm)):
                Pe = mix.pressure(VM) if VM > mix.b else float("nan")
                if not (Pe > 0):
                    valid_state = False
                    self.flags.add("no PR state at the reported density (V/n <= b or P_PR(V/n) <= 0)")
                    continue
                roots, near, A, B = mix.z_roots(PP)
                roots_e, near_e, _, _ = mix.z_roots(Pe)
                one_root = len(roots) == 1 and not near and len(roots_e) == 1 and not near_e
                rP = G.rel(Pe, PP)
                rV = min([G.rel(z * G.R * T / PP, VM) for z in roots] or [float("inf")])
                r = min(rP, rV)
                if one_root:
                    self.flags.add("one-root")
                    self.stat("eos-PR", r)
                    if r > TOL_EOS:
                        self.bad("eos Peng-Robinson %s %s%s" % (label, tag, P_ABS_NOTE if c["type"] == "V" and abs(Pe - PP) <= P_ABS_ENGINE else ""),
                                 "P=%r V/n=%r T=%r x=%r: PR pressure at this molar volume %r (rel %.3g), PR molar volume at this pressure %r (rel %.3g); case %r" % (
                                     PP, VM, T, dict(zip(names, x)), Pe, rP, [float(z * G.R * T / PP) for z in roots], rV, c))
                else:
                    self.flags.add("three-root region")
                    self.stat("eos-PR (three-root region, not judged)", r)
                if label == "sel" and one_root:
                    lp = mix.ln_phi(PP, roots[0])
                    for kk, k in enumerate(live):
                        oracle_phi[k] = math.exp(lp[kk])
                    judged_phi = True
        # (c) partial pressures are mole-fraction shares of the total and sum to it
        for k in live:
            r = G.rel(p[k], x[k] * P)
            self.stat("p_i = x_i P", r)
            if r > TOL_ID:
                self.bad("partial pressure share %s" % tag, "%s: partial pressure %r but x_i P = %r * %r = %r (rel %.3g); case %r" % (names[k], p[k], x[k], P, x[k] * P, r, c))
        r = G.rel(sum(p[k] for k in live), P * sum(x[k] for k in live))
        self.stat("sum p_i = P", r)
        if r > TOL_ID:
            self.bad("partial pressure sum %s" % tag, "sum of partial pressures %r != total pressure %r (rel %.3g); case %r" % (sum(p[k] for k in live), P, r, c))
        # (d) fugacity coefficient matches the equation of state, inside the clamp
        if judged_phi:
            for k in live:
                if oracle_phi[k] is None:
                    continue
                if not (PHI_LO < phi[k] < PHI_HI and PHI_LO < oracle_phi[k] < PHI_HI):
                    self.flags.add("phi-clamped")
                    continue
                r = G.rel(phi[k], oracle_phi[k])
                self.stat("phi", r)
                if r > TOL_PHI:
                    self.bad("fugacity coefficient %s" % tag, "%s: PR_PHI=%r, equation of state gives %r (rel %.3g) at P=%r T=%r x=%r; case %r" % (
                        names[k], phi[k], oracle_phi[k], r, P, T, dict(zip(names, x)), c))
        if self.gdb_before is not None and judged_phi:
            # vacuity guard of the redefinition history: would the constants used BEFORE the redefinition have given a
            # visibly different fugacity coefficient here?  (only counted, never judged)
            old = self.phi_before([names[k] for k in live], xl, T, P)
            if old and any(oracle_phi[k] is not None and G.rel(old[kk], oracle_phi[k]) > 10 * TOL_PHI for kk, k in enumerate(live)):
                self.flags.add("redef: discriminating (old constants would give another phi)")
        # (e) fugacity = 10^SI
        for k in live:
            f = phi[k] * p[k]
            t = p10(si[k])
            r = G.rel(f, t)
            self.stat("phi_i p_i = 10^SI_i" if valid_state else "phi_i p_i = 10^SI_i (rows without a PR state at V/n)", r)
            if r > TOL_ID:
                ratio = t / f if f > 0 else float("inf")
                k2 = round(math.log(ratio, 2)) if 0 < ratio < float("inf") else 0
                if eos == "PR" and c["type"] == "V" and not valid_state and k2 >= 1 and abs(ratio / 2.0 ** k2 - 1) <= TOL_ID:
                    # narrow fingerprint of one demonstrated mechanism (see the final report / known findings)
                    self.bad("fugacity vs SI: fixed-volume Peng-Robinson gas without a PR state at V/n (10^SI = 2^k phi p)",
                             "%s: reported P=%r V=%r n=%r T=%r: V/n=%r has %s; 10^SI = %r = 2^%d x phi*p = %r * %r; case %r" % (
                                 names[k], P, V, ntot, T, vm_cols, "V/n <= b" if vm_cols <= mix.b else "negative PR pressure %r" % mix.pressure(vm_cols), t, k2, phi[k], p[k], c))
                else:
                    self.bad("fugacity vs SI %s%s" % (tag, P_ABS_NOTE if c["type"] == "V" and phi[k] > 0 and abs(f - t) / phi[k] <= P_ABS_ENGINE else ""),
                             "%s: phi*p = %r * %r = %r but 10^SI = 10^%r = %r (rel %.3g); case %r" % (names[k], phi[k], p[k], f, si[k], t, r, c))
        # (f) a fixed-pressure phase exists only if the equilibrium partial pressures reach the fixed pressure
        if c["type"] == "P":
            s = sum(p10(si[k]) / phi[k] for k in range(len(names)) if phi[k] > 0 and si[k] > -90)
            r = (c["P"] - s) / c["P"]
            self.stat("existence: sum of equilibrium partial pressures >= P", max(r, 0.0))
            if r > TOL_EOS:
                self.bad("fixed-pressure phase exists below its pressure %s" % tag, "gas phase present (%r mol) but sum of 10^SI_i/phi_i = %r < fixed pressure %r; case %r" % (ntot, s, c["P"], c))

    # -- gas phase as initially defined from partial pressures (DUMP of the stored GAS_PHASE) ----
    def initial_definition(self, raw):
        c = self.case
        names = c["gases"]
        try:
            n = [raw["comps"][g]["moles"] for g in names]
            V, TK = raw["volume"], raw["temperature"]
        except KeyError:
            self.diags.append("GAS_PHASE_RAW dump not understood: %r" % (raw,))
            return
        P = c["P"]
        nsum = sum(n)
        if nsum <= 0:
            return
        eos = self.eos_kind()
        tag = "initial-definition eos=%s type=%s%s" % (eos, c["type"], self.after)
        x = [v / nsum for v in n]
        for k, g in enumerate(names):
            r = G.rel(x[k], WEIGHTS[len(names)][k])
            self.stat("initial: x_i = p_i / P", r)
            if r > TOL_ID:
                self.bad("partial pressure share %s" % tag, "%s: initial moles %r give x=%r, the input partial pressures give %r; case %r" % (g, n[k], x[k], WEIGHTS[len(names)][k], c))
        VM = V / nsum
        if eos == "ideal":
            r = G.rel(G.R * TK / VM, P)
            self.stat("initial: eos-ideal", r)
            if r > TOL_EOS:
                self.bad("eos ideal-gas law %s" % tag, "initial moles %r in V=%r at T=%r: R T n / V = %r, input pressure %r (rel %.3g); case %r" % (n, V, TK, G.R * TK / VM, P, r, c))
        elif eos == "PR":
            mix = G.Mixture(names, x, TK, self.gdb, self.kij)
            roots, near, A, B = mix.z_roots(P)
            if len(roots) == 1 and not near and VM > mix.b:
                r = min(G.rel(mix.pressure(VM), P), G.rel(roots[0] * G.R * TK / P, VM))
                self.stat("initial: eos-PR", r)
                self.flags.add("init-one-root")
                if r > TOL_EOS:
                    self.bad("eos Peng-Robinson %s" % tag, "initial moles %r in V=%r at T=%r: PR pressure %r, input pressure %r; PR molar volume %r, stored %r (rel %.3g); case %r" % (
                        n, V, TK, mix.pressure(VM), P, roots[0] * G.R * TK / P, VM, r, c))
            else:
                self.flags.add("init-multi-root")

    # -- gases as EQUILIBRIUM_PHASES ---------------------------------------------------------
    def equi_row(self, row):
        c = self.case
        names = c["gases"]
        T = cell(row, "tk")
        eos = self.eos_kind()
        for k, g in enumerate(names):
            amount, p, phi, si = (cell(row, "%s%d" % (h, k)) for h in ("n", "p", "phi", "si"))
            if any(not isinstance(v, (int, float)) or v != v for v in (amount, p, phi, si, T)):
                self.bad("non-numeric read-out equi", "row of %r has a non-numeric cell: %r" % (c, row))
                return
            tag = "equilibrium_phases eos=%s%s" % (eos, self.after)
            if amount <= 0:
                self.flags.add("equi:exhausted")
                continue
            self.flags.add("equi:present")
            if eos == "ideal":
                r = abs(phi - 1.0)
                self.stat("equi: phi (ideal) = 1", r)
                if r > TOL_PHI:
                    self.bad("fugacity coefficient %s" % tag, "%s: PR_PHI=%r for an ideal gas; case %r" % (g, phi, c))
                continue
            # fugacity = 10^SI
            r = G.rel(phi * p, p10(si))
            self.stat("equi: phi p = 10^SI", r)
            if r > TOL_ID:
                self.bad("fugacity vs SI %s" % tag, "%s: phi*p = %r * %r = %r but 10^SI = 10^%r = %r (rel %.3g); case %r" % (g, phi, p, phi * p, si, p10(si), r, c))
            # the target of a gas in EQUILIBRIUM_PHASES is its (partial) pressure - manual, not in the statement: diagnostic
            want = partial_pressures(c)[k][1]
            if G.rel(p, want) > TOL_ID:
                self.diags.append("EQUILIBRIUM_PHASES %s: PR_P=%r but the target was 10^SI = %r: %r" % (g, p, want, c))
            if len(names) == 1 and p > 0:
                mix = G.Mixture([g], [1.0], T, self.gdb, self.kij)
                roots, near, A, B = mix.z_roots(p)
                if len(roots) == 1 and not near:
                    o = math.exp(mix.ln_phi(p, roots[0])[0])
                    if PHI_LO < phi < PHI_HI and PHI_LO < o < PHI_HI:
                        r = G.rel(phi, o)
                        self.stat("equi: phi", r)
                        self.flags.add("equi:one-root")
                        if self.gdb_before is not None:
                            ob = self.phi_before([g], [1.0], T, p)
                            if ob and G.rel(ob[0], o) > 10 * TOL_PHI:
                                self.flags.add("redef: discriminating (old constants would give another phi)")
                        if r > TOL_PHI:
                            self.bad("fugacity coefficient %s" % tag, "%s: PR_PHI=%r, pure-gas equation of state at P=%r T=%r gives %r (rel %.3g); case %r" % (g, phi, p, T, o, r, c))
                    else:
                        self.flags.add("phi-clamped")
                else:
                    self.flags.add("equi:multi-root")


# ------------------------------------------------------------------------------------------------ one case
def execute(d, line, texts, kind, want_dump, case):
    """Fresh instance, database variant loaded, the RunString texts in order.  Returns {"error": first error line} or
    {"row": the batch-reaction row of the last call, "heads": [...], "dump": str or None, "ops": n}."""
    d.new("c")
    rep = d.raw(line)
    if rep.get("r") != 0:
        raise RuntimeError("database variant %s does not load: %r" % (case["db"], d.call("s0", "c", "GetErrorString")[:400]))
    if want_dump:
        d.call("s0", "c", "SetDumpStringOn", 1)
    for k, text in enumerate(texts):
        rc = d.call("s0", "c", "RunString", text)
        if isinstance(rc, dict) or rc != 0:
            err = "" if isinstance(rc, dict) else d.call("s0", "c", "GetErrorString")
            first = next((l for l in err.splitlines() if l.strip()), "")
            return {"error": first, "rc": rc if not isinstance(rc, dict) else "exit", "ops": k + 1, "call": k}
    t = d.obs("s0", "c", "t")["sel"].get("1", {}).get("table") or []
    if len(t) < 2:
        raise RuntimeError("no selected-output rows for %r" % (case,))
    heads = t[0]
    rows = [dict(zip(heads, r)) for r in t[1:]]
    need = ["state", "tk"] + (["pressure", "total mol", "volume", "gp", "gvm"] if kind == "gas" else [])
    for h in need:
        if h not in heads:
            raise RuntimeError("selected-output column %r missing (have %r)" % (h, heads))
    react = [r for r in rows if r["state"] == "react"]
    if len(react) != 1:
        raise RuntimeError("expected exactly one batch-reaction row, got %d for %r" % (len(react), case))
    return {"row": react[0], "heads": heads, "dump": d.call("s0", "c", "GetDumpString") if want_dump else None, "ops": len(texts)}


def compare_with_fresh(j, row, ref):
    """History 'redef': the judged row must equal the row of the same redefinition + calculation on a fresh instance,
    within the tolerances of the statement (state variables and amounts 1e-4, fugacity coefficients 1e-6, 10^SI 1e-4).
    Rows whose reported total pressure is outside 0.01..1000 atm (in either instance) are outside the quantifier.
    Components below mole fraction X_MIN (in either instance) are not compared component-wise."""
    c = j.case
    names = c["gases"]
    kind = c["kind"]
    tag = ("type=%s" % c["type"] if kind == "gas" else "equilibrium_phases") + AFTER

    def num(r, k):
        v = cell(r, k)
        return v if isinstance(v, (int, float)) and v == v and abs(v) != float("inf") else None

    groups = []          # (relation name in the fingerprint, column, tolerance, transform)
    live = list(range(len(names)))
    if kind == "gas":
        na, nb = num(row, "total mol"), num(ref, "total mol")
        if na is None or nb is None:
            return        # non-numeric read-outs are reported by gas_row
        if (na > 0) != (nb > 0):
            j.bad("differs from fresh instance: gas phase existence %s" % tag,
                  "gas phase %s after the history but %s on a fresh instance with the same PHASES redefinition (total mol %r vs %r); case %r" % (
                      "present" if na > 0 else "absent", "present" if nb > 0 else "absent", na, nb, c))
            return
        if na <= 0:
            j.flags.add("redef: absent in both instances")
            return
        pa, pb = num(row, "pressure"), num(ref, "pressure")
        if pa is None or pb is None or not (P_MIN <= pa <= P_MAX and P_MIN <= pb <= P_MAX):
            # same quantifier as the oracle: rows with a reported pressure outside 0.01..1000 atm are not judged (a gas
            # phase of 1e-14 mol left over by a redox-reactive pair is solver noise, not a result)
            j.flags.add("redef: P outside 0.01..1000 atm (not compared)")
            return
        for r in (row, ref):
            n = [num(r, "n%d" % k) or 0.0 for k in range(len(names))]
            live = [k for k in live if sum(n) > 0 and n[k] / sum(n) >= X_MIN]
        groups += [("state (P, V, n, T)", h, TOL_EOS, None) for h in ("tk", "pressure", "total mol", "volume", "gp", "gvm")]
    else:
        groups.append(("state (P, V, n, T)", "tk", TOL_EOS, None))
        live = [k for k in live if (num(row, "n%d" % k) or 0) > 0 and (num(ref, "n%d" % k) or 0) > 0]
        for k in range(len(names)):
            if ((num(row, "n%d" % k) or 0) > 0) != ((num(ref, "n%d" % k) or 0) > 0):
                j.bad("differs from fresh instance: phase exhausted %s" % tag, "%s: amount %r after the history, %r on a fresh instance; case %r" % (
                    names[k], num(row, "n%d" % k), num(ref, "n%d" % k), c))
    # fugacity coefficients first: only the FIRST differing quantity of a case is reported (one cause makes all of them
    # differ; the statistics still cover every quantity)
    groups = [("fugacity coefficient", "phi%d" % k, TOL_PHI, None) for k in live] + groups
    for k in live:
        groups += [("amount", "n%d" % k, TOL_EOS, None), ("partial pressure", "p%d" % k, TOL_EOS, None), ("10^SI", "si%d" % k, TOL_ID, p10)]
    reported = False
    for what, h, tol, f in groups:
        a, b = num(row, h), num(ref, h)
        if a is None or b is None:
            continue
        if f:
            a, b = f(a), f(b)
        r = G.rel(a, b)
        j.stat("redef: %s equals fresh instance" % what, r)
        if r > tol and not reported:
            reported = True
            j.bad("differs from fresh instance: %s %s" % (what, tag),
                  "column %s: %r after (calculation with the database's gas, then PHASES redefinition), %r with the same PHASES redefinition on a fresh instance (rel %.3g, tolerance %g); case %r" % (
                      h, cell(row, h), cell(ref, h), r, tol, c))


def run_case(case):
    line, gases_db, kij = db(case["db"])
    d = core.get_drv("rel")
    d.reset()
    redef = case.get("hist") == "redef"
    want_dump = case["kind"] == "gas" and case["init"] == "pp"
    res = {"case": case, "states": [core.sha(repr(sorted(case.items())))]}
    ref = None
    script = ""
    if redef:
        texts, texts_ref = redef_texts(case)
        # reference first: a fresh instance that reads the same PHASES redefinition and runs the same calculation
        ref = execute(d, line, texts_ref, case["kind"], False, case)
        script = d.script()
        d.reset()
    else:
        texts = [build_input(case)]
    out = execute(d, line, texts, case["kind"], want_dump, case)
    res["ops"] = out["ops"] + (ref["ops"] if ref else 0)
    j = Judge(case, gases_in_force(case, gases_db), kij, gases_db if redef else None)
    if "error" in out:
        first = out["error"]
        if redef:
            first = "redef call %d/%d: %s" % (out["call"] + 1, len(texts), first)
        res.update({"problems": [], "not_completed": True, "outcome": "nc:" + core.sha(first[:60]),
                    "sample": {"case": case, "rc": out["rc"], "error": first[:200]}, "script": "",
                    "stats": {}, "flags": ["not-completed"], "nc": first[:70]})
        return res
    heads, row = out["heads"], out["row"]
    if case.get("hist") == "warm":
        j.flags.add("history:warm (judged after the same calculation at %g C in the same instance)" % T_WARM)
    if redef:
        j.flags.add("history:redef (judged after a calculation with the database's gas and a PHASES redefinition in the same instance)")
    if case["kind"] == "equi":
        j.equi_row(row)
    else:
        j.gas_row(row, "react")
        if want_dump:
            j.initial_definition(parse_gas_raw(out["dump"]))
    if redef:
        if "error" in ref:
            # the reference did not complete although the run with history did: nothing to compare with (rule R2)
            j.flags.add("redef: fresh-instance reference not completed")
            j.diags.append("fresh-instance reference did not complete (%s) although the run with history did: %r" % (ref["error"][:80], case))
        else:
            compare_with_fresh(j, row, ref["row"])
    keep = ["tk", "pressure", "total mol", "volume", "gp", "gvm"] + [h for h in heads if h[:1] in "nps" and h[-1:].isdigit()] + [h for h in heads if h.startswith("phi")]
    res.update({"problems": j.problems, "not_completed": False, "diagnostics": j.diags[:2],
                "outcome": ",".join(sorted(j.flags)) + "|" + ",".join(sorted(k for k in j.stats)),
                "sample": {"case": case, "react_row": {k: row.get(k) for k in keep if k in row}},
                "script": (script + d.script()) if j.problems else "", "stats": j.stats, "flags": sorted(j.flags)})
    return res


# ------------------------------------------------------------------------------------------------ aggregation shim
# core.explore_cases keeps only the generic counters; the per-relation statistics are gathered here first and the finished
# results are then handed to explore_cases (which still replays every candidate twice in fresh processes: _run_or_pass
# executes a plain case, and passes an already finished result through).
def _run_or_pass(item):
    if "problems" in item:
        return item
    return run_case(item)


class _PassPool:
    """Hands finished results straight to core.explore_cases and forwards everything else (the fresh-process
    confirmation of candidates) to the real pool."""

    def __init__(self, real):
        self.real = real

    def map(self, f, items, chunksize=1, ordered=False):
        if f is _run_or_pass:
            return iter(items)
        return self.real.map(f, items, chunksize, ordered)


class Stats:
    def __init__(self):
        self.rel = {}
        self.flags = {}
        self.nc = {}
        self.completed = 0

    def add(self, res):
        if not res.get("not_completed"):
            self.completed += 1
        for k, (n, m) in res.get("stats", {}).items():
            s = self.rel.setdefault(k, [0, 0.0])
            s[0] += n
            s[1] = max(s[1], m)
        for f in res.get("flags", ()):
            self.flags[f] = self.flags.get(f, 0) + 1
        if res.get("nc") is not None:
            self.nc[res["nc"]] = self.nc.get(res["nc"], 0) + 1


# ------------------------------------------------------------------------------------------------ enumeration
def subsets(kmax, pool=GASES):
    out = []
    for k in range(1, kmax + 1):
        out += [list(s) for s in itertools.combinations(pool, k)]
    return out


# (phase type, initial definition, solution, history)
MODES = [("V", "pp", "water", "fresh"), ("V", "pp", "sat", "fresh"), ("V", "mol", "water", "fresh"), ("V", "mol", "sat", "fresh"),
         ("V", "equil", "sat", "fresh"), ("P", "pp", "water", "fresh"), ("P", "pp", "sat", "fresh"), ("P", "mol", "water", "fresh"),
         ("P", "mol", "sat", "fresh"), ("V", "pp", "water", "warm"), ("P", "pp", "water", "warm")]


# thorough: every mode with both histories
MODES_T = [m[:3] + (h,) for h in ("fresh", "warm") for m in MODES if m[3] == "fresh"]
P_LEVELS_T = [0.01, 0.1, 1.0, 3.0, 10.0, 30.0, 50.0, 100.0, 300.0, 1000.0]


def gas_cases(dbv, subs, plevels, tlevels, modes=MODES):
    out = []
    for (gs, (ty, init, soln, hist), P, T) in core.product(subs, modes, plevels, tlevels):
        out.append({"kind": "gas", "db": dbv, "gases": gs, "type": ty, "init": init, "soln": soln, "hist": hist, "P": P, "T": T})
    return out


def equi_cases(dbv, subs, plevels, tlevels):
    return [{"kind": "equi", "db": dbv, "gases": gs, "hist": hist, "P": P, "T": T} for (gs, hist, P, T) in core.product(subs, ["fresh", "warm"], plevels, tlevels)]


# history 'redef': gas subsets (all single gases, three pairs: plain, with a k_ij in the database, without), kinds, ways
REDEF_PAIRS = [["CO2(g)", "CH4(g)"], ["H2O(g)", "CO2(g)"], ["N2(g)", "O2(g)"]]
REDEF_KINDS = ["P", "V", "equi"]
REDEF_HOW = ["sim", "call"]


def redef_cases(subs, plevels, tlevels, pres):
    """database x redefinition set x gas subset x which gases are redefined x kind x how x temperature of the first
    calculation x P x T.  Mixed ideal / Peng-Robinson phases (not defined by the statement) are left out: the sets that
    change the kind of equation of state always redefine every gas of the subset."""
    out = []
    variants = []            # (db, set, gases, which)
    for dbv, sets in (("pr", ["alt", "fit", "ideal"]), ("idealk", ["crit"])):
        for rs in sets:
            for gs in subs:
                variants.append((dbv, rs, gs, "all"))
                if len(gs) > 1 and rs in ("alt", "fit"):
                    variants.append((dbv, rs, gs, "first"))
    variants.sort(key=lambda v: (len(v[2]), v[3] != "all"))
    for ((dbv, rs, gs, which), kind, how, pre, P, T) in core.product(variants, REDEF_KINDS, REDEF_HOW, pres, plevels, tlevels):
        c = {"kind": "equi" if kind == "equi" else "gas", "db": dbv, "gases": gs, "hist": "redef", "redef": rs, "which": which,
             "how": how, "pre": pre, "P": P, "T": T}
        if kind != "equi":
            c.update({"type": kind, "init": "pp", "soln": "water"})
        out.append(c)
    return out


def kij_subsets(kmax):
    touched = [frozenset((a, b)) for a, b, _ in KIJ_TABLE]
    return [s for s in subsets(kmax) if any(p <= frozenset(s) for p in touched)]


def bounds(tier):
    """[(name, cases)] in bound-major order, simplest first."""
    if tier == "quick":
        s2 = subsets(2)
        tl = [25.0, 100.0, 200.0]
        return [
            ("ideal gas: subsets<=2 x 11 modes x 8 P x 3 T", gas_cases("ideal", s2, P_LEVELS, tl)),
            ("Peng-Robinson: subsets<=2 x 11 modes x 8 P x 3 T", gas_cases("pr", s2, P_LEVELS, tl)),
            ("altered k_ij: affected pairs x 11 modes x 8 P x 3 T", gas_cases("kij", [s for s in kij_subsets(2)], P_LEVELS, tl)),
            ("EQUILIBRIUM_PHASES: subsets<=2 x {fresh, warm} x 8 P x 3 T x {ideal, PR}", equi_cases("ideal", s2, P_LEVELS, tl) + equi_cases("pr", s2, P_LEVELS, tl)),
            ("PHASES redefinition of a used gas: {7 single gases, 3 pairs} x {literature, fitted, no constants | ideal db: constants given} x {all, first gas} x {fixed P, fixed V, EQUILIBRIUM_PHASES} x {later simulation, later RunString} x 8 P x 3 T",
             redef_cases(subsets(1) + REDEF_PAIRS, P_LEVELS, tl, ["same"])),
        ]
    s3 = subsets(3)
    pl = P_LEVELS_T
    return [
        ("ideal gas: subsets<=3 x 18 modes x 10 P x 4 T", gas_cases("ideal", s3, pl, T_LEVELS, MODES_T)),
        ("Peng-Robinson: subsets<=3 x 18 modes x 10 P x 4 T", gas_cases("pr", s3, pl, T_LEVELS, MODES_T)),
        ("altered k_ij: affected subsets<=3 x 18 modes x 10 P x 4 T", gas_cases("kij", kij_subsets(3), pl, T_LEVELS, MODES_T)),
        ("EQUILIBRIUM_PHASES: subsets<=2 x {fresh, warm} x 10 P x 4 T x {ideal, PR, altered k_ij (single gases)}",
         equi_cases("ideal", subsets(2), pl, T_LEVELS) + equi_cases("pr", subsets(2), pl, T_LEVELS) + equi_cases("kij", subsets(1), pl, T_LEVELS)),
        ("PHASES redefinition of a used gas: subsets<=2 x {literature, fitted, no constants | ideal db: constants given} x {all, first gas} x {fixed P, fixed V, EQUILIBRIUM_PHASES} x {later simulation, later RunString} x first calculation at {same T, 60 C} x 10 P x 4 T",
         redef_cases(subsets(2), pl, T_LEVELS, ["same", "warm"])),
    ]


def harness_error(msg):
    """A broken check must never look like a violation (exit 1) or a pass (exit 0)."""
    sys.stderr.write("HARNESS ERROR: %s\n" % msg)
    sys.stderr.flush()
    raise SystemExit(2)


def run(tier):
    ev = core.Evidence(PROP, tier)
    findings = core.Findings(PROP)
    ev.assumptions = [
        "gas constant R = 0.0820597 L atm/(mol K) taken from the implementation (global_structures.h R_LITER_ATM)",
        "Peng-Robinson constants OMEGA_A = 0.457235, OMEGA_B = 0.077796 (PHREEQC manual / implementation; the 1976 paper prints 0.45724 / 0.07780)",
        "kappa = 0.37464 + 1.54226 w - 0.26992 w^2 and the van-der-Waals one-fluid mixing rules with (1 - k_ij) are the textbook ones",
        "fugacity-coefficient clamp exp(-4.6) .. exp(4.44) (documented as 0.01 .. 85): coefficients are judged only strictly inside (0.0101, 84)",
        "T_c, P_c, Omega and k_ij are parsed from the database text by mc/oracles/c19_gas.py; pairs without a GAS_BINARY_PARAMETERS line have k_ij = 0",
        "the -equilibrate initial gas-phase calculation (state i_gas) reports no gas data in selected output (all zero); only batch-reaction rows are judged",
        "ideal gases: the partial pressure read-out is SR(gas) = 10^SI (PR_P / PR_PHI are documented for Peng-Robinson gases only; PR_P returns the stored input value there)",
        "'two-phase region of the cubic' = the cubic in Z has three real roots at the reported pressure or at the oracle's pressure, or is within 1e-3 of a double root; EOS and phi are not judged there, the identities are",
        "EOS relation passes if either the pressure at the reported molar volume or the molar volume at the reported pressure is within 1e-4",
        "identities for which the statement gives no tolerance (p_i = x_i P, sum p_i = P, phi_i p_i = 10^SI_i) are judged at the statement's general 1e-4 relative (measured solver noise at 0.01 atm is up to ~2e-5)",
        "rows whose reported total pressure is outside 0.01..1000 atm are outside the quantifier and not judged; components with mole fraction < 1e-9 are not judged component-wise (below the resolution of the solver: convergence tolerance 1e-8 relative to element totals)",
        "every solution has 0.1 kg water and the gas 1 L (initially), so that low-pressure gas is not a trace of the system",
        "pre-saturated solutions: pH by charge balance, phase boundary of each gas's element/valence at the gas's partial pressure; NH3 boundary capped at 0.1 atm (phreeqc.dat has no aqueous solution for NH3 at >= 1 atm)",
        "history 'warm' = the same calculation at 60 C (reactants numbered 9) precedes the judged one in the same instance; only the second is judged",
        "history 'redef' = (1) the calculation with the database's gas (reactants numbered 9, at the same T and P; thorough also at 60 C), (2) a PHASES block that redefines the gas(es) with the database's reaction and log K and other / no / newly given critical constants, (3) the calculation again; 'sim': (1) is simulation 1 and (2)+(3) simulation 2 of one RunString, 'call': three RunString calls.  (3) is judged by the oracle with the constants of the PHASES block and compared with the same (2)+(3) on a fresh instance (state variables, amounts, partial pressures, 10^SI 1e-4; fugacity coefficients 1e-6).  Phases mixing ideal and Peng-Robinson gases are not in the statement and are not generated",
        "not-completed runs (rc != 0) are counted and not judged; they are convergence failures of the batch reaction, mostly at 300/1000 atm or in redox-reactive gas pairs",
        "EQUILIBRIUM_PHASES: the fugacity coefficient is compared with the pure-gas equation of state for a single gas only; for two gases only fugacity = 10^SI is judged",
    ]
    pool = core.Pool()
    dl = core.Deadline(120 if tier == "quick" else 1200)
    st = Stats()
    total = 0
    stop = False
    finished = []                 # results of completed bounds, in enumeration order
    bound_info = []
    by_outcome = {}
    for name, cs in bounds(tier):
        if stop:
            bound_info.append((name, False, {"cases": len(cs)}))
            continue
        results = []
        for res in pool.map(run_case, cs, 8, ordered=True):
            results.append(res)
            if dl.passed() and len(results) < len(cs):
                break
        if len(results) < len(cs):
            bound_info.append((name, False, {"cases": len(cs), "run": len(results)}))
            stop = True
            continue
        for res in results:
            st.add(res)
            if not res.get("not_completed") and res["outcome"] not in by_outcome and len(by_outcome) < 400:
                by_outcome[res["outcome"]] = res["sample"]
        finished += results
        total += len(cs)
        nc = sum(1 for r in results if r.get("not_completed"))
        bound_info.append((name, True, {"cases": len(cs), "runs_completed": len(cs) - nc, "runs_not_completed": nc}))
    # generic counters, replay-before-report (each distinct fingerprint's first case is re-run twice in fresh processes)
    core.explore_cases(finished, _run_or_pass, ev, findings, _PassPool(pool), chunksize=64, deadline=None)
    for name, done, info in bound_info:
        ev.bound(name, done, **info)
    keys = sorted(by_outcome)
    ev.extra["samples_distinct_outcomes"] = [by_outcome[k] for k in keys[::max(1, len(keys) // 8)][:8]]
    ev.extra["lattice_points"] = total
    ev.extra["completed_runs"] = st.completed
    ev.extra["not_completed_runs"] = total - st.completed
    ev.extra["not_completed_reasons"] = dict(sorted(st.nc.items(), key=lambda kv: -kv[1])[:12])
    ev.extra["relations"] = {k: {"judged": v[0], "max_residual": v[1]} for k, v in sorted(st.rel.items())}
    ev.extra["row_classes"] = dict(sorted(st.flags.items()))
    ev.extra["alphabet"] = {"gases": GASES, "P_atm": P_LEVELS if tier == "quick" else P_LEVELS_T, "T_C": T_LEVELS if tier != "quick" else [25.0, 100.0, 200.0],
                            "modes (type, init, solution, history)": MODES if tier == "quick" else MODES_T, "databases": ["ideal", "pr", "kij", "idealk (redefinition history only: no critical constants, GAS_BINARY_PARAMETERS kept)"],
                            "kij_table": KIJ_TABLE,
                            "redefinition sets (T_c K, P_c atm, omega)": {k: v for k, v in REDEF_SETS.items() if isinstance(v, dict)},
                            "redefinition history": {"pairs": REDEF_PAIRS if tier == "quick" else "all", "kinds": REDEF_KINDS, "how": REDEF_HOW,
                                                     "first calculation at": ["same T"] if tier == "quick" else ["same T", "%g C" % T_WARM]}}
    pool.close()
    # vacuity guards (harness errors, exit 2)
    if total and st.completed < 0.5 * total:
        harness_error("C19 harness: only %d of %d lattice points completed - the check is broken, not violated" % (st.completed, total))
    if not stop:
        for k in ("eos-PR", "eos-ideal", "phi", "phi_i p_i = 10^SI_i", "p_i = x_i P", "equi: phi", "initial: eos-PR"):
            if st.rel.get(k, [0])[0] < 50:
                harness_error("C19 harness: relation %r was judged only %d times" % (k, st.rel.get(k, [0])[0]))
        warm = sum(v for k, v in st.flags.items() if k.startswith("history:warm"))
        if warm < 50:
            harness_error("C19 harness: only %d completed rows in the history dimension" % warm)
        redef = sum(v for k, v in st.flags.items() if k.startswith("history:redef"))
        discr = sum(v for k, v in st.flags.items() if k.startswith("redef: discriminating"))
        if redef < 500 or discr < 200:
            harness_error("C19 harness: redefinition history: only %d completed rows, %d of them where the constants in force before the redefinition would give a visibly different fugacity coefficient" % (redef, discr))
        for k in ("redef: fugacity coefficient equals fresh instance", "redef: state (P, V, n, T) equals fresh instance", "redef: 10^SI equals fresh instance"):
            if st.rel.get(k, [0])[0] < 500:
                harness_error("C19 harness: relation %r was judged only %d times" % (k, st.rel.get(k, [0])[0]))
        if len(ev.outcomes) < 10:
            harness_error("C19 harness: only %d distinct outcomes" % len(ev.outcomes))
    return core.finish(ev, findings)


def replay(path):
    return core.replay_main(PROP, path, run_case)
