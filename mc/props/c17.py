"""C17  BASIC programs compute standard arithmetic, string and control-flow semantics.

Shape L (grammar-exhaustive): every program of a bounded grammar is executed by the real library in up to four
hosts (USER_PUNCH, USER_PRINT, CALCULATE_VALUES, RATES) and every delivered value is compared with the independent
reference interpreter `mc/oracles/basic_ref.py` (1e-12 relative, the statement's tolerance).

Parts (each a completed bound):
  A  numeric expressions: all operator trees of depth <= 2 over 15 binary operators and a leaf set (4 leaves quick, 6
     thorough), all 15 unary functions on leaves and depth-1 trees, all unparenthesised operator pairs `a op1 b op2 c`;
     every expression is evaluated once by the reference and batched (one depth-1 row = one program per host);
  B  string functions over a 6-string set; ill-typed expressions must be BASIC errors;
  C  control skeletons: all forests of <= 2 (quick) / <= 3 (thorough) constructs from a 39-construct alphabet; the whole
     hosted program text is interpreted by the reference, two consecutive runs sharing the PUT memory;
  D  malformed programs: every single-token deletion / adjacent-token swap of the part-C programs of size 1 (quick) /
     <= 2 (thorough); in the thorough tier the size-1 mutants are also run under ASan+UBSan (variant san).
     A mutant the reference rejects must give a BASIC error (rc != 0); one it accepts must deliver the reference values;
     never a crash, hang, process exit or C++ exception out of RunString.

Not part of the claim (recognised by the reference as `Unspecified`, counted in the evidence, never judged):
  * forms on which BASIC dialects disagree and the PHREEQC manual is silent: a unary sign directly before `^` (-2^2),
    NOT directly before an unparenthesised operator expression, chained `^`, 0^0, x/0, MOD of negative / fractional
    operands, logical operators on non-integers, half-integer subscripts, STEP 0, unbalanced FOR/NEXT inside the body of a
    zero-trip loop; the generator never writes these unparenthesised, only mutants can contain them;
  * values whose result is ill-conditioned with respect to the last bits of an inexact elementary operation.
Calibration decisions (rule R5; each was an alarm of the first version that the statement does not support):
  * items of a PRINT / PUNCH list may be juxtaposed without a separator (classic PRINT lists; all values are delivered);
  * DATA items are only looked at when a READ reaches them (an unread malformed item is not an error);
  * a mutant that is malformed only in a line that is never executed may or may not be diagnosed (the library finds
    some of these when it tokenises the program): both outcomes are accepted in part D, counted as
    `mut_error_in_unexecuted_line`;
  * DIM of an already dimensioned array is a BASIC error in the reference and in the library (part C programs that
    repeat a DIM inside a loop are judged as "both must reject").
Defect models (`quirks` of the reference: "mod_residue", "on_gosub_frame") never influence a verdict; they are evaluated
only *after* a mismatch to give all consequences of one mechanism one fingerprint.
"""
import itertools
import math
import os
import re

from .. import core, build, phr, drv
from ..oracles import basic_ref as B

PROP = "C17"
MINI = os.path.join(build.ROOT, "data", "c17", "mini.dat")
TOL = 1e-12                  # the statement's tolerance (relative)
WELL = 2e-13                 # a value is judged only if the reference's own uncertainty is below this (relative)
HOSTS = ("punch", "print", "calc", "rates")
SLOT = 9000                  # PUT slots used by the harness to carry values out of CALCULATE_VALUES / RATES
RUN_TIMEOUT = 30.0

BINOPS = ["+", "-", "*", "/", "^", "MOD", "<", "<=", "=", ">=", ">", "<>", "AND", "OR", "XOR"]
UNARY = ["ABS", "SGN", "SQR", "SQRT", "EXP", "LOG", "LOG10", "SIN", "COS", "TAN", "ARCTAN", "CEIL", "FLOOR", "NOT", "-"]
LEAVES = {"quick": ["0", "1", "3", "(-2.5)"], "thorough": ["0", "1", "3", "(-2.5)", "1e10", "va"]}
VA = 2.0                     # value of the variable leaf `va`
STRINGS = ["", "a", "abc", "  ab ", "Abc", "12.5"]

_dbs = None


def begin_case():
    """Every case starts from a brand-new instance and an empty driver command log (the log is the replay script:
    it must not grow with the number of cases a worker has executed)."""
    phr._sessions.clear()


def case_script(problems, variant="rel"):
    """The driver command log of this case - only shipped to the parent when there is something to report."""
    return core.get_drv(variant).script() if problems else ""


def session(variant="rel"):
    global _dbs
    if _dbs is None:
        _dbs = open(MINI).read()
    return phr.session("c17mini", variant=variant, reload=True, dbstring=_dbs)


# =================================================================================================== hosts
def out_stmt(host, exprs, kinds):
    """Statement(s) that deliver the values of `exprs` (kinds: 'n' number / 's' string) in the given host."""
    if host == "punch":
        return "PUNCH " + ", ".join(exprs)
    if host == "print":
        return " : ".join("PRINT " + e for e in exprs)
    parts = []
    for e, k in zip(exprs, kinds):
        parts.append("zc = zc + 1 : %s(%s, %d + zc) : PUT(zc, %d)" % ("PUT$" if k == "s" else "PUT", e, SLOT, SLOT))
    return " : ".join(parts)


def host_prologue(host):
    """Line 1 of a hosted program (CALCULATE_VALUES / RATES need a SAVE on every path)."""
    if host == "calc":
        return ["1 PUT(0, %d) : SAVE 0.5" % SLOT]
    if host == "rates":
        return ["1 PUT(0, %d) : SAVE 0.5 * TIME" % SLOT]
    return []


def host_epilogue(host, lineno):
    if host == "calc":
        return ["%d SAVE 0.125 + zc / 4096" % lineno]
    if host == "rates":
        return ["%d SAVE (0.125 + zc / 4096) * TIME" % lineno]
    return []


HEAD = "SOLUTION 1\nSELECTED_OUTPUT 1\n -reset false\n -high_precision true\n"
PRINTBLK = "PRINT\n -reset false\n -user_print true\n -high_precision true\n"
SECOND = "END\nUSE solution 1\nREACTION_TEMPERATURE 1\n 25\nEND\n"


def reader(kinds, first):
    """USER_PUNCH program that reads the harness slots back: first cell = `first`, then the count, then the values."""
    lines = ["10 PUNCH %s, GET(%d)" % (first, SLOT)]
    n = 20
    for i in range(0, len(kinds), 8):
        cells = ["%s(%d)" % ("GET$" if k == "s" else "GET", SLOT + 1 + i + j) for j, k in enumerate(kinds[i:i + 8])]
        lines.append("%d PUNCH %s" % (n, ", ".join(cells)))
        n += 10
    return lines


def build_input(host, lines, kinds):
    body = "".join(" %s\n" % l for l in lines)
    if host == "punch":
        return HEAD + "USER_PUNCH 1\n -headings x\n" + body + PRINTBLK + SECOND
    if host == "print":
        return HEAD + "USER_PRINT\n" + body + PRINTBLK + SECOND
    rd = "".join(" %s\n" % l for l in reader(kinds, 'CALC_VALUE("cv")' if host == "calc" else 'KIN_DELTA("rr")'))
    if host == "calc":
        return "CALCULATE_VALUES\ncv\n -start\n" + body + " -end\n" + HEAD + "USER_PUNCH 1\n -headings x\n" + rd + PRINTBLK + SECOND
    return ("RATES\nrr\n -start\n" + body + " -end\n" + HEAD + "KINETICS 1\nrr\n -formula H2O 0\n -m0 1\n -steps 1 in 1\n"
            + "USER_PUNCH 1\n -headings x\n" + rd + PRINTBLK + "END\n")


def parse_print(out):
    """Items of every 'User print' block: one PRINT statement per line, one trailing blank per item."""
    runs = []
    lines = out.split("\n")
    i = 0
    while i < len(lines):
        if lines[i].startswith("---") and "User print" in lines[i]:
            i += 2                       # banner + empty line
            items = []
            while i < len(lines) and lines[i] != "" and not lines[i].startswith("---") and not lines[i].startswith("WARNING") and not lines[i].startswith("ERROR"):
                l = lines[i]
                items.append(l[:-1] if l.endswith(" ") else l)
                i += 1
            runs.append(items)
        else:
            i += 1
    return runs


def execute(host, lines, kinds, variant="rel"):
    """Run the hosted program on the real library.  -> dict(rc, err, runs=[[values...], ...], save=[...])"""
    text = build_input(host, lines, kinds)
    try:
        s = session(variant)
        r = s.run(text, strings="o" if host == "print" else "", timeout=RUN_TIMEOUT)
        s.load()           # the instance must survive the run: a reload directly afterwards must work
    except drv.DrvTimeout:
        phr._sessions.clear()
        return {"hang": True, "input": text}
    except drv.DrvDied as e:
        phr._sessions.clear()
        return {"died": True, "stderr": (e.stderr or "")[-3000:], "what": str(e), "input": text}
    except RuntimeError as e:          # a C++ exception left RunString (vdrv catches it at the op boundary)
        phr._sessions.clear()
        return {"exception": str(e), "input": text}
    res = {"rc": r["rc"], "err": r["err"], "warn": r["warn"], "input": text, "runs": [], "save": []}
    if r["rc"] is None:
        res["exit"] = r.get("exit")
        return res
    rows = r["sel"].get(1, [])
    heads = r["heads"].get(1, [])
    if host == "punch":
        for row in rows:
            vals = [row[h] for h in heads]
            while vals and vals[-1] is None:
                vals.pop()
            res["runs"].append(vals)
    elif host == "print":
        for items in parse_print(r["out"]):
            res["runs"].append(items)
    else:
        for row in rows:
            vals = [row[h] for h in heads]
            first, cnt, rest = vals[0], vals[1], vals[2:]
            res["save"].append(first)
            res["runs"].append((cnt, rest))
        if host == "rates":
            res["runs"] = res["runs"][-1:]
            res["save"] = [-x if isinstance(x, float) else x for x in res["save"][-1:]]
    return res


# =================================================================================================== comparison
def close(got, exp_v):
    return abs(got - exp_v) <= TOL * abs(exp_v)


def cmp_value(got, exp, printed=False):
    """-> None (agree) | "ill" (not judged) | text describing the disagreement."""
    if isinstance(exp, str):
        if printed:
            return None if got == exp else "printed %r, reference string %r" % (got, exp)
        if got is None and exp == "":
            return None
        return None if got == exp else "got %r, reference string %r" % (got, exp)
    if exp.u > WELL * abs(exp.v):
        return "ill"
    if printed:
        try:
            g = float(got)
        except (TypeError, ValueError):
            return "printed %r, reference number %r" % (got, exp.v)
        # a printed number carries 13 significant digits (or all digits of an integer): allow half a unit of the last
        # printed place on top of the statement's tolerance
        quantum = 0.0 if B._isint(exp.v) else 0.5 * 10 ** (math.floor(math.log10(abs(exp.v))) - 12) if exp.v != 0 else 0.0
        return None if abs(g - exp.v) <= TOL * abs(exp.v) + quantum * 1.0000001 else "printed %r = %.17g, reference %.17g" % (got, g, exp.v)
    if isinstance(got, bool) or not isinstance(got, (int, float)):
        return "got %r, reference number %.17g" % (got, exp.v)
    if got != got:
        return "got NaN, reference %.17g" % exp.v
    return None if close(float(got), exp.v) else "got %.17g, reference %.17g (rel.diff %.3g)" % (
        got, exp.v, abs(got - exp.v) / max(abs(exp.v), 1e-300))


_visited = set()             # line numbers executed by the last reference evaluation


def reference_runs(host, lines, nruns, quirks=()):
    """Reference evaluation of the hosted program text, `nruns` consecutive runs sharing the PUT memory.
    -> (status, runs=[(values, save)], detail)"""
    mem = {}
    runs = []
    _visited.clear()
    for _ in range(nruns):
        st, it = B.run_program(lines, mem=mem, max_steps=20000, wide=True, time=1.0, quirks=quirks)
        if st != "ok":
            return st, runs, it
        _visited.update(it.visited)
        if host == "punch":
            vals = list(it.out_punch)
        elif host == "print":
            vals = [x for st_ in it.out_print for x in st_]
        else:
            cnt = mem.get(("n", SLOT))
            n = int(cnt.v) if cnt is not None else 0
            vals = []
            for k in range(1, n + 1):
                v = mem.get(("n", SLOT + k))
                s_ = mem.get(("s", SLOT + k))
                # a slot holds what was PUT last under that index by this run
                vals.append((v, s_))
            # resolve per slot by the kind recorded at generation time is not available here: take the one PUT in this run
            vals = [s_ if (v is None) else v if (s_ is None) else (v, s_) for v, s_ in vals]
        runs.append((vals, it.saved))
    return "ok", runs, None


def exec_kinds(host, lines, default):
    """Kinds (number / string) of the values in *execution* order, from the reference run (needed by the slot reader)."""
    if host in ("punch", "print"):
        return default
    st, ref, _ = reference_runs(host, lines, 1)
    if st != "ok":
        return default
    return ["s" if isinstance(v, str) else "n" for v in ref[0][0]]


def expected_runs(host, vals):
    """Reference result of an *expression program* (part A / B) whose expressions have the reference values `vals`:
    every run delivers exactly these values; the harness' SAVE statement delivers 0.125 + n / 4096 (x TIME = 1 s)."""
    save = B.Num(0.125 + len(vals) / 4096.0) if host in ("calc", "rates") else None
    return "ok", [(list(vals), save)] * (1 if host == "rates" else 2), None


def judge(host, lines, kinds, res, problems, tag, stats, nruns=2, bad=None, ref=None, mutant=False):
    """Compare one hosted execution with the reference (`ref`: precomputed reference, else the program text is
    interpreted by the reference interpreter).  Returns the reference status."""
    interpreted = ref is None
    st, ref, detail = ref if ref is not None else reference_runs(host, lines, nruns if host != "rates" else 1)
    stats["ref_" + st] = stats.get("ref_" + st, 0) + 1
    if res.get("hang"):
        if st != "steplimit":
            problems.append(("hang host=%s" % host, "the run did not return within %g s (%s)\n%s" % (RUN_TIMEOUT, tag, res["input"])))
        return st
    if res.get("died"):
        problems.append(("crash host=%s" % host, "driver died: %s (%s)\n%s\n%s" % (res["what"], tag, res["stderr"][-1500:], res["input"])))
        return st
    if res.get("exception"):
        what = re.sub(r"\(which is \d+\)", "(which is N)", res["exception"].split("vdrv: ")[-1].split(" (s0 ")[0])
        problems.append(("cxx-exception-escapes-RunString host=%s what=%s" % (host, what[:70]),
                         "a C++ exception propagated out of RunString: %s (%s)\n%s" % (res["exception"], tag, "\n".join(lines))))
        return st
    if res.get("rc") is None:
        problems.append(("process-exit host=%s" % host, "the library called exit(%s) (%s)\n%s" % (res.get("exit"), tag, res["input"])))
        return st
    if st in ("unspecified", "steplimit"):
        return st
    failed = res["rc"] != 0
    stats["runs_basic_error" if failed else "runs_completed_rc0"] = stats.get("runs_basic_error" if failed else "runs_completed_rc0", 0) + 1
    if st == "error":
        if not failed:
            problems.append(("malformed-accepted host=%s ref=%s" % (host, errclass(detail)),
                             "reference: BASIC error (%s); the library ran it without error and delivered %r (%s)\n%s" % (
                                 detail, res["runs"][:1], tag, "\n".join(lines))))
        return st
    if failed:
        if mutant and interpreted:
            # a mutant may be malformed in a line that is never executed: whether such a line is diagnosed is not
            # documented (the library finds some of them when it tokenises the program) - both outcomes are accepted
            m = re.search(r"in BASIC line\s*\n\s*(\d+)", res["err"])
            if m and int(m.group(1)) not in _visited:
                stats["mut_error_in_unexecuted_line"] = stats.get("mut_error_in_unexecuted_line", 0) + 1
                return st
        problems.append(("unexpected-error host=%s msg=%s" % (host, errmsg(res["err"])),
                         "valid program (reference values %r) but the run failed: %s (%s)\n%s" % (
                             [show(v) for v in ref[0][0]][:12], res["err"].strip()[:400], tag, "\n".join(lines))))
        return st
    # ---- values
    lib_runs = res["runs"]
    if host == "rates":
        ref = ref[-1:]
    if len(lib_runs) != len(ref):
        problems.append(("run-count host=%s" % host, "library produced %d result rows/blocks, expected %d (%s)\n%s" % (len(lib_runs), len(ref), tag, "\n".join(lines))))
        return st
    for k, ((exp_vals, exp_save), lr) in enumerate(zip(ref, lib_runs)):
        if host in ("calc", "rates"):
            cnt, lr = lr
            if cnt != len(exp_vals):
                problems.append(("value-count host=%s" % host, "run %d: %r values delivered, reference %d (%s)\n%s" % (k + 1, cnt, len(exp_vals), tag, "\n".join(lines))))
                continue
            lr = lr[:len(exp_vals)]
            sv = res["save"][k]
            if exp_save is not None:
                d = cmp_value(sv, exp_save)
                if d and d != "ill":
                    problems.append(("save-value host=%s" % host, "run %d: SAVE value: %s (%s)\n%s" % (k + 1, d, tag, "\n".join(lines))))
        if len(lr) != len(exp_vals):
            problems.append(("value-count host=%s" % host, "run %d: %d values delivered, reference %d: %r vs %r (%s)\n%s" % (
                k + 1, len(lr), len(exp_vals), lr[:12], [show(v) for v in exp_vals][:12], tag, "\n".join(lines))))
            continue
        for j, (g, e) in enumerate(zip(lr, exp_vals)):
            d = cmp_value(g, e, printed=(host == "print"))
            if d == "ill":
                stats["ill"] = stats.get("ill", 0) + 1
            elif d:
                problems.append(("value host=%s run=%d" % (host, k + 1), "run %d value %d: %s (%s)\n%s" % (k + 1, j + 1, d, tag, "\n".join(lines[:40]))))
                if bad is None:
                    break
                bad.append(j)
            else:
                stats["judged"] = stats.get("judged", 0) + 1
    return st


def show(v):
    return v if isinstance(v, str) else (v.v if isinstance(v, B.Num) else v)


def errclass(msg):
    return re.sub(r"[^a-zA-Z$ ]", "", str(msg)).strip().replace(" ", "-")[:40]


def errmsg(err):
    """Mechanism-level key of a library error text: the BASIC message without line text and numbers."""
    for l in err.splitlines():
        l = l.strip()
        if l.startswith("ERROR:"):
            l = l[6:].strip()
        if l and not l.startswith("in BASIC line") and not re.match(r"^\d+ ", l) and "Fatal Basic error" not in l:
            return re.sub(r"\d+", "N", l)[:60]
    return "?"


# =================================================================================================== part A: expressions
_d1 = {}


def depth1(tier):
    """All expressions of depth <= 1 (leaves, then `l1 op l2`), as text."""
    if tier not in _d1:
        L = LEAVES[tier]
        out = list(L)
        for op in BINOPS:
            for a in L:
                for b in L:
                    out.append("%s %s %s" % (a, op, b))
        _d1[tier] = out
    return _d1[tier]


def par(e):
    return e if re.match(r"^[\w.]+$|^\(-[\d.]+\)$", e) else "(" + e + ")"


OPEN_PAIRS = set()
for _a in BINOPS:
    for _b in BINOPS:
        # precedence pairs the documentation leaves open (dialects disagree): ^ chains, MOD next to * or /, OR next to XOR
        if (_a == "^" and _b == "^") or ("MOD" in (_a, _b) and (set((_a, _b)) & set(("*", "/")))) or (set((_a, _b)) == set(("OR", "XOR"))):
            OPEN_PAIRS.add((_a, _b))


def expr_cases(tier):
    d1 = depth1(tier)
    cases = []
    n = len(d1)
    for k, op in enumerate(BINOPS):
        for i in range(n):
            cases.append({"part": "A2", "op": k, "i": i})
    for k in range(len(UNARY)):
        cases.append({"part": "A1", "f": k})
    L = LEAVES[tier]
    for k1 in range(len(BINOPS)):
        for ia in range(len(L)):
            cases.append({"part": "A3", "op1": k1, "a": ia})
    # simplest first
    cases.sort(key=lambda c: (c["part"] != "A1", c["part"] != "A3", c.get("i", 0), c.get("op", 0)))
    return cases


def case_exprs(case, tier):
    d1 = depth1(tier)
    L = LEAVES[tier]
    if case["part"] == "A2":
        op = BINOPS[case["op"]]
        x = d1[case["i"]]
        return ["%s %s %s" % (par(x), op, par(y)) for y in d1]
    if case["part"] == "A1":
        f = UNARY[case["f"]]
        if f == "-":
            return ["-%s" % par(x) for x in d1]
        if f == "NOT":
            return ["NOT (%s)" % x for x in d1]
        return ["%s(%s)" % (f, x) for x in d1]
    op1 = BINOPS[case["op1"]]
    a = L[case["a"]]
    out = []
    for op2 in BINOPS:
        if (op1, op2) in OPEN_PAIRS:
            continue
        for b in L:
            for c in L:
                out.append("%s %s %s %s %s" % (a, op1, b, op2, c))
    return out


def ref_expr(text, quirks=()):
    """Reference value of one expression with va = VA."""
    it = B.Interp(quirks=quirks)
    it.vars, it.arrays = {"va": B.Num(VA)}, {}
    try:
        P = B.Parser(B.tokenize(text))
        e = P.expr()
        if P.peek()[0] is not None:
            raise B.BasicError("extra tokens")
        return "ok", it.ev(e)
    except B.BasicError as e:
        return "error", str(e)
    except B.Unspecified as e:
        return "unspecified", str(e)


def expr_program(host, exprs, kinds, setup=()):
    lines = host_prologue(host) + ["5 va = %g" % VA] + list(setup)
    n = 10
    for i in range(0, len(exprs), 10):
        lines.append("%d %s" % (n, out_stmt(host, exprs[i:i + 10], kinds[i:i + 10])))
        n += 10
    return lines + host_epilogue(host, n)


def hosts_for(case_index, tier, part):
    if tier == "thorough" and part in ("A1", "A3", "B", "C1", "C2"):
        return HOSTS
    return ("punch", HOSTS[1 + case_index % 3])


def shrink_expr(host, text, kinds_of):
    """Smallest failing sub-expression of a failing expression (re-executed one by one on the library)."""
    try:
        P = B.Parser(B.tokenize(text))
        tree = P.expr()
    except B.BasicError:
        return text

    def render(e):
        k = e[0]
        if k == "num":
            return repr(e[1]) if e[1] != int(e[1]) or abs(e[1]) > 1e6 else "%d" % e[1]
        if k == "str":
            return '"%s"' % e[1]
        if k == "var":
            return e[1] + ("(" + ", ".join(render(x) for x in e[2]) + ")" if e[2] else "")
        if k == "un":
            return "(-%s)" % render(e[2]) if e[1] == "-" else "(NOT (%s))" % render(e[2])
        if k == "bin":
            return "(%s %s %s)" % (render(e[2]), e[1].upper(), render(e[3]))
        return "%s(%s)" % (e[1].upper(), ", ".join(render(x) for x in e[2]))

    def fails(t):
        st, v = ref_expr(t)
        if st != "ok":
            return False
        kind = "s" if isinstance(v, str) else "n"
        res = execute(host, expr_program(host, [t], [kind], STR_SETUP), [kind])
        if res.get("rc") != 0:
            return bool(res.get("rc") is not None or res.get("hang") or res.get("died") or res.get("exception"))
        pr, stats = [], {}
        judge(host, expr_program(host, [t], [kind], STR_SETUP), [kind], res, pr, "", stats)
        return bool(pr)

    cur = tree
    while True:
        kids = [x for x in (cur[2:] if cur[0] in ("un", "bin") else (cur[2] if cur[0] == "call" else [])) if isinstance(x, tuple)]
        nxt = None
        for kid in kids:
            if kid[0] in ("bin", "un", "call") and fails(render(kid)):
                nxt = kid
                break
        if nxt is None:
            return render(cur)
        cur = nxt


def opkey(text):
    """Mechanism key of a minimal failing expression: its root operator / function and the operand kinds."""
    try:
        e = B.Parser(B.tokenize(text)).expr()
    except B.BasicError:
        return "?"
    if e[0] == "bin":
        return "op=%s" % e[1].upper()
    if e[0] == "un":
        return "op=unary%s" % e[1].upper()
    if e[0] == "call":
        return "fn=%s" % e[1].upper()
    return e[0]


def lib_value(host, res, j):
    try:
        r0 = res["runs"][0]
        v = r0[1][j] if host in ("calc", "rates") else r0[j]
        return float(v) if host == "print" else v
    except Exception:
        return None


def find_failures(host, exprs, kinds, setup, stats, counter, vals):
    """Bisecting search for the expressions that make a batch fail.  -> [(index, kind, explanation, library value)]"""
    out = []
    todo = [list(range(len(exprs)))]
    first = True
    while todo and counter[0] < 400:
        batch = todo.pop()
        ex = [exprs[i] for i in batch]
        kd = [kinds[i] for i in batch]
        lines = expr_program(host, ex, kd, setup)
        res = execute(host, lines, kd)
        counter[0] += 1
        pr, bad = [], []
        judge(host, lines, kd, res, pr, "expressions", stats if first else {}, bad=bad, ref=expected_runs(host, [vals[i] for i in batch]))
        first = False
        if not pr:
            continue
        if bad and all(p[0].startswith("value host=") for p in pr):
            for j in sorted(set(bad)):
                what = next(p[1] for p in pr if ("value %d:" % (j + 1)) in p[1])
                out.append((batch[j], "value", what.split("\n")[0] + "\n" + "\n".join(expr_program(host, [ex[j]], [kd[j]], setup)), lib_value(host, res, j)))
            continue
        if len(batch) == 1:
            kind = pr[0][0].split(" host=")[0]
            extra = " what=" + pr[0][0].split(" what=")[1] if " what=" in pr[0][0] else (" msg=" + pr[0][0].split(" msg=")[1] if " msg=" in pr[0][0] else "")
            out.append((batch[0], kind + extra, pr[0][1], None))
            continue
        h = len(batch) // 2
        todo.append(batch[h:])
        todo.append(batch[:h])
    return out


MOD_FP = "expr value op=MOD residue: a MOD b = sign(a) * fmod(|a| + 1e-14, b) (exact multiples give 1e-14, not 0)"


def run_expr_case(case):
    tier = case["tier"]
    partB = case["part"] == "B"
    texts = case_exprs(case, tier) if not partB else string_exprs()[case["lo"]:case["hi"]]
    refx = ref_expr_b if partB else ref_expr
    stats = {}
    good, kinds, vals = [], [], []
    for t in texts:
        st, v = refx(t)
        stats["expr_" + st] = stats.get("expr_" + st, 0) + 1
        if st != "ok":
            continue
        if isinstance(v, B.Num) and v.u > WELL * abs(v.v):
            stats["expr_ill"] = stats.get("expr_ill", 0) + 1
            continue
        good.append(t)
        kinds.append("s" if isinstance(v, str) else "n")
        vals.append(v)
    problems, outcome = [], []
    counter = [0]
    setup = STR_SETUP if partB else ()
    failing_punch = set()
    if good:
        for host in hosts_for(case["n"], tier, case["part"]):
            fails = find_failures(host, good, kinds, setup, stats, counter, vals)
            outcome.append((host, len(fails)))
            nshrunk = 0
            for idx, kind, what, libval in fails:
                t = good[idx]
                if host == "punch":
                    failing_punch.add(t)
                elif t in failing_punch:
                    continue               # same expression already reported from the USER_PUNCH host
                only = "" if host == "punch" else " only-host=%s" % host
                # defect model: is the mismatch explained by the MOD residue alone?
                if "MOD" in t:
                    # defect model (naming only): is the mismatch exactly what MOD = sign(a) * fmod(|a| + 1e-14, b) gives?
                    stq, vq = refx(t, quirks=("mod_residue",))
                    if (kind == "value" and stq == "ok" and isinstance(vq, B.Num) and isinstance(libval, float)
                            and abs(libval - vq.v) <= 4 * TOL * abs(vq.v) + vq.u):
                        problems.append((MOD_FP + only, "%s\nthe delivered value equals the reference with MOD computed as sign(a) * fmod(|a| + 1e-14, b)" % what))
                        continue
                    if stq == "unspecified":
                        problems.append((MOD_FP + only, "%s\nwith MOD computed as sign(a) * fmod(|a| + 1e-14, b) the expression leaves the specified "
                                         "domain (%s), e.g. 1 MOD 3 = 1.00000000000001 is not an integer exponent" % (what, vq)))
                        continue
                if nshrunk >= 8:
                    # the first 8 failing expressions of this row and host have been minimised and named; the rest is counted
                    stats["failing_not_minimised"] = stats.get("failing_not_minimised", 0) + 1
                    continue
                nshrunk += 1
                m = shrink_expr(host, t, None)
                problems.append(("expr %s %s%s" % (kind, opkey(m), only), "minimal failing expression: %s   (found in: %s)\n%s" % (m, t, what)))
    return {"case": case, "problems": dedupe(problems), "ops": counter[0], "states": [], "n_states": len(good),
            "outcome": core.sha(repr([show(v) for v in vals]) + repr(outcome)), "script": case_script(problems),
            "sample": {"case": case, "expressions": good[:3], "reference": [show(v) for v in vals[:3]]}, "stats": stats}


def dedupe(problems):
    seen, out = set(), []
    for p in problems:
        if p[0] not in seen:
            seen.add(p[0])
            out.append(p)
    return out


# =================================================================================================== part B: strings
STR_SETUP = ('6 s1$ = "  ab " : s2$ = "abc"',)
_strex = None


def q(s):
    return '"%s"' % s


def string_exprs():
    global _strex
    if _strex is not None:
        return _strex
    S = [q(s) for s in STRINGS]
    out = []
    for s in S + ["s1$", "s2$"]:
        for f in ("LEN", "ASC", "LTRIM", "RTRIM", "TRIM", "VAL"):
            out.append("%s(%s)" % (f, s))
        out.append("LEN(TRIM(%s))" % s)
        for n in (0, 1, 2, 3, 4, 6, 9):
            out.append("MID$(%s, %d)" % (s, n))
            for m in (0, 1, 2, 7):
                out.append("MID$(%s, %d, %d)" % (s, n, m))
        for n in (0, 2, 5, 12):
            out.append("PAD(%s, %d)" % (s, n))
            out.append("LEN(PAD(%s, %d))" % (s, n))
    for a in S + ["s1$"]:
        for b in S + ["s2$"]:
            out.append("%s + %s" % (a, b))
            out.append("LEN(%s + %s)" % (a, b))
            out.append("INSTR(%s, %s)" % (a, b))
            out.append("MID$(%s + %s, 2, 3)" % (a, b))
            for op in ("<", "<=", "=", ">=", ">", "<>"):
                out.append("%s %s %s" % (a, op, b))
    for n in (32, 48, 65, 97, 122, 126, 64.4, 65.6):
        out.append("CHR$(%s)" % n)
        out.append("ASC(CHR$(%s))" % n)
    X = ["0", "1", "3", "(-2.5)", "1e10", "va", "123456.789", "0.001", "1 / 3", "(-7)", "1e-5", "2 ^ 0.5", "1e15", "12345678"]
    for x in X:
        out.append("STR$(%s)" % x)
        out.append("LEN(STR$(%s))" % x)
        out.append("VAL(STR$(%s))" % x)
        out.append("TRIM(STR$(%s))" % x)
        for w in (0, 8, 15, 25):
            for d in (0, 2, 5):
                out.append("STR_F$(%s, %d, %d)" % (x, w, d))
                out.append("STR_E$(%s, %d, %d)" % (x, w, d))
    for s in ("12.5", " 7", "-3", "1e3", "0.5e-2", "abc", ""):
        out.append("VAL(%s)" % q(s))
        out.append("VAL(%s) + 1" % q(s))
    # ill-typed forms: must be BASIC errors
    for t in ('"a" + 1', '1 + "a"', '"a" * 2', '"a" < 1', 'LEN(1)', 'ABS("a")', 'MID$(1, 1)', 'NOT "a"', '-"a"', '"a" AND 1', 'STR$("a")', 'VAL(1)'):
        out.append(t)
    # every binary operator with mixed operand kinds in both orders, with two strings, and behind a numeric sub-expression
    for op in ("+", "-", "*", "/", "^", "MOD", "<", "<=", "=", "<>", ">", ">=", "AND", "OR", "XOR"):
        for t in ('"a" %s 1' % op, '1 %s "a"' % op, '"a" %s "b"' % op, '2 * 3 %s s2$' % op, 's2$ %s va' % op, '5 %s STR$(4)' % op):
            if t not in out:
                out.append(t)
    _strex = out
    return out


def ref_expr_b(text, quirks=()):
    it = B.Interp(quirks=quirks)
    it.vars, it.arrays = {"va": B.Num(VA), "s1$": "  ab ", "s2$": "abc"}, {}
    try:
        P = B.Parser(B.tokenize(text))
        e = P.expr()
        if P.peek()[0] is not None:
            raise B.BasicError("extra tokens")
        return "ok", it.ev(e)
    except B.BasicError as e:
        return "error", str(e)
    except B.Unspecified as e:
        return "unspecified", str(e)


def string_cases(tier):
    n = len(string_exprs())
    return [{"part": "B", "lo": i, "hi": min(n, i + 25)} for i in range(0, n, 25)]


def illtyped_cases():
    """Each ill-typed expression alone: the run must end with a BASIC error."""
    return [{"part": "BE", "text": t} for t in string_exprs() if ref_expr_b(t)[0] == "error"]


def run_illtyped_case(case):
    problems, stats = [], {}
    ops = 0
    out = []
    for host in ("punch", "print"):
        lines = expr_program(host, [case["text"]], ["n"], STR_SETUP)
        res = execute(host, lines, ["n"])
        ops += 1
        judge(host, lines, ["n"], res, problems, "ill-typed expression", stats)
        out.append((res.get("rc"), errmsg(res.get("err", "")) if res.get("rc") else ""))
    return {"case": case, "problems": dedupe(problems), "ops": ops, "states": [core.sha(case["text"])], "outcome": core.sha(repr(out)),
            "script": case_script(problems), "not_completed": True, "stats": stats}


# =================================================================================================== part C: control skeletons
class Gen(object):
    """Builds one program from a skeleton (a forest of construct nodes).  Lines are collected with symbolic labels."""

    def __init__(self, host):
        self.host = host
        self.main = []          # entries: ("S", text) | ("L", label)
        self.subs = []
        self.nlabel = 0
        self.nout = 0
        self.ndim = 0
        self.nread = 0
        self.kinds = []

    def label(self):
        self.nlabel += 1
        return "@%d@" % self.nlabel

    def out(self, expr, kind="n"):
        self.kinds.append(kind)
        return out_stmt(self.host, [expr], [kind])

    def mark(self):
        self.nout += 1
        return self.out("%d" % (100 + self.nout))


LEAF_NAMES = ["out", "if_t", "if_f", "ifne_t", "ifne_f", "ifnest_t", "ifnest_f", "ifmulti_t", "ifmulti_f", "read_n", "read_s",
              "restore", "dim1", "dim2", "putget", "ongoto0", "ongoto1", "ongoto2", "ongoto3", "ongosub0", "ongosub1", "ongosub2",
              "ongosub3", "goto", "end", "autodim", "let_expr"]
CONT_NAMES = ["for_1_3_1", "for_3_1_m1", "for_0_1_h", "for_1_5_2", "for_zero_up", "for_zero_dn", "for_computed", "while2",
              "while0", "gosub", "ifgoto_t", "ifgoto_f"]
ALPHABET = LEAF_NAMES + CONT_NAMES
DATA_ITEMS = '1.5, "dd", -3, "e f", 1e3, "g", 7, "h", 8, "i", 9, "j"'


def emit(g, node, dest, depth):
    """Append the lines of construct `node` = (name, [children]) to dest."""
    name, kids = node
    S = lambda t: dest.append(("S", t))
    if name == "out":
        S(g.mark())
    elif name in ("if_t", "if_f"):
        S("IF va %s 1 THEN %s ELSE %s" % (">" if name == "if_t" else "<", g.mark(), g.mark()))
    elif name in ("ifne_t", "ifne_f"):
        S("IF va %s 1 THEN %s" % (">" if name == "ifne_t" else "<", g.mark()))
    elif name in ("ifnest_t", "ifnest_f"):
        S("IF va %s 1 THEN IF va > 5 THEN %s ELSE %s ELSE %s" % (">" if name == "ifnest_t" else "<", g.mark(), g.mark(), g.mark()))
    elif name in ("ifmulti_t", "ifmulti_f"):
        S("IF va %s 1 THEN %s : %s ELSE %s : %s" % (">" if name == "ifmulti_t" else "<", g.mark(), g.mark(), g.mark(), g.mark()))
    elif name == "read_n":
        g.nread += 1
        S("READ rx, rs$ : %s" % g.out("rx * 2"))
    elif name == "read_s":
        g.nread += 1
        S("READ rx, rs$ : %s" % g.out('rs$ + "!"', "s"))
    elif name == "restore":
        S("RESTORE")
    elif name == "dim1":
        g.ndim += 1
        a = "ar%d" % g.ndim
        S("DIM %s(3) : %s(2) = va + %d : %s(3) = %s(2) * 2 : %s" % (a, a, g.ndim, a, a, g.out("%s(3) + %s(0)" % (a, a))))
    elif name == "dim2":
        g.ndim += 1
        a = "br%d" % g.ndim
        S("DIM %s(2, va) : %s(1, 2) = 5 : %s(2, 1) = 7 : %s" % (a, a, a, g.out("%s(1, 2) * 10 + %s(2, 1) + %s(0, 0)" % (a, a, a))))
    elif name == "autodim":
        g.ndim += 1
        a = "cr%d" % g.ndim
        S("%s(10) = 4 : %s" % (a, g.out("%s(10) + %s(0)" % (a, a))))
    elif name == "putget":
        g.nout += 1
        S("PUT(va + %d, 1, 2) : PUT$(\"p\", 3) : %s : %s" % (g.nout, g.out("GET(1, 2) * 3"), g.out('GET$(3) + "q"', "s")))
    elif name.startswith("ongoto"):
        k = int(name[-1])
        la, lb, lc = g.label(), g.label(), g.label()
        S("ON va - 2 + %d GOTO %s, %s" % (k, la, lb))
        S(g.mark() + " : GOTO " + lc)
        dest.append(("L", la))
        S(g.mark() + " : GOTO " + lc)
        dest.append(("L", lb))
        S(g.mark())
        dest.append(("L", lc))
        S("REM")
    elif name.startswith("ongosub"):
        k = int(name[-1])
        la, lb = g.label(), g.label()
        S("ON %d GOSUB %s, %s : %s" % (k, la, lb, g.mark()))
        g.subs.append(("L", la))
        g.subs.append(("S", g.mark() + " : RETURN"))
        g.subs.append(("L", lb))
        g.subs.append(("S", g.mark() + " : RETURN"))
    elif name == "goto":
        l = g.label()
        S("GOTO " + l)
        S(g.mark())
        dest.append(("L", l))
        S("REM")
    elif name == "end":
        S("END")
    elif name == "let_expr":
        S("xk = (va + 1) * 3 - 2 ^ 2 : xs$ = \"k\" + \"l\" : %s : %s" % (g.out("xk / 4"), g.out("xs$", "s")))
    elif name.startswith("for_"):
        v = "i%d" % depth
        head = {"for_1_3_1": "1 TO 3", "for_3_1_m1": "3 TO 1 STEP -1", "for_0_1_h": "0 TO 1 STEP 0.5", "for_1_5_2": "1 TO 5 STEP 2",
                "for_zero_up": "3 TO 1", "for_zero_dn": "1 TO 3 STEP -1", "for_computed": "va - 1 TO va * 2 STEP va / 2"}[name]
        S("FOR %s = %s" % (v, head))
        S(g.out("%s * 10" % v))
        for kid in kids:
            emit(g, kid, dest, depth + 1)
        S("NEXT %s" % v)
        S(g.out(v))
    elif name in ("while2", "while0"):
        v = "wk%d" % depth
        S("%s = 0" % v)
        S("WHILE %s < 2" % v if name == "while2" else "WHILE va < 1")
        S("%s = %s + 1 : %s" % (v, v, g.out("%s + 0.25" % v)))
        for kid in kids:
            emit(g, kid, dest, depth + 1)
        S("WEND")
        S(g.out(v))
    elif name == "gosub":
        l = g.label()
        S("GOSUB %s : %s" % (l, g.mark()))
        body = [("L", l), ("S", g.mark())]
        for kid in kids:
            emit(g, kid, body, depth + 1)
        body.append(("S", "RETURN"))
        g.subs.extend(body)
    elif name in ("ifgoto_t", "ifgoto_f"):
        l = g.label()
        S("IF va %s 1 THEN GOTO %s" % (">" if name == "ifgoto_t" else "<", l) if depth % 2 == 0 else "IF va %s 1 THEN %s" % (">" if name == "ifgoto_t" else "<", l))
        S(g.mark())
        for kid in kids:
            emit(g, kid, dest, depth + 1)
        dest.append(("L", l))
        S("REM")
    else:
        raise AssertionError(name)


def skeleton_program(host, forest):
    """-> (lines, kinds)"""
    g = Gen(host)
    for node in forest:
        emit(g, node, g.main, 1)
    entries = [("S", "va = %g" % VA)] + g.main + [("S", g.mark())]
    tail = host_epilogue(host, 0)
    if tail:
        entries.append(("S", tail[0].split(" ", 1)[1]))
    entries.append(("S", "END"))
    entries += g.subs
    # the data in three DATA statements: one behind another statement of its line, two on one line
    items = [x.strip() for x in DATA_ITEMS.split(",")]
    entries.append(("S", "vz = 0 : DATA " + ", ".join(items[:4])))
    entries.append(("S", "DATA " + ", ".join(items[4:6]) + " : DATA " + ", ".join(items[6:])))
    # number the lines, resolve labels
    n = 10
    labels, numbered = {}, []
    pending = []
    for kind, t in entries:
        if kind == "L":
            pending.append(t)
        else:
            for l in pending:
                labels[l] = n
            pending = []
            numbered.append((n, t))
            n += 10
    assert not pending
    lines = host_prologue(host)
    for n, t in numbered:
        lines.append("%d %s" % (n, re.sub(r"@\d+@", lambda m: str(labels[m.group(0)]), t)))
    return lines, g.kinds


def forests(size):
    """All forests with exactly `size` construct nodes (children only under containers)."""
    def trees(n):          # single trees with n nodes
        if n == 1:
            for a in ALPHABET:
                yield (a, [])
        else:
            for c in CONT_NAMES:
                for f in forest(n - 1):
                    yield (c, f)

    def forest(n):         # ordered forests with n nodes
        if n == 0:
            yield []
            return
        for first in range(1, n + 1):
            for t in trees(first):
                for rest in forest(n - first):
                    yield [t] + rest

    return forest(size)


_forest_cache = {}


def forest_list(size):
    if size not in _forest_cache:
        _forest_cache[size] = list(forests(size))
    return _forest_cache[size]


def forest_names(f):
    out = []
    for name, kids in f:
        out.append(name)
        out.extend(forest_names(kids))
    return out


def ctl_fingerprint(kind, host, forest, extra=""):
    return "ctl %s host=%s constructs=%s%s" % (kind, host, "+".join(sorted(set(re.sub(r"\d+$|_[tf]$|_.*$", "", n) for n in forest_names(forest)))), extra)


ONGOSUB_FP = "ctl ON..GOSUB with a selector outside 1..n leaves a GOSUB frame on the control stack"


def run_ctl_case(case):
    forest = forest_list(case["size"])[case["k"]]
    problems, stats, outcome = [], {}, []
    ops = 0
    sample = None
    for host in hosts_for(case["k"], case["tier"], "C%d" % case["size"]):
        lines, kinds = skeleton_program(host, forest)
        kinds = exec_kinds(host, lines, kinds)
        res = execute(host, lines, kinds)
        ops += 1
        pr = []
        st = judge(host, lines, kinds, res, pr, "skeleton %s" % "+".join(forest_names(forest)), stats)
        if st not in ("ok", "error", "unspecified"):
            raise RuntimeError("part C generated a program the reference cannot run (%s): %s\n%s" % (st, forest, "\n".join(lines)))
        if pr and any(n.startswith("ongosub") for n in forest_names(forest)):
            # defect model (naming only): does the library behave exactly like the reference with the GOSUB frame pushed
            # before the range check of the selector?
            prq = []
            refq = reference_runs(host, lines, 1 if host == "rates" else 2, quirks=("on_gosub_frame",))
            resq, kindsq = res, kinds
            if host in ("calc", "rates") and refq[0] == "ok":
                # the slot reader of these hosts is generated from the expected number / kinds of values
                kindsq = ["s" if isinstance(v, str) else "n" for v in refq[1][0][0]]
                resq = execute(host, lines, kindsq)
                ops += 1
            judge(host, lines, kindsq, resq, prq, "", {}, ref=refq)
            if not prq:
                problems.append((ONGOSUB_FP, pr[0][1] + "\nthe library's result equals the reference with that frame left on the stack"))
                pr = []
        for fp, what in pr:
            kind = fp.split(" host=")[0]
            extra = (" " + fp.split(" ", 2)[2]) if fp.startswith("unexpected-error") else ""
            problems.append((ctl_fingerprint(kind, host, forest, extra.replace("host=%s" % host, "").rstrip()), what))
        outcome.append((host, res.get("rc"), [repr(r)[:200] for r in res.get("runs", [])[:1]]))
        if host == "punch":
            sample = {"case": case, "program": lines, "delivered": res.get("runs", [])[:1]}
    return {"case": case, "problems": dedupe(problems), "ops": ops, "states": [core.sha(repr(forest))], "outcome": core.sha(repr(outcome)),
            "script": case_script(problems), "sample": sample, "stats": stats}


# =================================================================================================== part D: malformed programs
def program_tokens(lines):
    """Token strings of every line (line number kept apart)."""
    out = []
    for l in lines:
        num, rest = l.split(" ", 1)
        toks = re.findall(r'"[^"]*"|[A-Za-z][A-Za-z0-9_$]*|\d+\.?\d*(?:[eE][-+]?\d+)?|<=|>=|<>|.', rest)
        out.append((num, [t for t in toks if t.strip()]))
    return out


def mutants(lines):
    """Every single-token deletion and adjacent-token swap (line numbers and the harness lines are not touched)."""
    toks = program_tokens(lines)
    seen = set(["\n".join(lines)])
    for li, (num, tl) in enumerate(toks):
        for j in range(len(tl)):
            for kind in ("del", "swap"):
                if kind == "del":
                    new = tl[:j] + tl[j + 1:]
                else:
                    if j + 1 >= len(tl) or tl[j] == tl[j + 1]:
                        continue
                    new = tl[:j] + [tl[j + 1], tl[j]] + tl[j + 2:]
                if not new:
                    continue
                ml = ["%s %s" % (n2, " ".join(t2)) for n2, t2 in toks]
                ml[li] = "%s %s" % (num, " ".join(new))
                key = "\n".join(ml)
                if key not in seen:
                    seen.add(key)
                    yield (li, j, kind), ml


def run_mut_case(case):
    variant = case.get("variant", "rel")
    forest = forest_list(case["size"])[case["k"]]
    lines, kinds = skeleton_program("punch", forest)
    # normalise the spacing of the base program exactly like the mutants
    problems, stats = [], {}
    ops = 0
    outcomes = []
    msamples = []
    ncompleted = 0
    for (li, j, kind), ml in mutants(lines):
        st0, ref, detail = reference_runs("punch", ml, 1)
        if st0 in ("unspecified", "steplimit"):
            stats["mut_" + st0] = stats.get("mut_" + st0, 0) + 1
            continue
        s = session(variant)
        res = execute("punch", ml, kinds, variant)
        ops += 1
        pr = []
        judge("punch", ml, kinds, res, pr, "mutant %s of token %d in line %s of skeleton %s" % (kind, j, ml[li].split(" ")[0], "+".join(forest_names(forest))), stats, mutant=True)
        if pr and re.search(r"\bON\b.*\bGOSUB\b", "\n".join(ml)):
            prq = []
            judge("punch", ml, kinds, res, prq, "", {}, ref=reference_runs("punch", ml, 2, quirks=("on_gosub_frame",)))
            if not prq:
                problems.append((ONGOSUB_FP, pr[0][1] + "\nthe library's result equals the reference with that frame left on the stack"))
                pr = []
        stats["mut_" + st0] = stats.get("mut_" + st0, 0) + 1
        if res.get("rc") == 0:
            ncompleted += 1
        for fp, what in pr:
            base = fp.split(" host=")[0]
            if base == "malformed-accepted":
                problems.append(("mut malformed-accepted ref=%s" % errclass(detail), what))
            elif base == "unexpected-error":
                problems.append(("mut unexpected-error stmt=%s msg=%s" % (stmt_of(ml[li], ""), errmsg(res["err"])), what))
            else:
                problems.append(("mut %s stmt=%s%s" % (base, stmt_of(ml[li], ""), " variant=san" if variant == "san" else ""), what))
        outcomes.append((res.get("rc"), errmsg(res.get("err", "")) if res.get("rc") else "ok"))
        if len(msamples) < 4:
            msamples.append({"mutated line": ml[li], "reference": st0, "library rc": res.get("rc"),
                             "library": errmsg(res.get("err", "")) if res.get("rc") else repr(res.get("runs", [])[:1])[:120]})
    return {"case": case, "problems": dedupe(problems), "ops": ops, "states": [core.sha(repr((forest, variant)))],
            "sample": {"case": case, "base program": lines, "first mutants": msamples},
            "outcome": core.sha(repr(outcomes)), "outcomes": sorted(set(o[1] for o in outcomes)), "script": case_script(problems, variant),
            "stats": stats, "n_mut": len(outcomes), "n_completed": ncompleted}


def stmt_of(line, detail):
    m = re.match(r"^\d+ ([A-Za-z$_0-9]+)", line)
    w = m.group(1).upper() if m else "?"
    return w if w.lower() in B.KEYWORDS else "LET"


# =================================================================================================== dispatch
def run_case(case):
    begin_case()
    p = case["part"]
    if p in ("A1", "A2", "A3", "B"):
        return run_expr_case(case)
    if p == "BE":
        return run_illtyped_case(case)
    if p == "C":
        return run_ctl_case(case)
    if p == "D":
        return run_mut_case(case)
    raise AssertionError(p)


class TapPool(object):
    """core.Pool proxy that folds the per-case statistics (reference statuses, judged / ill-conditioned value counts,
    lattice points) into the parent's totals while core.explore_cases consumes the results."""

    def __init__(self, pool, ev, totals):
        self.pool, self.ev, self.totals = pool, ev, totals
        self.nsamp = {}

    def map(self, f, items, chunksize=1, ordered=False):
        for r in self.pool.map(f, items, chunksize, ordered):
            if isinstance(r, dict):
                smp = r.pop("sample", None)          # two verbatim samples per part (core would keep the first six cases only)
                part = r["case"]["part"] + str(r["case"].get("size", ""))
                if smp and self.nsamp.get(part, 0) < 2:
                    self.nsamp[part] = self.nsamp.get(part, 0) + 1
                    self.ev.samples.append(smp)
                for k, v in r.get("stats", {}).items():
                    self.totals[k] = self.totals.get(k, 0) + v
                self.ev.n_states_extra += r.get("n_states", 0)
                self.totals["engine_runs_rc0"] = self.totals.get("engine_runs_rc0", 0) + r.get("n_completed", 0)
                self.totals["mutants_run"] = self.totals.get("mutants_run", 0) + r.get("n_mut", 0)
                for o in r.get("outcomes", ()):
                    self.ev.outcome("mut:" + o)
            yield r


def ev_not_completed(totals):
    return totals.get("ref_unspecified", 0) + totals.get("ref_steplimit", 0) + totals.get("mut_unspecified", 0) + totals.get("mut_steplimit", 0)


def run(tier):
    ev = core.Evidence(PROP, tier)
    findings = core.Findings(PROP)
    ev.assumptions = [
        "taken from the implementation: the truth value of a relation is 1 (classic BASIC uses -1); NOT/AND/OR/XOR are bitwise on integers",
        "taken from the implementation: STR$ and PRINT format numbers as %20.0f (integers) / %20.12e with -high_precision true",
        "taken from the implementation: undimensioned arrays have the default bound 10; IF c THEN <line number> is a GOTO; "
        "DIM of an already dimensioned array is an error; RESTORE n positions at the first DATA statement at or after line n",
        "a printed number is compared with half a unit of its 13th significant digit added to the 1e-12 relative tolerance",
        "operator precedence of the reference: ^ > unary - > * / MOD > + - > relations > NOT > AND > OR XOR, left associative; "
        "forms on which BASIC dialects disagree (chained ^, a unary sign directly before ^, NOT directly before an unparenthesised "
        "operator expression, 0^0, x/0, MOD of negative / fractional operands, logical operators on non-integers, half-integer "
        "subscripts, STEP 0, LOG/SQRT outside their domain, non-finite results) are outside the claim (library: -2^2 = 4, NOT 1 = 1 is 0)",
        "values whose reference uncertainty (inexact ^, EXP, LOG, SIN, ... followed by cancellation or a discrete decision) "
        "exceeds 2e-13 relative are not judged (counted as ill-conditioned)",
        "items of PRINT / PUNCH lists may be juxtaposed without separators; DATA items are evaluated only when read; a malformed "
        "statement in a line that is never executed may or may not be diagnosed (part D)",
        "SAVE in RATES is observed as -KIN_DELTA of a reactant with m0 = 1 over one 1 s step (SAVE value scaled by TIME); values leave "
        "CALCULATE_VALUES / RATES programs through PUT slots 9000.. read back by a USER_PUNCH program",
        "STOP is not in the documented statement table and is not generated; line numbers are never mutated",
        "mini database data/c17/mini.dat (water only) loads without error; every case starts from a new instance",
        "defect models of the reference (MOD residue 1e-14, GOSUB frame of ON..GOSUB) are used only to name a mismatch, never for a verdict",
    ]
    totals = {}
    drv.exe("rel")               # (re)build the library and the driver before the deadline clock starts
    real_pool = core.Pool()
    pool = TapPool(real_pool, ev, totals)
    dl = core.Deadline(150 if tier == "quick" else 840)

    only = os.environ.get("C17_PARTS")          # development aid: run only the bounds whose name starts with one of these letters

    def bound(name, cases, chunksize=2):
        if only and name[0] not in only:
            ev.bound(name, False, cases=len(cases), skipped="C17_PARTS")
            return
        for i, c in enumerate(cases):
            c["tier"] = tier
            c.setdefault("n", i)
        if dl.passed():
            ev.bound(name, False, cases=len(cases))
            return
        done = core.explore_cases(cases, run_case, ev, findings, pool, chunksize=chunksize, deadline=dl)
        ev.bound(name, done, cases=len(cases))

    # ---- A: numeric expressions
    ec = expr_cases(tier)
    bound("A: unary functions on depth<=1 trees (%d functions x %d operands), operator pairs a op1 b op2 c, depth-2 trees over %d leaves (%d rows of %d)" % (
        len(UNARY), len(depth1(tier)), len(LEAVES[tier]), sum(1 for c in ec if c["part"] == "A2"), len(depth1(tier))), ec, chunksize=4)
    # ---- B: strings
    bound("B: %d string-function expressions over %d strings" % (len(string_exprs()), len(STRINGS)), string_cases(tier))
    bound("B: ill-typed expressions must be BASIC errors", illtyped_cases())
    # ---- C: control skeletons
    sizes = (1, 2) if tier == "quick" else (1, 2, 3)
    for sz in sizes:
        n = len(forest_list(sz))
        bound("C: control skeletons with %d construct(s): %d programs" % (sz, n), [{"part": "C", "size": sz, "k": k} for k in range(n)], chunksize=8)
    # ---- D: malformed programs
    msizes = (1,) if tier == "quick" else (1, 2)
    for sz in msizes:
        n = len(forest_list(sz))
        bound("D: all 1-token deletions / adjacent swaps of the size-%d skeleton programs (%d base programs)" % (sz, n),
              [{"part": "D", "size": sz, "k": k} for k in range(n)], chunksize=2)
    if tier == "thorough":
        build.ensure("san")
        n = len(forest_list(1))
        bound("D/san: size-1 mutants under ASan+UBSan", [{"part": "D", "size": 1, "k": k, "variant": "san"} for k in range(n)], chunksize=1)
    ev.extra["alphabet"] = {"binary_operators": BINOPS, "unary": UNARY, "leaves": LEAVES[tier], "strings": STRINGS,
                            "constructs": ALPHABET, "hosts": list(HOSTS)}
    ev.extra["lattice"] = dict(sorted(totals.items()))
    ev.extra["summary"] = {
        "lattice_points (expressions with a defined reference value + skeleton programs + mutant base programs)": len(ev.states) + ev.n_states_extra,
        "engine_runs": ev.transitions,
        "judged_runs_completed_rc0": totals.get("runs_completed_rc0", 0),
        "judged_runs_ending_in_a_BASIC_error": totals.get("runs_basic_error", 0),
        "values_compared_with_the_reference": totals.get("judged", 0),
        "values_not_judged_ill_conditioned": totals.get("ill", 0) + totals.get("expr_ill", 0),
        "expressions_outside_the_claim (Unspecified)": totals.get("expr_unspecified", 0),
        "programs_outside_the_claim (Unspecified / step limit)": ev_not_completed(totals),
    }
    ev.not_completed = ev_not_completed(totals)
    n_judged = totals.get("judged", 0)
    if ev.exhaustive:            # vacuity guards (a deadline-cut run is reported as such, not as a broken check)
        if n_judged < 1000:
            raise SystemExit("C17: only %d values were judged - the check is broken" % n_judged)
        if len(ev.outcomes) < 50:
            raise SystemExit("C17: only %d distinct outcomes - the check is vacuous" % len(ev.outcomes))
    real_pool.close()
    return core.finish(ev, findings)


def replay(path):
    return core.replay_main(PROP, path, run_case)
