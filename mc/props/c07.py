"""C07  Loading a database returns the instance to the fresh state.

Shape H: every history (successful op)^k (failing op)? over an alphabet of residue-leaving operations, followed by a
load (LoadDatabase phreeqc.dat / pitzer.dat, LoadDatabaseString), followed by every probe of a fixed probe set; each
probe runs on a forked copy of the post-load instance, so every probe sees the untouched post-load state.
Oracle (differential, bitwise): everything observable from the probe = the same on a brand-new instance that was given
the survivors the statement allows (global output switches, user-set file names), the same load and the same probe.
Masked: the elapsed-time banner (with its dash rows) and the instance id inside default file names.
"""
import json
import os
import re

from .. import core, build, drv
from ..oracles import c07_alphabet as A

PROP = "C07"

GLOBAL_SW = ["OutputFileOn", "OutputStringOn", "ErrorFileOn", "ErrorStringOn", "ErrorOn", "LogFileOn", "LogStringOn", "DumpFileOn", "DumpStringOn"]
NAMES = ["Output", "Error", "Log", "Dump"]
SEL_USERS = (1, 2)
RUNNERS = ("RunString", "RunFile", "RunAccumulated", "LoadDatabase", "LoadDatabaseString")

BANNER = re.compile(r"-+\nEnd of Run after [0-9.eE+-]+ Seconds\.\n-+\n")
# the not-found messages of RATE_PK / RATE_SVD / RATE_HERMANSKA / MEANG print the name from a buffer that has already been
# freed (PBasic.cpp: PHRQ_free(min_name) precedes "oss << min_name"): the text after "for " is heap garbage
FREED = re.compile(r"((?:PK|SVD|Hermanska) rate parameters not found for |No definition in MEAN_GAMMAS found for )[^\n]*")
# transport.cpp keeps the "moles added to balance negative concentrations" counter in file-scope storage shared by all
# instances of the process (known finding F2, C06): the reported amount depends on what ran earlier in the process
MCD_ADDED = re.compile(r"(\t )[0-9.eE+-]+( moles \S+\.\n)")
DEFNAME = re.compile(r"^(phreeqc|dump|selected_\d+)\.\d+\.(out|err|log)$")


def mask_text(s):
    if not isinstance(s, str):
        return s
    if "End of Run" in s:
        s = BANNER.sub("<end-of-run banner>\n", s)
    if " found for " in s:
        s = FREED.sub(r"\1<name>", s)
    if "added in total to the system" in s:
        s = MCD_ADDED.sub(r"\1<amount>\2", s)
    return s


def mask_name(n):
    return DEFNAME.sub(r"\1.ID.\2", n) if isinstance(n, str) else n


# ------------------------------------------------------------------------------------------ executing steps
def do_step(d, st):
    fn = st[0]
    if fn == "LoadDatabase":
        return d.call("s0", "c", fn, A.dbpath(st[1]))
    if fn == "LoadDatabaseString":
        return d.call("s0", "c", fn, A.dbtext(st[1]))
    if fn == "writefile":
        return d.cmd("writefile", st[1], st[2])
    return d.call("s0", "c", fn, *st[1:])


def play(d, steps):
    """-> (return codes of the run/load steps, all of them 0)"""
    rcs = []
    for st in steps:
        r = do_step(d, st)
        if st[0] in RUNNERS:
            rcs.append(r)
    return rcs, all(r == 0 for r in rcs)


# ------------------------------------------------------------------------------------------ observation
STREAM_OF = {"Output": "output", "Error": "error", "Warning": "warning", "Log": "log", "Dump": "dump", "SelectedOutput": "selected-output"}


def group_of_getter(g):
    if g.endswith("FileName"):
        return "file-names"
    if g.endswith("On"):
        return "switches"
    if g == "GetComponentCount":
        return "components"
    for k, v in STREAM_OF.items():
        if g.startswith("Get" + k):
            return v
    return "selected-output"


OBS_FLAGS = "gscuat"     # getters (incl. line counts), strings, components, per-user info, accumulated lines, tables


def observe(d, rcs, flags=OBS_FLAGS):
    return canon(d.obs("s0", "c", flags), d.files(), rcs)


def canon(o, files, rcs):
    """Canonical observation: {channel: (group, value)} with ids and the time banner masked."""
    ch = {"return codes": ("return-code", rcs)}
    fowner = {}
    for k, v in o.items():
        if k == "sel":
            for u, e in v.items():
                for kk, vv in e.items():
                    if kk == "fname":
                        fowner[vv] = "selected-output"
                        vv = mask_name(vv)
                    elif kk == "lines":
                        vv = "\n".join(vv)
                    ch["selected output %s: %s" % (u, kk)] = ("selected-output", vv)
        elif k in ("users", "cur_after"):
            ch[k] = ("selected-output", v)
        elif k == "components":
            ch[k] = ("components", v)
        elif k == "accumulated":
            ch[k] = ("accumulated-lines", v)
        elif k.endswith("Lines"):
            ch[k] = (STREAM_OF[k[:-5]], mask_text("\n".join(v) + "\n") if v else "")
        elif k.endswith("FileName"):
            fowner[v] = STREAM_OF.get(k[3:-8], "selected-output")
            ch[k] = ("file-names", mask_name(v))
        else:
            ch[k] = (group_of_getter(k), mask_text(v))
    for name, content in files.items():
        ch["file %s" % mask_name(name)] = (fowner.get(name, "other-file"), mask_text(content))
    return ch


def survivors(d):
    """What the statement lets survive a load, read through the getters (call inside a fork: it moves the current user
    number).  Default names (which contain the instance id) are reported as None."""
    g = {}
    for s in GLOBAL_SW:
        g[s] = d.call("s0", "c", "Get" + s)
    names = {}
    for n in NAMES:
        v = d.call("s0", "c", "Get%sFileName" % n)
        names[n] = None if DEFNAME.match(v) else v
    sel = {}
    for u in SEL_USERS:
        d.call("s0", "c", "SetCurrentSelectedOutputUserNumber", u)
        v = d.call("s0", "c", "GetSelectedOutputFileName")
        sel[str(u)] = None if DEFNAME.match(v) else v
    return {"sw": g, "names": names, "sel": sel}


def apply_survivors(d, sv):
    for s in GLOBAL_SW:
        d.call("s0", "c", "Set" + s, int(sv["sw"][s]))
    for n in NAMES:
        if sv["names"][n] is not None:
            d.call("s0", "c", "Set%sFileName" % n, sv["names"][n])
    touched = False
    for u in SEL_USERS:
        if sv["sel"][str(u)] is not None:
            d.call("s0", "c", "SetCurrentSelectedOutputUserNumber", u)
            d.call("s0", "c", "SetSelectedOutputFileName", sv["sel"][str(u)])
            touched = True
    if touched:
        d.call("s0", "c", "SetCurrentSelectedOutputUserNumber", 1)


def batch(d, cmds):
    """Send several commands in one write and read their replies (the driver answers one line per command).  Only used
    inside a fork, after the 'forked' reply: the parent driver process is then blocked in waitpid and cannot swallow
    the lines into its own input buffer.  Mirrors drv.Drv.raw for bookkeeping and failures."""
    lines = [drv.cmdline(*c) for c in cmds]
    if d.record:
        d.log.extend(lines)
    try:
        d.proc.stdin.write(("\n".join(lines) + "\n").encode("latin-1"))
    except (BrokenPipeError, OSError):
        rc = d.proc.wait()
        err = d._stderr()
        d.start_after_death()
        raise drv.DrvDied("driver gone before command", rc, err)
    reps = []
    for _ in lines:
        try:
            rep = d._readline(d.timeout)
        except drv.DrvTimeout:
            d.proc.kill()
            d.proc.wait()
            d.start_after_death()
            raise
        if rep is None:
            rc = d.proc.wait()
            err = d._stderr()
            d.start_after_death()
            raise drv.DrvDied("driver died (rc=%s)" % rc, rc, err)
        r = json.loads(rep.decode("latin-1"))
        if "fatal" in r:
            rc = d.proc.wait()
            err = d._stderr()
            d.start_after_death()
            raise drv.DrvDied("driver fatal: %s" % r["fatal"], rc, err, fatal=r["fatal"])
        reps.append(r)
    return reps


def step_cmd(st):
    fn = st[0]
    if fn == "LoadDatabase":
        return ("call", "s0", "c", fn, A.dbpath(st[1]))
    if fn == "LoadDatabaseString":
        return ("call", "s0", "c", fn, A.dbtext(st[1]))
    if fn == "writefile":
        return ("writefile", st[1], st[2])
    return ("call", "s0", "c", fn) + tuple(st[1:])


def forked_chain(d, names):
    """The probes `names` one after the other on one forked copy of the instance; before each probe the files are removed
    (not before 'none': it also sees what the load itself wrote), after each probe everything is observed."""
    d.fork()
    cmds, layout = [], []
    for p in names:
        steps = A.P[p]
        cmds.append(("ping",) if p == "none" else ("rmfiles",))
        cmds += [step_cmd(st) for st in steps]
        cmds += [("obs", "s0", "c", OBS_FLAGS), ("files",)]
        layout.append((p, steps))
    cmds.append(("endfork",))
    reps = batch(d, cmds)
    if "endfork" not in reps[-1]:
        raise RuntimeError("endfork failed: %r" % (reps[-1],))
    out, k = {}, 0
    for p, steps in layout:
        k += 1
        rcs = []
        for st in steps:
            r = reps[k]
            k += 1
            if "exc" in r:
                raise RuntimeError("vdrv: %s (%s)" % (r["exc"], st[0]))
            if st[0] in RUNNERS:
                rcs.append(r["r"] if "r" in r else r)
        out[p] = canon(reps[k], reps[k + 1]["files"], rcs)
        k += 2
    return out


def run_probes(d, variant="rel"):
    """-> {probe: observation}.  The chain 'bare' sees the instance exactly as the load left it; then every sink is
    switched on (on the instance itself: the same later calls on both sides) and the other chains run."""
    out = {}
    first = True
    for cname, names in A.chains(variant):
        if not first and "ALL_ON" not in out:
            play(d, A.ALL_ON)
            out["ALL_ON"] = True
        first = False
        if names:
            out.update(forked_chain(d, names))
    out.pop("ALL_ON", None)
    return out


# ------------------------------------------------------------------------------------------ reference (brand-new instance)
_ref = {}


def reference(variant, load, sv):
    key = (variant, load, json.dumps(sv, sort_keys=True))
    if key in _ref:
        _ref[key] = _ref.pop(key)               # most recently used last
    else:
        while len(_ref) >= 24:
            _ref.pop(next(iter(_ref)))
        d = core.get_drv(variant)
        d.reset()
        d.new("c")
        apply_survivors(d, sv)
        rc = do_step(d, A.LOADS[load])
        if rc != 0:
            raise RuntimeError("reference load %s failed" % load)
        _ref[key] = run_probes(d, variant)
        b = _ref[key]
        # vacuity guards: the probes really produce the observables the comparison relies on
        assert len(b["spec"]["GetOutputString"][1]) > 2000, "probe spec: no output string"
        assert len(b["spec"]["selected output 1: table"][1]) >= 2, "probe spec: no selected-output table"
        assert len(b["trans7"]["selected output 1: table"][1]) >= 10, "probe trans7: no selected-output table"
        if variant == "rel":
            assert len(b["dump"]["GetDumpString"][1]) > 200, "probe dump: no dump string"
            assert len(b["log"]["GetLogString"][1]) > 20, "probe log: no log string"
            assert b["so"]["users"][1] == [1, 2], "probe so: user numbers"
            assert any(k.startswith("file ") for k in b["so"]), "probe so: no files"
    return _ref[key]


# ------------------------------------------------------------------------------------------ history on the real library
class Crash(Exception):
    def __init__(self, phase, summary):
        Exception.__init__(self, "%s: %s" % (phase, summary))
        self.phase = phase
        self.summary = summary


def crash_summary(e):
    if isinstance(e, drv.DrvTimeout):
        return "hang (driver timeout)"
    err = getattr(e, "stderr", "") or ""
    m = re.search(r"SUMMARY: (\w+Sanitizer: [^\n]*)", err)
    if m:
        s = re.sub(r"/\S*/", "", m.group(1))           # drop directories
        return re.sub(r"0x[0-9a-f]+", "ADDR", s)
    m = re.search(r"runtime error: [^\n]*", err)
    if m:
        return re.sub(r"/\S*/", "", m.group(0))
    return str(e)


def post_load(variant, ops, fail, load):
    """Plays initial load + history + load on a new instance.
    -> dict(scope=..., pre=sha of the pre-load observation, sv=survivors, load_rc, obs={probe: observation}, rcs=[...])"""
    d = core.get_drv(variant)
    d.reset()
    d.new("c")
    phase = "history"
    try:
        if do_step(d, ("LoadDatabase", "phreeqc.dat")) != 0:
            raise RuntimeError("phreeqc.dat does not load")
        oks, allrc = [], []
        for name in ops:
            rcs, ok = play(d, A.S[name] if name in A.S else A.DBX[name])
            oks.append(ok)
            allrc.append(rcs)
        fail_failed = None
        if fail is not None:
            rcs, ok = play(d, A.F[fail])
            fail_failed = not ok
            allrc.append(rcs)
        # the stated form: successful calls, then at most one failing call
        in_scope = all(oks[:-1]) and (not oks or oks[-1] or fail is None)
        phase = "observation before the load"
        d.fork()                  # (a driver death inside the fork restarts the driver: no endfork then)
        sv = survivors(d)
        # (sanitizer build: no observation before the load - after a failed definition the getters trip debug assertions)
        if variant == "rel":
            pre = core.sha(json.dumps([observe(d, []), sv], sort_keys=True))
        else:
            pre = core.sha(json.dumps([ops, fail, sv], sort_keys=True))
        d.endfork()
        phase = "load"
        d.cmd("rmfiles")          # whatever exists after the load was written by the load
        rc = do_step(d, A.LOADS[load])
        res = {"in_scope": in_scope, "oks": oks, "fail_failed": fail_failed, "pre": pre, "sv": sv, "load_rc": rc, "rcs": allrc, "obs": None}
        if rc == 0:
            phase = "probes"
            d.fork()
            res["sw_after"] = {x: d.call("s0", "c", "Get" + x) for x in GLOBAL_SW}
            d.endfork()
            res["obs"] = run_probes(d, variant)
        res["script"] = d.script()
        return res
    except (drv.DrvDied, drv.DrvTimeout) as e:
        raise Crash(phase, crash_summary(e))


def short(v, n=70):
    s = v if isinstance(v, str) else json.dumps(v)
    return s if len(s) <= n else s[:n] + "...(%d chars)" % len(s)


def first_diff(a, b):
    if isinstance(a, str) and isinstance(b, str):
        i = next((k for k, (x, y) in enumerate(zip(a, b)) if x != y), min(len(a), len(b)))
        lo = max(0, a.rfind("\n", 0, i) + 1)
        return "at char %d: post-load %r / fresh %r" % (i, a[lo:i + 60], b[lo:i + 60])
    return "post-load %s / fresh %s" % (short(a), short(b))


def empty(v):
    return v in ("", None, [], {}, 0)


def compare(obsA, obsB):
    """-> (signature: sorted list of 'group(detail)', details: list of text lines)"""
    sig, details = {}, []
    for p in A.PROBE_ORDER:
        if p not in obsA and p not in obsB:
            continue
        a, b = obsA[p], obsB[p]
        for ch in sorted(set(a) | set(b)):
            if a.get(ch) == b.get(ch):
                continue
            ga, va = a.get(ch, (None, None))
            gb, vb = b.get(ch, (None, None))
            g = ga or gb
            if ch not in a:
                kind = "missing after load"
            elif ch not in b:
                kind = "only after load"
            elif empty(vb) and not empty(va):
                kind = "content after load, none on a new instance"
            elif empty(va) and not empty(vb):
                kind = "none after load, content on a new instance"
            else:
                kind = "differs"
            new_group = g not in sig
            sig.setdefault(g, kind)        # the kind of a group = that of its first differing channel (probe order, channel order)
            if len(details) < 14 and (new_group or len(details) < 8):
                details.append("probe %-6s %-40s %s" % (p, ch, first_diff(va, vb)))
    return ["%s(%s)" % kv for kv in sorted(sig.items())], details


def sub_histories(ops, fail):
    """Order-preserving sub-histories, smallest first (the whole history last)."""
    items = [("S", o) for o in ops] + ([("F", fail)] if fail else [])
    n = len(items)
    subs = []
    for mask in range(1, 2 ** n):
        sel = [items[i] for i in range(n) if mask >> i & 1]
        subs.append(sel)
    subs.sort(key=lambda s: (len(s), [it[1] for it in s]))
    return subs


_sub_cache = {}


def judged(variant, ops, fail, load):
    """-> (result of post_load, signature, details) ; cached for short sub-histories"""
    key = (variant, tuple(ops), fail, load)
    if key in _sub_cache:
        return _sub_cache[key]
    res = post_load(variant, ops, fail, load)
    if res["obs"] is None:
        out = (res, None, [])
    else:
        sig, det = compare(res["obs"], reference(variant, load, res["sv"]))
        out = (res, sig, det)
    if len(ops) + (1 if fail else 0) <= 1 and len(_sub_cache) < 400:
        lite = dict(res)
        lite["obs"] = None if res["obs"] is None else True
        _sub_cache[key] = (lite, out[1], out[2])
    return out


def label(sel):
    return " ; ".join(o for _, o in sel) if sel else "(empty history)"


def run_case(case):
    variant, ops, fail, load = case.get("variant", "rel"), case["hist"], case.get("fail"), case["load"]
    n_ops = 2 + len(ops) + (1 if fail else 0) + len(A.probes(variant))
    base = {"case": case, "ops": n_ops, "states": [], "problems": [], "diagnostics": []}
    if core._drvs.get((variant, False)) is None:
        # a brand-new driver process (first case of a worker, or the replay-before-report re-runs): nothing may be reused
        _ref.clear()
        _sub_cache.clear()
    d = core.get_drv(variant)
    try:
        res, sig, det = judged(variant, ops, fail, load)
    except Crash as c:
        base["script"] = "\n".join(getattr(d, "dead_log", [])) + "\n"
        base["outcome"] = "crash:" + c.phase
        if c.phase in ("history", "observation before the load"):
            base["not_completed"] = True
            base["diagnostics"].append("driver died before the load (not C07's subject): %s ; history %s" % (c.summary, label([("S", o) for o in ops] + ([("F", fail)] if fail else []))))
        else:
            base["problems"].append(("crash in %s after history [%s]: %s" % ("the load" if c.phase == "load" else "a probe", label([("S", o) for o in ops] + ([("F", fail)] if fail else [])), c.summary),
                                     "the driver process died in phase %s (%s) after the history %s and load %s; a new instance runs the same load and probes normally" % (c.phase, c.summary, ops + ([fail] if fail else []), load)))
        return base
    base["script"] = res["script"]
    base["states"] = [res["pre"]]
    base["outcome"] = core.sha(json.dumps([res["pre"], load, res["load_rc"], sig]))
    base["sample"] = {"history": ops, "failing_op": fail, "load": load, "history_return_codes": res["rcs"], "load_rc": res["load_rc"],
                      "survivors": res["sv"], "differences": sig}
    if res["obs"] is None:
        base["not_completed"] = True          # the statement is about loads that return 0
        base["diagnostics"].append("load %s returned %s after history %s" % (load, res["load_rc"], ops + ([fail] if fail else [])))
        return base
    if not res["in_scope"]:
        base["outcome"] = "out-of-scope:" + base["outcome"]
        if sig:
            base["diagnostics"].append("history %s is not of the stated form (an op that should succeed failed before the end) but shows differences %s" % (ops + ([fail] if fail else []), sig))
        base["out_of_scope"] = True
        return base
    # the survivors clause, judged directly (a brand-new instance goes through the same load, so it cannot show this)
    lost = sorted(x for x in GLOBAL_SW if int(res.get("sw_after", {}).get(x, res["sv"]["sw"][x])) != int(res["sv"]["sw"][x]))
    if lost:
        base["problems"].append(("global switch %s does not survive %s" % (", ".join(lost), A.LOADS[load][0]),
                                 "history %s then %s(%s): global output switches before the load %s, after the load %s" % (ops + ([fail] if fail else []), A.LOADS[load][0], A.LOADS[load][1], res["sv"]["sw"], res["sw_after"])))
    if not sig:
        return base
    # differences: find the minimal sub-histories that already show a difference; one problem per minimal culprit
    found = []
    for sel in sub_histories(ops, fail):
        if any(set(map(tuple, f[0])) <= set(map(tuple, sel)) for f in found):
            continue
        sops = [o for k, o in sel if k == "S"]
        sfail = next((o for k, o in sel if k == "F"), None)
        if (sops, sfail) == (ops, fail):
            r2, s2, d2 = res, sig, det
        else:
            try:
                r2, s2, d2 = judged(variant, sops, sfail, load)
            except Crash:
                continue
        if s2:
            found.append((sel, s2, d2, r2["script"]))
    if found:
        base["script"] = found[0][3]
    for sel, s2, d2, _ in found:
        fp = "residue of [%s] survives the load: %s" % (label(sel), ", ".join(s2))
        what = "history %s then %s: the probes differ from a brand-new instance (same switches/file names, same load, same probe)\n" % (label(sel), "%s(%s)" % A.LOADS[load]) + "\n".join(d2)
        if (([o for k, o in sel if k == "S"]), next((o for k, o in sel if k == "F"), None)) != (ops, fail):
            what += "\n(minimal sub-history of the explored history %s)" % (ops + ([fail] if fail else []))
        base["problems"].append((fp, what))
    return base


# ------------------------------------------------------------------------------------------ enumeration
S_ALL = list(A.S)
F_ALL = list(A.F)
# ops whose residue is most likely to interact (used for the depth-3 bound)
HEAVY = ["t80", "kin", "trs", "trm", "so2", "knobs", "prreset", "defs", "redef", "save", "db_pitzer", "sw_on"]


def order_key(c):
    return (len(c["hist"]) + (1 if c["fail"] else 0), len(c["hist"]), [(S_ALL + list(A.DBX)).index(o) for o in c["hist"]], c["fail"] or "", c["load"])


def histories(ops, k):
    import itertools
    return [list(h) for h in itertools.product(ops, repeat=k)]


def mk(hists, fails, loads, variant="rel"):
    out = []
    for h in hists:
        if variant == "san" and any(o in A.NOSAN for o in h):
            continue
        for f in fails:
            for l in loads:
                out.append({"hist": h, "fail": f, "load": l, "variant": variant})
    out.sort(key=order_key)
    return out


def bounds(tier):
    """-> list of (name, cases)"""
    fails = [None] + F_ALL
    loads = list(A.LOADS)
    d01 = histories(S_ALL, 0) + histories(S_ALL, 1)
    file_loads = ["phreeqc", "pitzer"]
    if tier == "quick":
        return [
            ("depth<=1: (op)? (failing op)? x LoadDatabase(phreeqc.dat | pitzer.dat); (op)? x LoadDatabaseString(phreeqc.dat)",
             sorted(mk(d01, fails, file_loads) + mk(d01, [None], ["phreeqc-str"]), key=order_key)),
            ("depth 2: op op x LoadDatabase(phreeqc.dat)", mk(histories(S_ALL, 2), [None], ["phreeqc"])),
            ("every other shipped database as history: LoadDatabase(X) (spec)? x LoadDatabase(phreeqc.dat | pitzer.dat)",
             mk([[x] for x in A.DBX] + [[x, "spec"] for x in A.DBX], [None], file_loads)),
        ]
    return [
        ("depth<=1: (op)? (failing op)? x 3 loads", mk(d01, fails, loads)),
        ("depth 2: op op x 3 loads", mk(histories(S_ALL, 2), [None], loads)),
        ("every other shipped database as history: LoadDatabase(X) (op)? (failing op)? x 3 loads",
         mk([[x] for x in A.DBX] + [[x, o] for x in A.DBX for o in ("spec", "t80", "kin", "defs", "knobs")], fails, loads)),
        ("sanitizer build, depth<=1: (op)? (failing op)? x 3 loads", mk(d01, fails, loads, "san")),
        ("depth 2 + failing op: op op (failing op) x LoadDatabase(phreeqc.dat)", mk(histories(S_ALL, 2), F_ALL, ["phreeqc"])),
        ("depth 3 over the %d residue-heavy ops: op op op (f_basic | f_trans)? x LoadDatabase(phreeqc.dat | pitzer.dat)" % len(HEAVY),
         mk(histories(HEAVY, 3), [None, "f_basic", "f_trans"], ["phreeqc", "pitzer"])),
        ("sanitizer build, depth 2 over the residue-heavy ops, (failing op)?, LoadDatabase(phreeqc.dat)", mk(histories(HEAVY, 2), fails, ["phreeqc"], "san")),
    ]


def run(tier):
    ev = core.Evidence(PROP, tier)
    findings = core.Findings(PROP)
    ev.assumptions = [
        "the survivors of a load (9 global output switches, output/error/log/dump and selected-output 1,2 file names) are read through the getters just before the load and given to the brand-new reference instance through the setters before its load",
        "default file names contain the instance id: masked as NAME.ID.ext (names only, never contents); the 'End of Run after x Seconds' banner and its dash rows are masked",
        "probes run in %d chains; every chain starts on its own forked copy of the untouched post-load instance, so the first probe of a chain is the first call after the load; files are removed before each probe" % len(A.CHAINS),
        "histories start on phreeqc.dat; an op that is meant to succeed but fails before the end of a history puts the history outside the stated form (counted as out_of_scope, differences only reported as diagnostics)",
        "masked as well: the amount in the multicomponent-diffusion warning 'added in total to the system' (a process-global counter of transport.cpp, known finding F2) and the name printed by the not-found messages of RATE_PK/RATE_SVD/RATE_HERMANSKA/MEANG (printed from an already freed buffer)",
        "line accessors are not compared (they are a function of the strings: C09); line counts are",
        "no constant was taken from the implementation: the oracle is purely differential",
    ]
    # hard limits of the tiers (a bound that is cut is reported as not completed); C07_DEADLINE overrides (development on a loaded machine)
    dl = core.Deadline(float(os.environ.get("C07_DEADLINE", 170 if tier == "quick" else 1700)))
    total = 0
    pool = None
    for name, cs in bounds(tier):
        for v in sorted(set(c["variant"] for c in cs)):
            build.ensure(v)
            drv.exe(v)
        if dl.passed():
            ev.bound(name, False, cases=len(cs), executed=0)
            continue
        # a new pool per bound: the workers inherit the fingerprints that earlier bounds already reported (one line per mechanism)
        _already.update(fp for fp, _ in findings.violations)
        _already.update(findings.known_hits)
        pool = core.Pool()
        n0, nc0 = ev.traces, ev.not_completed
        done = core.explore_cases(cs, run_case_counted, ev, findings, pool, chunksize=4, deadline=dl)
        pool.close()
        ev.bound(name, done, cases=len(cs), executed=ev.traces - n0, not_completed=ev.not_completed - nc0)
        total += ev.traces - n0
    ev.extra["alphabet"] = {"successful_ops": S_ALL, "failing_ops": F_ALL, "loads": {k: "%s(%s)" % v for k, v in A.LOADS.items()},
                            "probe_chains": A.CHAINS, "residue_heavy_ops": HEAVY}
    ev.extra["lattice_points"] = total
    ev.extra["completed_runs"] = ev.traces - ev.not_completed
    ev.extra["engine_calls_per_case"] = "2 loads + history + %d probes" % len(A.PROBE_ORDER)
    # vacuity: histories must leave many different observable pre-load states, and nearly all cases must be judged
    if ev.traces and len(ev.states) < 30:
        raise SystemExit("C07 harness error: only %d distinct pre-load states" % len(ev.states))
    if ev.traces and ev.not_completed > 0.1 * ev.traces:
        raise SystemExit("C07 harness error: %d of %d cases not completed" % (ev.not_completed, ev.traces))
    return core.finish(ev, findings)


_already = set()


def run_case_counted(case):
    res = run_case(case)
    if _already and res["problems"]:
        res["problems"] = [p for p in res["problems"] if p[0] not in _already]
    return res


def replay(path):
    return core.replay_main(PROP, path, run_case)
