"""C05  Selected-output table, string, lines and file describe the same data.

Shape L: full lattice of block shapes (user numbers, option sets, high_precision, USER_PUNCH heading/value shapes,
row scenarios) x switch states x current-user-number, each executed on the real library (one forked copy of a loaded
instance per case); for every case every (row, col) in [-1..R] x [-1..C] is read through the four accessors.
"""
import itertools
import os
import re

from .. import core, build

PROP = "C05"
DB = os.path.join(build.REPO, "database", "phreeqc.dat")

OPTIONS = [
    ("totals", "-totals Na Cl"),
    ("molalities", "-molalities Na+ OH-"),
    ("activities", "-activities Ca+2"),
    ("si", "-saturation_indices Calcite Halite"),
    ("eqphases", "-equilibrium_phases Calcite"),
    ("gases", "-gases CO2(g)"),
    ("kin", "-kinetic_reactants Kreact"),
    ("noreset", "-reset false"),
    ("nouserpunch", "-user_punch false"),
]
# USER_PUNCH shapes: (headings, list of BASIC PUNCH lines)
PUNCH = {
    "none": None,
    "h1n": (["a"], ['10 PUNCH 1.5']),
    "h1i": (["a"], ['10 PUNCH 3']),
    "h2ns": (["a", "b"], ['10 PUNCH 2.25, "x y"']),
    "h2e": (["a", "b"], ['10 PUNCH "", 1e-30']),
    "h3few": (["a", "b", "c"], ['10 PUNCH 7.5']),                       # fewer values than headings
    "h1many": (["a"], ['10 PUNCH 1.5, 2, "s", 77777']),                 # more values than headings
    "h0": ([], ['10 PUNCH 4.5, "t"']),                                  # no headings at all
    "hlong": (["L" + "o" * 116 + "g", "b"], ['10 PUNCH "' + "x" * 131 + 'y", 2.5']),     # heading of 118 and text cell of 132 characters
    "h2cond": (["a", "b"], ['10 PUNCH 1.25', '20 IF STEP_NO > 1 THEN PUNCH STEP_NO']),   # PUNCH in only some rows
    "h2skip": (["a", "b"], ['10 IF STEP_NO > 1 THEN PUNCH 1.25, STEP_NO']),              # no value at all in the first rows
    "h2never": (["a", "b"], ['10 IF STEP_NO > 99 THEN PUNCH 1.25']),                     # headings, but no value in any row
}
ROWS = ["init", "react3", "late", "inverse", "advect", "transport", "kinetics"]
NEWROWS = ("advect", "transport", "kinetics")     # rows punched by ADVECTION / TRANSPORT / KINETICS (their own identifier columns)
BLOCKS = [[], [1], [2], [5], [1, 2], [2, 5], [5, 1]]
USERS_ALL = [1, 2, 5]


def make_input(case):
    if case["rows"] == "inverse":
        t = ["SOLUTION 1", " pH 8", " Na 1.2", " Cl 1", " Alkalinity 0.2"]
    else:
        t = ["SOLUTION 1", " pH 7 charge", " Na 1", " Cl 1", " Ca 0.5", " C 1"]
    for n in case["blocks"]:
        t.append("SELECTED_OUTPUT %d" % n)
        t.append(" -high_precision %s" % ("true" if case["hp"] else "false"))
        for o in case["opts"]:
            t.append(" " + dict(OPTIONS)[o])
        if case["rows"] == "inverse":
            t.append(" -inverse_modeling true")
        p = PUNCH[case["punch"]]
        if p is not None:
            t.append("USER_PUNCH %d" % n)
            if p[0]:
                t.append(" -headings " + " ".join(p[0]))
            t += [" " + l for l in p[1]]
    t.append("END")
    if case["rows"] in ("react3", "late"):
        t += ["USE solution 1", "REACTION 1", " NaCl 1", " 1 mmol in 3 steps", "END"]
    if case["rows"] == "late":
        for n in case["blocks"]:
            t += ["USER_PUNCH %d" % n, " -headings " + " ".join(LATE_HEADS), ' 10 PUNCH 1, 2, 3, 4, "L"']
        t += ["USE solution 1", "REACTION 1", " NaCl 1", " 1 mmol in 2 steps", "END"]
    if case["rows"] in ("advect", "transport"):
        t += ["SOLUTION 0", " pH 7 charge", " Na 2", " Cl 2", "SOLUTION 2-3", " pH 7 charge", " Na 1", " Cl 1", " Ca 0.5", " C 1"]
        if case["rows"] == "advect":
            t += ["ADVECTION", " -cells 3", " -shifts 2", " -punch_cells 1-3", " -punch_frequency 1", "END"]
        else:
            t += ["TRANSPORT", " -cells 3", " -shifts 2", " -lengths 0.5", " -dispersivities 0.05", " -time_step 100", " -punch_cells 1-3", " -punch_frequency 1", "END"]
    if case["rows"] == "kinetics":
        t += ["RATES", " Kreact", " -start", " 10 SAVE 1e-6 * TIME", " -end", "USE solution 1", "KINETICS 1", " Kreact", " -formula NaCl 1", " -m 1",
              " -steps 10 20 30", "INCREMENTAL_REACTIONS true", "END"]
    if case["rows"] == "inverse":
        t += ["SOLUTION 2", " pH 8", " Na 2.2", " Cl 2", " Alkalinity 0.2", "END",
              "INVERSE_MODELING 1", " -solutions 1 2", " -phases", "  Halite", " -uncertainty 0.05", "END",
              "USE solution 1", "REACTION 1", " NaCl 1", " 1 mmol", "END"]
    return "\n".join(t) + "\n"


# ------------------------------------------------------------------ rendering of a table value as a text cell
NUMFMTS = (["%%.%de" % p for p in range(0, 18)] + ["%%.%df" % p for p in range(0, 13)] + ["%g"] + ["%%.%dg" % p for p in range(1, 18)])


def render_matches(text, value, width):
    """Set of printf formats (without width) under which `value` renders exactly as the text cell (right-justified, width)."""
    if len(text) < width:
        return set()
    body = text.strip(" ")
    if text != body.rjust(max(width, len(body))):
        return set()
    ok = set()
    if isinstance(value, str):
        if text == value.rjust(max(width, len(value))) or body == value.strip(" "):
            ok.add("%s")
        return ok
    if isinstance(value, dict) and "l" in value:
        if body == "%d" % value["l"]:
            ok.add("%d")
        return ok
    if isinstance(value, float):
        if value == int(value) and abs(value) < 1e15 and body == "%d" % int(value):
            ok.add("%d")
        for f in NUMFMTS:
            try:
                if (f % value) == body:
                    ok.add(f)
            except Exception:
                pass
    return ok


def split_text(s):
    """Lines -> lists of cells (every cell is terminated by a TAB)."""
    rows = []
    for line in s.split("\n")[:-1] if s.endswith("\n") else s.split("\n"):
        cells = line.split("\t")
        if cells and cells[-1] == "":
            cells.pop()
        rows.append(cells)
    return rows


def is_heading_line(cells, heads):
    if len(cells) > len(heads) or not cells:
        return False
    for c, h in zip(cells, heads):
        b = c.strip(" ")
        if b == "" or not isinstance(h, str) or not (h == b or h.startswith(b)):
            return False
    return True


def _extra_columns_empty(text, table):
    """The table columns beyond those the text's heading line names hold no value in any row."""
    hl = [r for r in split_text(text) if is_heading_line(r, table[0])]
    k = len(hl[-1]) if hl else 0
    return k < len(table[0]) and all(c is None for r in table[1:] for c in r[k:])


LATE_HEADS = ["a", "b", "c", "d", "late"]


def judge_text(kind, u, text, table, width, problems, inverse, late_unnamed=False, off_heads=None, late_def=False):
    """off_heads: the block carries -user_punch false and a USER_PUNCH with headings is defined at some point."""
    pr = []
    _judge_text(kind, u, text, table, width, pr, inverse)
    for fp, what in pr:
        if off_heads and fp.endswith("heading-line-vs-table-columns") and table and _extra_columns_empty(text, table):
            fp = "table-keeps-empty-USER_PUNCH-columns-with--user_punch-false (the text has no such columns)"
        elif late_def and fp.endswith("heading-line-vs-table-columns") and table and [h for h in table[0] if not (isinstance(h, str) and h.startswith("no_heading"))][-len(LATE_HEADS):] == LATE_HEADS:
            fp = "text-heading-line-not-renewed when USER_PUNCH is defined or redefined after rows were written (later values appear under no heading)"
        if late_unnamed and fp.split("-", 1)[1] in ("cell-vs-empty", "cell-missing", "cell-not-a-rendering", "more-cells-than-columns"):
            fp = "text-positional-vs-table-named-columns after USER_PUNCH redefinition with unnamed columns"
        if inverse and fp.split("-", 1)[1] in ("cell-vs-empty", "cell-missing", "cell-not-a-rendering", "more-cells-than-columns", "data-row-count"):
            fp = "table-rows block=inverse_modeling"        # F3: inverse-model rows never reach the table / get merged into the next row
        problems.append((fp, what))


def _judge_text(kind, u, text, table, width, problems, inverse):
    heads = table[0] if table else []
    rows = split_text(text)
    if not heads:
        # a block without any column (e.g. SELECTED_OUTPUT n>1 with nothing selected): the text holds empty lines only
        if any(r for r in rows):
            problems.append(("%s-cells-without-columns" % kind, "user %d: table has no columns, %s holds %r" % (u, kind, [r for r in rows if r][:2])))
        return
    data = [r for r in rows if not is_heading_line(r, heads)]
    nrows = max(0, len(table) - 1)
    # row 0 of the table and the heading line of the text name the same columns (columns the engine names itself for values
    # punched beyond the headings, no_heading_k, have no text heading)
    hl = [r for r in rows if is_heading_line(r, heads)]
    named = [h for h in heads if not (isinstance(h, str) and h.startswith("no_heading"))]
    if hl and not inverse and len(hl[-1]) != len(named):
        problems.append(("%s-heading-line-vs-table-columns" % kind, "user %d: the heading line of the %s names %d columns %r, row 0 of the table %d %r" % (
            u, kind, len(hl[-1]), [c.strip() for c in hl[-1]], len(named), named)))
        return
    # a heading line without any heading text (USER_PUNCH without -headings) is an empty line: indistinguishable from a data
    # row in which nothing was punched, so surplus empty lines are taken as heading lines
    while len(data) > nrows and [] in data:
        data.remove([])
    if len(data) != nrows:
        fp = "%s-data-row-count" % kind
        if inverse:
            fp = "table-rows block=inverse_modeling"
        problems.append((fp, "user %d: %s has %d data rows, table has %d" % (u, kind, len(data), nrows)))
        return
    ncol = len(heads)
    colfmt = [None] * ncol
    for i, cells in enumerate(data):
        trow = table[i + 1]
        if len(cells) > ncol:
            problems.append(("%s-more-cells-than-columns" % kind, "user %d row %d: %d text cells, %d columns" % (u, i + 1, len(cells), ncol)))
            return
        for j in range(ncol):
            v = trow[j]
            if j >= len(cells):
                if v is not None:
                    problems.append(("%s-cell-missing" % kind, "user %d (%d,%d): table holds %r but the text row ends before it" % (u, i + 1, j, v)))
                    return
                continue
            if v is None:
                if cells[j].strip(" ") != "":
                    problems.append(("%s-cell-vs-empty" % kind, "user %d (%d,%d): table cell empty, text %r" % (u, i + 1, j, cells[j])))
                    return
                continue
            m = render_matches(cells[j], v, width)
            if not m:
                problems.append(("%s-cell-not-a-rendering" % kind, "user %d (%d,%d) %r: text %r is not the table value %r in any print format of width %d" % (
                    u, i + 1, j, heads[j], cells[j], v, width)))
                return


# ------------------------------------------------------------------ accessors
def expected_v2(cell):
    """(type, dvalue, svalue) GetSelectedOutputValue2 / ValueF must deliver for a table cell (IPhreeqc.h)."""
    if cell is None:
        return (0, None, None)
    if isinstance(cell, str):
        return (4, None, cell)
    if isinstance(cell, dict) and "l" in cell:
        return (3, float(cell["l"]), "%d" % cell["l"])
    if isinstance(cell, float):
        return (3, cell, "%23.15e" % cell)
    return None


def same_float(a, b):
    return a == b or (a != a and b != b)


def judge_accessors(d, u, table, problems):
    R = len(table)
    C = len(table[0]) if table else 0
    L = 64
    g = {k: d.cmd("cells", "s0", k, -1, R, -1, C, *([L] if k in ("c2", "f") else []))["r"] for k in ("c", "cpp", "c2")}
    g["f"] = d.cmd("cells", "s0", "f", -1, R, 0, C + 1, L)["r"]          # Fortran columns are 1-based
    n = 0
    for ri, row in enumerate(range(-1, R + 1)):
        for ci, col in enumerate(range(-1, C + 1)):
            n += 1
            inside = 0 <= row < R and 0 <= col < C
            c, cpp, c2, f = g["c"][ri][ci], g["cpp"][ri][ci], g["c2"][ri][ci], g["f"][ri][ci]
            where = "user %d (%d,%d) of %dx%d" % (u, row, col, R, C)
            if c != cpp:
                problems.append(("accessor-c-vs-cpp", "%s: C %r vs C++ %r" % (where, c, cpp)))
            if inside:
                cell = table[row][col]
                if c["rc"] != 0 or c["v"] != cell:
                    problems.append(("accessor-c-vs-table", "%s: second read gives %r, first read gave %r" % (where, c, cell)))
                ev2 = expected_v2(cell)
                if ev2 is None:
                    problems.append(("table-error-cell", "%s: the table holds an error-typed VAR %r at a valid (row, col)" % (where, cell)))
                    continue
                et, ed, es = ev2
                for nm, x in (("Value2", c2), ("ValueF", f)):
                    bad = x["rc"] != 0 or x["type"] != et
                    if not bad and ed is not None:
                        bad = not same_float(x["d"], ed)
                    if not bad and es is not None:
                        if nm == "ValueF":
                            bad = x["s"] != es[:L].ljust(L) or x["len"] != len(es)
                        else:
                            bad = x["s"].split("\x00")[0].rstrip("#") != es[:L]        # strncpy: NUL-terminated when shorter than the buffer
                    if bad:
                        problems.append(("accessor-%s-vs-table" % nm, "%s: %s gives %r for table cell %r" % (where, nm, {k: (v if k != "s" else v[:40]) for k, v in x.items()}, cell)))
            else:
                row_bad, col_bad = not (0 <= row < R), not (0 <= col < C)
                allowed = set()
                if row_bad:
                    allowed.add(-4)
                if col_bad:
                    allowed.add(-5)
                for nm, x, typ in (("C", c, c["type"]), ("Value2", c2, c2["type"]), ("ValueF", f, f["type"])):
                    if x["rc"] not in allowed or typ != 1:
                        problems.append(("accessor-out-of-range-%s" % nm, "%s: %s returned rc %r type %r; documented %s with an error-typed VAR" % (
                            where, nm, x["rc"], typ, " or ".join({-4: "INVALIDROW", -5: "INVALIDCOL"}[a] for a in sorted(allowed)))))
    return n


# ------------------------------------------------------------------ one case
_base = {}


def base(d):
    """Once per driver process: slot 0 with phreeqc.dat loaded; cases run in forked copies."""
    if _base.get("proc") is not d.proc:
        d.reset()
        d.new("c")
        if d.call("s0", "c", "LoadDatabase", DB) != 0:
            raise RuntimeError("phreeqc.dat does not load")
        _base["proc"] = d.proc


def run_case(case):
    d = core.get_drv("rel")
    base(d)
    d.fork()
    try:
        return _run_case(d, case)
    finally:
        d.endfork()


def _run_case(d, case):
    d.cmd("rmfiles")
    problems = []
    sw = case["sw"]          # {"1": [file, string], ...} for the user numbers whose switches are set
    for u, (fo, so) in sorted(sw.items()):
        d.call("s0", "c", "SetCurrentSelectedOutputUserNumber", int(u))
        d.call("s0", "c", "SetSelectedOutputFileOn", fo)
        d.call("s0", "c", "SetSelectedOutputStringOn", so)
    d.call("s0", "c", "SetCurrentSelectedOutputUserNumber", case["cur"])
    inp = make_input(case)
    rc = d.call("s0", "c", "RunString", inp)
    if rc != 0:
        raise RuntimeError("generated input is not error free: %s\n%s" % (d.call("s0", "c", "GetErrorString"), inp))
    o = d.obs("s0", "c", "sult")
    files = d.files()
    users = o["users"]
    if sorted(users) != sorted(set(case["blocks"])):
        problems.append(("user-numbers", "defined blocks %r but GetNthSelectedOutputUserNumber lists %r" % (case["blocks"], users)))
    ncells = 0
    width = 20 if case["hp"] else 12
    inverse = case["rows"] == "inverse"
    # USER_PUNCH first punches more values than it has headings (columns no_heading_k), then is redefined with more headings
    late_unnamed = case["rows"] == "late" and case["punch"] in ("h1many", "h0") and "nouserpunch" not in case["opts"]
    late_def = case["rows"] == "late" and "nouserpunch" not in case["opts"]
    off_heads = "nouserpunch" in case["opts"] and ((PUNCH[case["punch"]] is not None and bool(PUNCH[case["punch"]][0])) or case["rows"] == "late")
    sig = []
    for u in users:
        e = o["sel"][str(u)]
        table = e["table"]
        R, C = e["rows"], e["cols"]
        sig.append((u, R, C))
        # --- table structure
        if table:
            if any(not isinstance(h, str) for h in table[0]):
                problems.append(("table-heading-not-string", "user %d: row 0 is %r" % (u, table[0])))
            if len(set(table[0])) != len(table[0]) and "a" not in table[0]:
                pass
        if len(table) != R or any(len(r) != C for r in table):
            problems.append(("table-shape", "user %d: RowCount %d ColumnCount %d but rows have %r cells" % (u, R, C, [len(r) for r in table])))
            continue
        for r in table:
            for cell in r:
                if isinstance(cell, dict) and ("e" in cell or "rc" in cell):
                    problems.append(("table-cell-error", "user %d: cell inside the table reads as %r" % (u, cell)))
        # --- accessors on every (row, col) incl. the out-of-range frame
        d.call("s0", "c", "SetCurrentSelectedOutputUserNumber", u)
        ncells += judge_accessors(d, u, table, problems)
        again = d.obs("s0", "c", "t")["sel"][str(u)]["table"]
        if again != table:
            problems.append(("table-changed-by-reads", "user %d: table differs after reading every cell incl. out-of-range ones" % u))
        # --- string / lines / file
        fo, so = sw.get(str(u), [0, 0])
        eff_so = sw.get(str(case["cur"]), [0, 0])[1]
        text = e["str"]
        if so:
            pr = []
            judge_text("string", u, text, table, width, pr, inverse, late_unnamed, off_heads, late_def)
            if e["lines"] != (text.split("\n")[:-1] if text.endswith("\n") else text.split("\n")) and text != "":
                pr.append(("lines-vs-string", "user %d: line accessors differ from the string" % u))
            if pr and not eff_so and text == "" and R > 1:
                problems.append(("sel-string-sink-governed-by-current-user-number",
                                 "user %d: string switch on, current user number %d has it off, string empty while the table has %d rows" % (u, case["cur"], R)))
            else:
                problems += pr
        if fo:
            ftext = files.get(e["fname"])
            if ftext is None:
                if R > 1:
                    problems.append(("file-missing", "user %d: file sink on, table has %d rows, no file %r" % (u, R, e["fname"])))
            else:
                judge_text("file", u, ftext, table, width, problems, inverse, late_unnamed, off_heads, late_def)
    # --- unknown user number
    d.call("s0", "c", "SetCurrentSelectedOutputUserNumber", 7)
    for nm, fn, args in (("C", "GetSelectedOutputValue", (0, 0)), ("Value2", "GetSelectedOutputValue2", (0, 0, 32)), ("ValueF", "GetSelectedOutputValueF", (0, 1, 32))):
        x = d.call("s0", "f" if nm == "ValueF" else "c", fn, *args)
        if x["rc"] != -3 or x["type"] != 1:
            problems.append(("unknown-user-number-%s" % nm, "user number 7 is not defined: %s returned rc %r, VAR type %r; the statement asks for the documented error code (INVALIDARG) and an error-typed VAR" % (nm, x["rc"], x["type"])))
    for k in ("GetSelectedOutputRowCount", "GetSelectedOutputColumnCount"):
        if d.call("s0", "c", k) != 0:
            problems.append(("unknown-user-number-count", "%s for the undefined user number 7 is not 0" % k))
    seen, uniq = set(), []
    for p in problems:
        if p[0] not in seen:
            seen.add(p[0])
            uniq.append(p)
    return {"case": case, "problems": uniq, "ops": 1 + ncells, "states": [core.sha(repr(case))], "outcome": core.sha(repr(sig) + case["punch"] + str(case["hp"])),
            "sample": {"case": case, "tables": sig}}


def run_case_linear(case):
    """Replay form: brand-new process, explicit load, no fork."""
    d = core.fresh_drv("rel")
    d.new("c")
    if d.call("s0", "c", "LoadDatabase", DB) != 0:
        raise RuntimeError("phreeqc.dat does not load")
    r = _run_case(d, case)
    r["script"] = d.script()
    return r


# ------------------------------------------------------------------ lattice
def switch_states(blocks, tier):
    """(sw, cur): switch dicts for the defined users, and the user number current at run time."""
    out = []
    us = [str(u) for u in (blocks or [1])]
    all_on = {u: [1, 1] for u in us}
    out.append((all_on, int(us[0])))
    if tier == "thorough":
        for cur in (1, 2, 5, 7):
            out.append((all_on, cur))
        for bits in itertools.product((0, 1), repeat=2 * len(us)):
            sw = {u: [bits[2 * i], bits[2 * i + 1]] for i, u in enumerate(us)}
            out.append((sw, int(us[-1])))
    else:
        out.append((all_on, int(us[-1])))
        out.append(({u: [1, 0] for u in us}, int(us[0])))
        out.append(({u: [0, 1] for u in us}, int(us[0])))
        if len(us) > 1:
            out.append(({us[0]: [1, 1], us[1]: [0, 0]}, int(us[1])))
    uniq = []
    for s in out:
        if s not in uniq:
            uniq.append(s)
    return uniq


def cases(tier):
    kmax = 2 if tier == "quick" else 3
    names = [o[0] for o in OPTIONS]
    optsets = [list(c) for k in range(kmax + 1) for c in itertools.combinations(names, k)]
    out = []
    for blocks in BLOCKS:
        for rows in ROWS:
            if rows == "inverse" and (tier == "quick" and blocks != [2]):
                continue
            if rows in NEWROWS and blocks not in ([1], [1, 2]) and tier == "quick":
                continue
            for punch in PUNCH:
                if punch == "hlong" and rows == "late":
                    continue          # the late redefinition renames its first column: that is F12's mechanism, covered by h1many / h0
                if rows in NEWROWS and punch not in (("none", "h2ns") if tier == "quick" else ("none", "h2ns", "h1many", "h2cond")):
                    continue
                for hp in (0, 1):
                    osets = optsets
                    if tier == "quick" and (blocks != [1] or rows == "late"):
                        osets = [o for o in optsets if len(o) <= 1]
                    if tier == "thorough" and (len(blocks) == 2 or rows == "late"):
                        osets = [o for o in optsets if len(o) <= 2]
                    if rows == "inverse" or rows in NEWROWS:
                        osets = [o for o in optsets if len(o) <= 1]
                    for opts in osets:
                        for sw, cur in switch_states(blocks, tier):
                            out.append({"blocks": blocks, "rows": rows, "punch": punch, "hp": hp, "opts": opts, "sw": sw, "cur": cur})
    out.sort(key=lambda c: (len(c["blocks"]), ROWS.index(c["rows"]), len(c["opts"]), c["hp"], list(PUNCH).index(c["punch"]), sum(sum(v) for v in c["sw"].values())))
    return out


def run(tier):
    ev = core.Evidence(PROP, tier)
    findings = core.Findings(PROP)
    ev.assumptions = ["a text cell is accepted as a rendering of the table value if some printf format (%e/%f/%g with any precision, %d, %s) of the block's width (12, or 20 with -high_precision) reproduces it exactly",
                      "heading lines of the text are recognised as lines whose cells are prefixes of the table headings (the text prints 'Na', the table 'Na(mol/kgw)')",
                      "IPhreeqc_interface.F90 is not exercised; GetSelectedOutputValueF is called from C++"]
    pool = core.Pool()
    cs = cases(tier)
    dl = core.Deadline(200 if tier == "quick" else 1500)
    done = core.explore_cases(cs, run_case, ev, findings, pool, chunksize=16, deadline=dl)
    ev.bound("block-shape x switch-state lattice: %d cases" % len(cs), done, cases=len(cs))
    ev.extra["lattice"] = {"blocks": BLOCKS, "options": [o[1] for o in OPTIONS], "option_subset_size": 2 if tier == "quick" else 3,
                           "user_punch_shapes": sorted(PUNCH), "rows": ROWS}
    pool.close()
    return core.finish(ev, findings)


def replay(path):
    return core.replay_main(PROP, path, run_case_linear)
