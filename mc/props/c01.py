"""C01  Speciation results satisfy the database's equilibrium and balance equations.

Shape L (lattice).  For every shipped ion-association / LLNL-type database that the independent reader
(mc/oracles/phrq_db.py) parses completely, three lattices of initial-solution calculations are run on the real library:

  A  "species": for every aqueous species s of the database the solution that contains exactly the elements of s
     (x concentration x pH x temperature x pe); solutions that coincide for several species are run once;
  B  "pairs":   every unordered pair of elements x pH x temperature;
  C  "adjusted": every element with pH / Cl adjusted to charge balance, carbon adjusted to a CO2(g) partial pressure,
     and redox elements entered per valence state.

Every completed run is judged by the oracle in `judge`: mass action of every species present with log K(T) evaluated
from the database *text*, mole / charge / ionic-strength / alkalinity balances over the species, and mutual consistency
of the pH, SI, SR, activity, molality and total read-outs.  Nothing is sampled; all randomness-free.
"""
import math
import os

from .. import core, build
from ..oracles import phrq_db

PROP = "C01"
DBDIR = os.path.join(build.REPO, "database")

TOL_LOG = 1e-9       # statement: mass action to 1e-9 log units (also used for the other relations in log units)
TOL_REL = 1e-7       # statement: balances relative 1e-7

# databases offered to the reader; those with PITZER / SIT blocks are outside the statement ("ion-association")
ALL_DBS = ["phreeqc.dat", "wateq4f.dat", "minteq.v4.dat", "minteq.dat", "Amm.dat", "phreeqc_rates.dat",
           "Tipping_Hurley.dat", "iso.dat", "llnl.dat", "core10.dat", "Kinec.v2.dat", "Kinec_v3.dat",
           "minimum.dat",
           # PHREEQC_ThermoddemV1.10_15Dec2020.dat is not offered: the independent reader does not reproduce its master-species
           # conventions (valence states such as N(-5)/O(0) without species of their own, alkalinity assignments of the
           # N and Se families), so balances computed from the parsed species list disagree with the program for reasons
           # that lie in the reader, not in the library (thorough run of 2026-09-29: 25 fingerprints, all of that kind)
           "sit.dat", "pitzer.dat", "frezchem.dat", "ColdChem.dat", "Concrete_PHR.dat", "Concrete_PZ.dat"]
QUICK_DBS = ["phreeqc.dat", "wateq4f.dat", "minteq.v4.dat"]

PH = [7, 4, 10, 2, 12]
TEMPS = [25, 60, 100, 0]
CONC = [1e-3, 1e-6]
PAIR_PH = [7, 4, 10]
PAIR_T = [25, 75]
BACKGROUND = (("Na", 0.01), ("Cl", 0.01))
SKIP_ELEMENTS = {"H", "O", "E", "Alkalinity"}

# ------------------------------------------------------------------------------------------------ database info
_info = {}


class Info:
    """Everything the case generator and the oracle need from one database, derived from its text only."""

    def __init__(self, name):
        self.name = name
        self.db = db = phrq_db.load(os.path.join(DBDIR, name))
        bad = phrq_db.self_check(db)
        if bad:
            raise phrq_db.DbError("%s: reader cannot balance %d equations, e.g. %s" % (name, len(bad), bad[0]))
        if not db.masters or "H" not in db.masters or "E" not in db.masters:
            raise phrq_db.DbError("%s: not a stand-alone database (no master species)" % name)
        if db.model in ("pitzer", "sit"):
            raise phrq_db.DbError("%s: %s database, outside the statement (ion-association databases)" % (name, db.model.upper()))
        self.primary = {m.element: m for m in db.masters.values() if m.primary and m.kind == "aq"}
        self.elements = [e for e in db.elements if e not in SKIP_ELEMENTS]
        self.valence = {}
        for m in db.masters.values():
            if not m.primary and m.kind == "aq":
                base = m.element.split("(")[0]
                if base in ("H", "O") and m.species in (db.masters["H"].species, db.masters["O"].species):
                    continue      # H(1) / O(-2): carried by the H and O totals, the program reports no separate total
                self.valence.setdefault(base, []).append(m.element)
        ms_names = {m.species for m in db.masters.values()}
        self.aq = []
        self.comp, self.z, self.alk, self.vcomp, self.need, self.redox, self.rx = {}, {}, {}, {}, {}, {}, {}
        self.skipped_species = []
        for e in db.aqueous():
            nm = e.name
            try:
                _, z = phrq_db.parse_formula(nm)
                exp_s = db.expand(nm, True)
                exp_p = db.expand(nm, False)
                undefined = [j for j in e.reaction if j not in db.species] + [j for j in exp_s if j not in ms_names]
                if undefined:
                    self.skipped_species.append(nm)
                    continue
                comp = db.stoichiometry(nm)       # from the equation (manual), not from the formula
                need = set(k for k in comp if k not in ("H", "O"))
                for j in exp_s:
                    need |= set(k for k in phrq_db.parse_formula(j)[0] if k not in ("H", "O", "e"))
                if any(k not in self.primary for k in need):
                    self.skipped_species.append(nm)
                    continue
                self.comp[nm], self.z[nm] = comp, z
                self.alk[nm] = db.alk(nm)
                self.vcomp[nm] = db.valence_composition(nm)
                self.need[nm] = frozenset(need)
                self.redox[nm] = abs(exp_p.get("e-", 0.0)) > 1e-12
                self.rx[nm] = dict(e.reaction)
                self.aq.append(nm)
            except (phrq_db.DbError, KeyError) as ex:
                self.skipped_species.append(nm)
        self.master_names = ms_names
        self.hion = db.masters["H"].species            # H+ (H3O+ in iso.dat)
        self.isotopes = "isotopes" in db.blocks
        # lowest lattice temperature: 0 C, or the first point of the LLNL temperature grid (the program refuses lower)
        self.t_low = 0
        if db.llnl and db.llnl.get("temperatures"):
            self.t_low = max(0, min(db.llnl["temperatures"]))
        self.temps = [t if t != 0 else self.t_low for t in TEMPS]
        self.ph = []
        self.pneed, self.prx = {}, {}
        for p in db.phases.values():
            if any(j not in self.comp for j in p.reaction):
                continue
            need = set()
            for j in p.reaction:
                need |= self.need[j]
            self.pneed[p.name] = frozenset(need)
            self.prx[p.name] = dict(p.reaction)
            self.ph.append(p.name)
        self._lk = {}

    def lk(self, name, T, phase=False):
        key = (name, T, phase)
        v = self._lk.get(key)
        if v is None:
            e = self.db.phases[name] if phase else self.db.species[name]
            v = self._lk[key] = self.db.logk(e, T)
        return v

    def kform(self, name, phase=False):
        e = self.db.phases[name] if phase else self.db.species[name]
        f = "analytic" if e.has_analytic() else ("vanthoff" if e.delta_h != 0.0 else "constant")
        if e.add_logk or e.add_constant:
            f += "+add_logk"
        return f


def info(name):
    i = _info.get(name)
    if i is None:
        i = _info[name] = Info(name)
    return i


# ------------------------------------------------------------------------------------------------ input generation
def fnum(x):
    return repr(float(x)) if not float(x).is_integer() or abs(x) >= 1e15 else "%d" % int(x)


def solution_lines(case, inf):
    """SOLUTION block of a case; returns (lines, present primary elements, separately specified valence states)."""
    L = ["SOLUTION 1", " temp %s" % fnum(case["T"]), " units mol/kgw"]
    adj = case.get("adjust")
    L.append(" pH %s%s" % (fnum(case["pH"]), " charge" if adj == "pH-charge" else ""))
    L.append(" pe %s" % fnum(case["pe"]))
    present = set()
    sep = []
    els = list(case["elements"])
    for el, c in BACKGROUND:
        if el in inf.primary and el not in els:
            L.append(" %s %s%s" % (el, fnum(c), " charge" if (adj == "Cl-charge" and el == "Cl") else ""))
            present.add(el)
    for el in els:
        c = case["conc"]
        if adj == "valence" and el in inf.valence:
            for k, v in enumerate(inf.valence[el]):
                L.append(" %s %s" % (v, fnum(c * (1 + k))))
                sep.append(v)
        elif adj == "co2" and el == "C":
            L.append(" C %s CO2(g) -3.5" % fnum(c))
        elif adj == "Cl-charge" and el == "Cl":
            L.append(" Cl %s charge" % fnum(c))
        else:
            L.append(" %s %s" % (el, fnum(c)))
        present.add(el)
    return L, present, sep


def candidates(inf, present):
    sp = [nm for nm in inf.aq if inf.need[nm] <= present]
    ph = [nm for nm in inf.ph if inf.pneed[nm] <= present]
    return sp, ph


def build_input(case, inf):
    L, present, sep = solution_lines(case, inf)
    sp, ph = candidates(inf, present)
    tot_names = []
    for el in sorted(present) + ["H", "O"]:
        tot_names.append(el)
        for v in inf.valence.get(el, []):
            tot_names.append(v)
    L += ["SELECTED_OUTPUT 1", " -reset false", " -high_precision true", " -pH true", " -pe true", " -temperature true",
          " -alkalinity true", " -ionic_strength true", " -water true", " -charge_balance true"]

    def chunks(xs, n=12):
        for i in range(0, len(xs), n):
            yield xs[i:i + n]
    sel_tot = [t for t in tot_names if t not in ("H", "O")]
    for ch in chunks(sel_tot):
        L.append(" -totals " + " ".join(ch))
    for ch in chunks(sp):
        L.append(" -molalities " + " ".join(ch))
    for ch in chunks(sp):
        L.append(" -activities " + " ".join(ch))
    for ch in chunks(ph):
        L.append(" -saturation_indices " + " ".join(ch))
    items = ["TC", "TK", "MU", "CHARGE_BALANCE", "ALK", 'TOT("water")', 'LA("H2O")', 'LA("%s")' % inf.hion, 'LA("e-")', 'MOL("H2O")']
    layout = {"glob": len(items)}
    for t in tot_names:
        items.append('TOT("%s")' % t)
    for nm in sp:
        items += ['LA("%s")' % nm, 'LM("%s")' % nm, 'LG("%s")' % nm, 'MOL("%s")' % nm, 'LK_SPECIES("%s")' % nm]
    for nm in ph:
        items += ['SI("%s")' % nm, 'SR("%s")' % nm, 'LK_PHASE("%s")' % nm]
    L.append("USER_PUNCH 1")
    n = 10
    for ch in chunks(items, 6):
        L.append(" %d PUNCH %s" % (n, ", ".join(ch)))
        n += 10
    L.append("END")
    layout.update({"tot": tot_names, "sel_tot": sel_tot, "sp": sp, "ph": ph, "sep": sep, "present": sorted(present), "n_items": len(items)})
    return "\n".join(L) + "\n", layout


# ------------------------------------------------------------------------------------------------ oracle
def isnum(x):
    return isinstance(x, (int, float)) and not isinstance(x, bool)


def judge(case, inf, layout, head, row):
    """Returns (problems, diagnostics, n_relations_checked, outcome key)."""
    problems, diags = [], []
    nrel = [0]
    dbn = inf.name
    capped = {}

    def prob(rel, what, who, text):
        k = capped.get(rel, 0)
        capped[rel] = k + 1
        if k < 3:
            problems.append(("%s db=%s %s=%s" % (rel, dbn, what, who), text))

    col = {}
    for i, h in enumerate(head):
        col.setdefault(h, i)
    up = [i for i, h in enumerate(head) if h.startswith("no_heading")]
    if len(up) != layout["n_items"]:
        raise RuntimeError("USER_PUNCH columns: expected %d, table has %d" % (layout["n_items"], len(up)))
    vals = [row[i] for i in up]
    if not all(isnum(v) for v in vals):
        raise RuntimeError("non-numeric USER_PUNCH cell: %r" % [v for v in vals if not isnum(v)][:3])
    it = iter(vals)
    TC, TK, MU, CB, ALK, WATER, LAW, LAH, LAE, MOLW = [next(it) for _ in range(layout["glob"])]
    TOT = {t: next(it) for t in layout["tot"]}
    S = {}
    for nm in layout["sp"]:
        S[nm] = dict(la=next(it), lm=next(it), lg=next(it), mol=next(it), lk=next(it))
    P = {}
    for nm in layout["ph"]:
        P[nm] = dict(si=next(it), sr=next(it), lk=next(it))

    def sel(name):
        i = col.get(name)
        if i is None:
            raise RuntimeError("selected-output column %r missing (have %r ...)" % (name, head[:8]))
        return row[i]

    T = case["T"] + phrq_db.CONSTANTS["celsius_to_kelvin"]
    if TC != case["T"] or abs(TK - T) > 1e-9:
        diags.append("temperature read-out TC=%r TK=%r for input %r" % (TC, TK, case["T"]))
    tag = "pH=%s T=%s pe=%s conc=%s elements=%s%s" % (case["pH"], case["T"], case["pe"], case.get("conc"), "+".join(case["elements"]),
                                                     " adjust=" + case["adjust"] if case.get("adjust") else "")
    # activities available for mass action
    la = {"H2O": LAW, inf.hion: LAH, "e-": LAE}
    present = {}
    for nm, d in S.items():
        if nm in ("H2O", "e-"):
            continue
        if d["la"] != -99.99:                          # exact sentinel of LA() for a species that is not in the model
            present[nm] = d
            la[nm] = d["la"]
    sep_el = {v.split("(")[0] for v in layout["sep"]}

    # (iii-a) pH read-outs
    nrel[0] += 2
    if abs(sel("pH") + LAH) > TOL_LOG:
        prob("pH-vs-logaH", "readout", "pH", "selected-output pH %r but -LA(\"%s\") = %r (%s)" % (sel("pH"), inf.hion, -LAH, tag))
    if abs(sel("pe") + LAE) > TOL_LOG:
        prob("pe-vs-logae", "readout", "pe", "selected-output pe %r but -LA(\"e-\") = %r (%s)" % (sel("pe"), -LAE, tag))

    # (i) mass action + LK_SPECIES, (iii-b) log a = log m + log gamma, read-out consistency
    for nm, d in present.items():
        rx = inf.rx[nm]
        if d["mol"] > 1e-290:
            nrel[0] += 1
            if abs(math.log10(d["mol"]) - d["lm"]) > TOL_LOG:
                prob("MOL-vs-LM", "species", nm, "MOL=%r but LM=%r (log10 MOL=%r) (%s)" % (d["mol"], d["lm"], math.log10(d["mol"]), tag))
        nrel[0] += 3
        if abs(d["la"] - (d["lm"] + d["lg"])) > TOL_LOG:
            prob("logA-ne-logM+logG", "species", nm, "LA=%r LM=%r LG=%r: LA-(LM+LG)=%.3e (%s)" % (d["la"], d["lm"], d["lg"], d["la"] - d["lm"] - d["lg"], tag))
        sm = sel("m_%s(mol/kgw)" % nm)
        if abs(sm - d["mol"]) > TOL_REL * abs(d["mol"]):
            prob("sel-molality-vs-MOL", "species", nm, "-molalities column %r but MOL() %r (%s)" % (sm, d["mol"], tag))
        sa = sel("la_%s" % nm)
        if abs(sa - d["la"]) > TOL_LOG:
            prob("sel-activity-vs-LA", "species", nm, "-activities column %r but LA() %r (%s)" % (sa, d["la"], tag))
        if len(rx) == 1 and abs(rx.get(nm, 0.0) - 1.0) < 1e-12:
            continue                                   # master species written as identity
        redox_rx = "e-" in rx
        if layout["sep"] and (redox_rx or inf.redox[nm]) and (set(inf.comp[nm]) & sep_el):
            continue                                   # couple deliberately not at the solution pe
        missing = [j for j in rx if j not in la]
        if missing:
            diags.append("%s: %s present but reactant(s) %s absent (%s)" % (dbn, nm, missing, tag))
            continue
        k_db = inf.lk(nm, T)
        nrel[0] += 2
        resid = d["la"] - sum(nu * la[j] for j, nu in rx.items()) - k_db
        if abs(resid) > TOL_LOG:
            prob("mass-action", "species", nm,
                 "log a(%s) = %r, sum nu log a(reactants) = %r, database log K(%s K) = %r [%s, line %d: %s]: residual %.3e log units (%s)" % (
                     nm, d["la"], sum(nu * la[j] for j, nu in rx.items()), T, k_db, inf.kform(nm), inf.db.species[nm].line,
                     inf.db.species[nm].equation, resid, tag))
        if abs(d["lk"] - k_db) > TOL_LOG:
            prob("LK_SPECIES", "species", nm, "LK_SPECIES = %r, database log K(%s K) = %r [%s, line %d]: difference %.3e (%s)" % (
                d["lk"], T, k_db, inf.kform(nm), inf.db.species[nm].line, d["lk"] - k_db, tag))

    # (ii) balances over the species
    mol = {nm: d["mol"] for nm, d in present.items()}
    mol_w = dict(mol)
    mol_w["H2O"] = MOLW

    def balance(rel, who, lhs_terms, reported, extra=""):
        s = math.fsum(lhs_terms)
        scale = math.fsum(abs(x) for x in lhs_terms)
        nrel[0] += 1
        if abs(s - reported) > TOL_REL * max(scale, abs(reported)) and max(scale, abs(reported)) > 1e-95:
            prob(rel, "element" if rel.startswith("total") else "quantity", who,
                 "sum over species = %r but reported %s = %r (difference %.3e, scale %.3e)%s (%s)" % (s, who, reported, s - reported, scale, extra, tag))

    unknown_valence = set()
    for nm in present:
        e = inf.db.species[nm]
        if e.mole_balance:
            for k in phrq_db.parse_formula(e.mole_balance, valence=True)[0]:
                if "(" not in k and k in inf.valence:
                    unknown_valence.add(k)
    for t in layout["tot"]:
        if "(" in t:
            if t.split("(")[0] in unknown_valence:
                continue
            terms = [inf.vcomp[nm].get(t, 0.0) * m for nm, m in mol.items() if inf.vcomp[nm].get(t)]
        elif t in ("H", "O"):
            if inf.isotopes:
                continue      # ISOTOPES databases: after speciation the H and O totals are reduced to the major isotope
            terms = [inf.comp[nm].get(t, 0.0) * m for nm, m in mol_w.items() if nm in inf.comp and inf.comp[nm].get(t)]
        else:
            terms = [inf.comp[nm].get(t, 0.0) * m for nm, m in mol.items() if inf.comp[nm].get(t)]
        balance("total-TOT", t, terms, TOT[t])
        if t in layout["sel_tot"]:
            balance("total-selected-output", t, terms, sel("%s(mol/kgw)" % t))
    zt = [inf.z[nm] * m for nm, m in mol.items() if inf.z[nm]]
    balance("charge-balance", "CHARGE_BALANCE", [x * WATER for x in zt], CB)
    balance("charge-balance-selected-output", "charge(eq)", [x * WATER for x in zt], sel("charge(eq)"))
    it_ = [0.5 * inf.z[nm] ** 2 * m for nm, m in mol.items() if inf.z[nm]]
    balance("ionic-strength", "MU", it_, MU)
    balance("ionic-strength-selected-output", "mu", it_, sel("mu"))
    at = [inf.alk[nm] * m for nm, m in mol.items() if inf.alk[nm]]
    balance("alkalinity", "ALK", at, ALK)
    balance("alkalinity-selected-output", "Alk(eq/kgw)", at, sel("Alk(eq/kgw)"))

    # (iii-c) phases: SI = log IAP - log K(T), SR = 10^SI, LK_PHASE = database K(T)
    nph = 0
    for nm, d in P.items():
        rx = inf.prx[nm]
        if any(j not in la for j in rx):
            continue
        if d["si"] <= -99.0 and d["sr"] == 0.0:
            continue                                   # phase not in the model
        if layout["sep"] and any((j == "e-" or inf.redox.get(j, False)) and (set(inf.comp.get(j, {})) & sep_el or j == "e-") for j in rx):
            continue
        nph += 1
        k_db = inf.lk(nm, T, phase=True)
        iap = sum(nu * la[j] for j, nu in rx.items())
        nrel[0] += 4
        ph = inf.db.phases[nm]
        if abs(d["si"] - (iap - k_db)) > TOL_LOG:
            prob("SI", "phase", nm, "SI = %r but log IAP = %r and database log K(%s K) = %r [%s, line %d: %s] give %r: difference %.3e (%s)" % (
                d["si"], iap, T, k_db, inf.kform(nm, True), ph.line, ph.equation, iap - k_db, d["si"] - (iap - k_db), tag))
        if abs(d["lk"] - k_db) > TOL_LOG:
            prob("LK_PHASE", "phase", nm, "LK_PHASE = %r, database log K(%s K) = %r [%s, line %d]: difference %.3e (%s)" % (
                d["lk"], T, k_db, inf.kform(nm, True), ph.line, d["lk"] - k_db, tag))
        if d["sr"] > 1e-290 and abs(math.log10(d["sr"]) - d["si"]) > TOL_LOG:
            prob("SR-vs-SI", "phase", nm, "SR = %r (log10 %r) but SI = %r (%s)" % (d["sr"], math.log10(d["sr"]), d["si"], tag))
        ss = sel("si_%s" % nm)
        if abs(ss - d["si"]) > TOL_LOG:
            prob("sel-si-vs-SI", "phase", nm, "-saturation_indices column %r but SI() %r (%s)" % (ss, d["si"], tag))
    outcome = core.sha(repr((len(present), nph, ["%.5g" % d["la"] for d in present.values()][:40], "%.6g" % MU)))
    return problems, diags, nrel[0], outcome, len(present), nph


# ------------------------------------------------------------------------------------------------ case runner
_loaded = {}


def get_instance(dbname):
    """Driver with slot 0 holding an instance that has `dbname` loaded (one instance per worker, reloaded on change)."""
    d = core.get_drv("rel")
    st = _loaded.get("cur")
    if st is None or st[0] is not d or st[1] is not d.proc or st[2] != dbname:
        d.reset()
        d.new("c")
        rc = d.call("s0", "c", "LoadDatabase", os.path.join(DBDIR, dbname))
        if rc != 0:
            raise RuntimeError("database %s does not load: %s" % (dbname, d.call("s0", "c", "GetErrorString")[:300]))
        _loaded["cur"] = (d, d.proc, dbname, len(d.log))
    d.log = d.log[:_loaded["cur"][3]]                       # replay script = new, load + this case's run
    return d


def run_case(case):
    inf = info(case["db"])
    d = get_instance(case["db"])
    text, layout = build_input(case, inf)
    rc = d.call("s0", "c", "RunString", text)
    key = core.sha(repr(sorted(case.items())))
    res = {"case": case, "problems": [], "ops": 1, "states": [key], "script": d.script(), "diagnostics": []}
    if rc != 0 or isinstance(rc, dict):
        err = d.call("s0", "c", "GetErrorString") if not isinstance(rc, dict) else "exit"
        res["not_completed"] = True
        res["outcome"] = "not-completed:" + core.sha(" ".join(err.split()[:12]))
        res["nc_reason"] = " ".join(err.split())[:160]
        # a failed run can leave the engine in a state where later initial solutions inherit damage: reload
        _loaded.pop("cur", None)
        return res
    t = d.obs("s0", "c", "t")["sel"].get("1")
    if not t or len(t["table"]) != 2:
        raise RuntimeError("selected output 1: expected heading + 1 row, got %r" % (t and len(t["table"])))
    head, row = t["table"]
    problems, diags, nrel, outcome, nsp, nph = judge(case, inf, layout, head, row)
    res.update({"problems": problems, "diagnostics": diags[:3], "outcome": outcome, "relations": nrel,
                "sample": {"case": case, "species_present": nsp, "phases_judged": nph, "relations_checked": nrel,
                           "input": text if len(text) < 3000 else text[:3000] + "..."}})
    return res


# ------------------------------------------------------------------------------------------------ enumeration
def species_cases(inf, tier):
    """Lattice A.  One case per distinct (element set, conc, pH, T, pe); the element sets are those of the species."""
    sets = {}
    for nm in inf.aq:
        els = tuple(sorted(inf.need[nm]))
        redox = inf.redox[nm] or any(el in inf.valence for el in els)
        sets[els] = sets.get(els, False) or redox
    out = []
    for els, redox in sets.items():
        pes = [4, -2, 12] if redox else [4]
        for (conc, ph, T, pe) in core.product(CONC, PH, inf.temps, pes):
            if not els and conc != CONC[0]:
                continue
            out.append({"db": inf.name, "lat": "A", "elements": list(els), "conc": conc, "pH": ph, "T": T, "pe": pe})
    return out, len(sets)


def pair_cases(inf, tier):
    out = []
    els = inf.elements
    for i in range(len(els)):
        for j in range(i + 1, len(els)):
            for ph, T in core.product(PAIR_PH, PAIR_T):
                out.append({"db": inf.name, "lat": "B", "elements": [els[i], els[j]], "conc": 1e-3, "pH": ph, "T": T, "pe": 4})
    return out


def adjusted_cases(inf, tier):
    out = []
    for el in inf.elements:
        for adj in ("pH-charge", "Cl-charge", "co2", "valence"):
            if adj == "Cl-charge" and "Cl" not in inf.primary:
                continue
            if adj == "co2" and ("C" not in inf.primary or "CO2(g)" not in inf.db.phases):
                continue
            if adj == "valence" and el not in inf.valence:
                continue
            els = [el] if adj != "co2" or el == "C" else [el, "C"]
            for ph, T in core.product(PAIR_PH, [25, 60]):
                out.append({"db": inf.name, "lat": "C", "elements": els, "conc": 1e-3, "pH": ph, "T": T, "pe": 4, "adjust": adj})
    return out


def simplicity(c):
    return (len(c["elements"]), c.get("adjust") is not None, c["pe"] != 4, c["T"] != 25, c["pH"] != 7, c["conc"] != 1e-3)


def run(tier):
    ev = core.Evidence(PROP, tier)
    findings = core.Findings(PROP)
    ev.assumptions = [
        "constants taken from the implementation (not derivable from the database text): gas constant R = %g kJ/(mol K) in the van 't Hoff relation, "
        "reference temperature %g K, %g J/cal for delta_h given in (k)cal, 0 C = %g K" % (
            phrq_db.CONSTANTS["R_kJ_per_mol_K"], phrq_db.CONSTANTS["T_ref_K"], phrq_db.CONSTANTS["J_per_cal"], phrq_db.CONSTANTS["celsius_to_kelvin"]),
        "pressure is 1 atm in every run (temperatures <= 100 C): the program applies the -Vm pressure term of log K only when P - 1 atm > 0, i.e. exactly "
        "no pressure correction at 1 atm; -Vm / -dw / -viscosity / -millero data are therefore ignored by the oracle",
        "an analytical expression supersedes log_k/delta_h of the same species (manual); -add_logk adds coef x the named expression evaluated the same way; "
        "-ln_alpha1000 gives 1000 ln(alpha) with the five documented coefficients",
        "alkalinity contribution of a species = sum of the alkalinities assigned in SOLUTION_MASTER_SPECIES over its reaction written in master species "
        "(secondary master species keep their own assigned value)",
        "mole balance per valence state attributes each atom to the master species it came from; -mole_balance formulas are authoritative",
        "balance residuals are taken relative to the sum of the absolute terms of the balance (charge, alkalinity) = the total itself for element totals and ionic strength",
        "relations for which the statement gives no number (pH = -log a(H+), SI = log IAP - log K, SR = 10^SI, log a = log m + log gamma) use the mass-action tolerance 1e-9 log units",
        "H2O and e- are excluded from log a = log m + log gamma (no molality-based activity coefficient)",
        "species / phases whose reactions involve a species the database does not define are left out of the claim",
    ]
    pool = core.Pool()
    dl = core.Deadline(170 if tier == "quick" else 1700)
    names = QUICK_DBS if tier == "quick" else ALL_DBS
    skipped, used = {}, []
    nc_reasons = {}
    tot_rel = 0
    for name in names:
        try:
            inf = info(name)
        except phrq_db.DbError as ex:
            skipped[name] = str(ex)[:200]
            continue
        used.append(name)
        latt = []
        a, nsets = species_cases(inf, tier)
        latt.append(("A species: %d distinct element sets of %d aqueous species x conc %s x pH %s x T %s x pe 4 (+ -2, 12 for redox-sensitive sets)" % (
            nsets, len(inf.aq), CONC, PH, inf.temps), a))
        if tier == "thorough" or name == "phreeqc.dat":
            latt.append(("B pairs: all unordered pairs of %d elements x pH %s x T %s" % (len(inf.elements), PAIR_PH, PAIR_T), pair_cases(inf, tier)))
            latt.append(("C adjusted: %d elements x {pH charge, Cl charge, C at CO2(g) -3.5, valence states entered separately} x pH %s x T [25, 60]" % (
                len(inf.elements), PAIR_PH), adjusted_cases(inf, tier)))
        for title, cs in latt:
            cs.sort(key=simplicity)
            n0, nc0 = ev.traces, ev.not_completed
            done = False
            if not dl.passed():
                done = explore_with_reasons(cs, ev, findings, pool, dl, nc_reasons)
            ev.bound("%s %s" % (name, title), done, cases=len(cs), completed_runs=ev.traces - n0 - (ev.not_completed - nc0),
                     not_completed=ev.not_completed - nc0)
            nrun = ev.traces - n0
            if done and nrun and (ev.not_completed - nc0) > 0.5 * nrun:
                raise SystemExit("HARNESS ERROR: %s %s: %d of %d runs did not complete - the lattice is broken, not the property" % (
                    name, title[:10], ev.not_completed - nc0, nrun))
    ev.extra["databases_checked"] = used
    ev.extra["databases_skipped"] = skipped
    ev.extra["not_completed_reasons"] = dict(sorted(nc_reasons.items(), key=lambda kv: -kv[1])[:12])
    ev.extra["relations_checked"] = _relations[0]
    ev.extra["species_left_out"] = {n: len(info(n).skipped_species) for n in used if info(n).skipped_species}
    ev.extra["lattice"] = {"conc": CONC, "pH": PH, "T_C": TEMPS, "pe": [4, -2, 12], "pair_pH": PAIR_PH, "pair_T": PAIR_T,
                           "background": BACKGROUND, "tolerances": {"log_units": TOL_LOG, "relative": TOL_REL}}
    if len(ev.outcomes) < 0.5 * max(1, ev.traces - ev.not_completed):
        raise SystemExit("HARNESS ERROR: only %d distinct outcomes in %d completed runs" % (len(ev.outcomes), ev.traces - ev.not_completed))
    if not used:
        raise SystemExit("HARNESS ERROR: no database could be read")
    pool.close()
    return core.finish(ev, findings)


_relations = [0]


def explore_with_reasons(cs, ev, findings, pool, dl, nc_reasons):
    """explore_cases + bookkeeping of the reasons of not-completed runs and the number of relations evaluated."""
    # wrap the pool's map so that we can look at each result without changing core
    orig_map = pool.map

    def spy(f, items, chunksize=1, ordered=False):
        for r in orig_map(f, items, chunksize, ordered):
            if isinstance(r, dict):
                if r.get("not_completed"):
                    k = r.get("nc_reason", "?")[:100]
                    nc_reasons[k] = nc_reasons.get(k, 0) + 1
                _relations[0] += r.get("relations", 0)
            yield r
    pool.map = spy
    try:
        return core.explore_cases(cs, run_case, ev, findings, pool, chunksize=16, deadline=dl)
    finally:
        pool.map = orig_map


def replay(path):
    return core.replay_main(PROP, path, run_case)
