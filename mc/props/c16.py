"""C16  Activity-coefficient models follow their defining equations and Gibbs-Duhem.

Shape L (lattice), two parts, everything executed on the real library through the driver:

  IA  ion-association databases: for every aqueous species of the database (grouped in the maximal element sets that make
      them present) x ionic-strength lattice (NaCl 1e-4..1 m, 9 points; CaCl2 3 points) x temperature lattice, the reported
      LG(species) is compared with the model the database *text* assigns to the species, evaluated at the reported MU, DH_A,
      DH_B (LLNL: also with A, B, Bdot interpolated from the LLNL arrays of the text) - tolerance 1e-9.
  GD  Pitzer / SIT databases: composition paths (single salts, binary mixtures at fixed ratio, mixing paths at fixed total
      molality) in geometric steps from 1e-4 to 6 mol/kgw; on every path segment the integrated Gibbs-Duhem relation
      delta[(phi-1) sum m] = integral sum_i m_i d ln gamma_i over *all* aqueous species (relative 1e-4 of the segment's total
      variation), and at every path point a_w = exp(-M_w phi sum m) (relative 1e-5).

The oracle relations live in mc/oracles/c16_models.py (written from the manual / textbook, not from the engine).
"""
import math
import os

from .. import core, build
from ..oracles import phrq_db
from ..oracles import c16_models as cm

PROP = "C16"
DBDIR = os.path.join(build.REPO, "database")

TOL_LG = 1e-9          # statement: log gamma equals the model (1e-9)
TOL_GD = 1e-4          # statement: Gibbs-Duhem, relative 1e-4
TOL_AW = 1e-5          # statement: water activity (1e-5)

# ------------------------------------------------------------------------------------------------ lattices
IA_DBS_QUICK = ["phreeqc.dat", "wateq4f.dat", "llnl.dat"]
IA_DBS_ALL = ["phreeqc.dat", "wateq4f.dat", "llnl.dat", "minteq.v4.dat", "minteq.dat", "Amm.dat", "phreeqc_rates.dat",
              "Tipping_Hurley.dat", "iso.dat", "core10.dat", "Kinec.v2.dat", "Kinec_v3.dat",
              "PHREEQC_ThermoddemV1.10_15Dec2020.dat", "minimum.dat"]
IA_NACL = [1e-4, 3e-4, 1e-3, 3e-3, 1e-2, 3e-2, 0.1, 0.3, 1.0]
IA_CACL2 = [1e-3, 3e-2, 0.3]
IA_T = [25, 60, 100, 0]
IA_TRACE = 1e-6        # mol/kgw of every element of the set

GD_DBS = ["pitzer.dat", "sit.dat", "frezchem.dat", "ColdChem.dat", "Concrete_PZ.dat"]
GD_T = {"pitzer.dat": [25, 60, 100, 0], "sit.dat": [25, 60, 100, 0], "Concrete_PZ.dat": [25, 60, 100, 0],
        "frezchem.dat": [25, 0], "ColdChem.dat": [25, 0]}
OVERLAY = {"Concrete_PZ.dat": "pitzer.dat"}      # add-on files: read on top of the named database, as their header says
M_LO, M_HI = 1e-4, 6.0
SEG = 8                # fine steps per judged path segment (Romberg over h, 2h, 4h)
CHUNK_SEGS = 150       # segments per engine call

# salts: element totals per formula unit; "S6" / "C4" are resolved per database (S(6) or S, C(4) or C)
SALTS = {
    "NaCl": {"Na": 1, "Cl": 1}, "KCl": {"K": 1, "Cl": 1}, "MgCl2": {"Mg": 1, "Cl": 2}, "CaCl2": {"Ca": 1, "Cl": 2},
    "Na2SO4": {"Na": 2, "S6": 1}, "MgSO4": {"Mg": 1, "S6": 1}, "NaHCO3": {"Na": 1, "C4": 1}, "KBr": {"K": 1, "Br": 1},
    "HCl": {"Cl": 1}, "NaOH": {"Na": 1}, "K2SO4": {"K": 2, "S6": 1}, "NaBr": {"Na": 1, "Br": 1},
    "NaAl(OH)4": {"Na": 1, "Al": 1}, "KAl(OH)4": {"K": 1, "Al": 1},
}
MAIN = ["NaCl", "KCl", "MgCl2", "CaCl2", "Na2SO4", "MgSO4", "NaHCO3", "KBr"]
EXTRA = ["HCl", "NaOH", "K2SO4", "NaBr"]
AL = ["NaAl(OH)4", "KAl(OH)4"]

# ------------------------------------------------------------------------------------------------ database info (text only)
_info = {}


class Info:
    def __init__(self, name):
        self.name = name
        base = OVERLAY.get(name)
        if base:
            db = phrq_db.load(os.path.join(DBDIR, base))
            ov = phrq_db.load(os.path.join(DBDIR, name))
            for el, m in ov.masters.items():
                db.masters[el] = m
                if m.primary and m.kind == "aq" and el not in db.elements:
                    db.elements.append(el)
            db.species.update(ov.species)
            db._exp_cache.clear()
        else:
            db = phrq_db.load(os.path.join(DBDIR, name))
        self.db = db
        bad = phrq_db.self_check(db)
        if bad:
            raise phrq_db.DbError("%s: reader cannot balance %d equations, e.g. %s" % (name, len(bad), bad[0]))
        if "H" not in db.masters or "E" not in db.masters:
            raise phrq_db.DbError("%s: not a stand-alone database" % name)
        self.table, self.skipped = cm.aqueous_table(db, phrq_db.parse_formula)
        self.by_name = {s.name: s for s in self.table}
        self.primary = {m.element for m in db.masters.values() if m.primary and m.kind == "aq"}
        self.model = db.model
        self.llnl = db.llnl if db.llnl and db.llnl.get("temperatures") else None
        self.t_low = 0
        if self.llnl:
            self.t_low = max(0, min(self.llnl["temperatures"]))

    def candidates(self, present):
        return [s for s in self.table if s.need <= present]

    def el(self, tag):
        """database name of a salt's element tag"""
        if tag == "S6":
            return "S(6)" if "S(6)" in self.db.masters else "S"
        if tag == "C4":
            return "C(4)" if "C(4)" in self.db.masters else "C"
        return tag

    def has(self, tag):
        e = self.el(tag)
        return e.split("(")[0] in self.primary


def info(name):
    i = _info.get(name)
    if i is None:
        i = _info[name] = Info(name)
    return i


def fnum(x):
    return repr(float(x))


# ------------------------------------------------------------------------------------------------ engine access
_loaded = {}


def get_instance(dbname):
    d = core.get_drv("rel")
    st = _loaded.get("cur")
    if st is None or st[0] is not d or st[1] is not d.proc or st[2] != dbname:
        d.reset()
        d.new("c")
        base = OVERLAY.get(dbname, dbname)
        rc = d.call("s0", "c", "LoadDatabase", os.path.join(DBDIR, base))
        if rc != 0:
            raise RuntimeError("database %s does not load: %s" % (base, d.call("s0", "c", "GetErrorString")[:300]))
        if base != dbname:
            rc = d.call("s0", "c", "RunFile", os.path.join(DBDIR, dbname))
            if rc != 0:
                raise RuntimeError("add-on %s does not run on %s: %s" % (dbname, base, d.call("s0", "c", "GetErrorString")[:300]))
        _loaded["cur"] = (d, d.proc, dbname, len(d.log))
    d.log = d.log[:_loaded["cur"][3]]
    return d


def punch_block(items):
    L = ["SELECTED_OUTPUT 1", " -reset false", " -high_precision true", " -solution true", "USER_PUNCH 1"]
    n = 10
    for i in range(0, len(items), 6):
        L.append(" %d PUNCH %s" % (n, ", ".join(items[i:i + 6])))
        n += 10
    return L


def run_table(d, text, nrows, nitems):
    """-> (rows of USER_PUNCH values, None) or (None, reason)"""
    rc = d.call("s0", "c", "RunString", text)
    if rc != 0 or isinstance(rc, dict):
        err = d.call("s0", "c", "GetErrorString") if not isinstance(rc, dict) else "exit"
        _loaded.pop("cur", None)
        return None, " ".join(err.split())[:160]
    t = d.obs("s0", "c", "t")["sel"].get("1")
    if not t or len(t["table"]) != nrows + 1:
        raise RuntimeError("selected output 1: expected heading + %d rows, got %r" % (nrows, t and len(t["table"])))
    head = t["table"][0]
    up = [i for i, h in enumerate(head) if h.startswith("no_heading")]
    if len(up) != nitems or head[0] != "soln":
        raise RuntimeError("USER_PUNCH columns: expected %d, table has %d (first heading %r)" % (nitems, len(up), head[0]))
    rows = []
    for k, r in enumerate(t["table"][1:]):
        soln = r[0]["l"] if isinstance(r[0], dict) else r[0]
        if soln != k + 1:
            raise RuntimeError("row %d belongs to solution %r" % (k, soln))
        vals = [r[i] for i in up]
        if not all(isinstance(v, (int, float)) and not isinstance(v, bool) for v in vals):
            raise RuntimeError("non-numeric USER_PUNCH cell in row %d: %r" % (k, [v for v in vals if not isinstance(v, (int, float))][:3]))
        rows.append(vals)
    return rows, None


# ------------------------------------------------------------------------------------------------ part IA
def ia_background(inf):
    """[(label, {element: molality})] ionic-strength lattice of the database"""
    out = []
    if "Na" in inf.primary and "Cl" in inf.primary:
        out += [("NaCl %g" % m, {"Na": m, "Cl": m}) for m in IA_NACL]
    elif "K" in inf.primary and "Cl" in inf.primary:
        out += [("KCl %g" % m, {"K": m, "Cl": m}) for m in IA_NACL]
    if "Ca" in inf.primary and "Cl" in inf.primary:
        out += [("CaCl2 %g" % m, {"Ca": m, "Cl": 2 * m}) for m in IA_CACL2]
    return out


def ia_input(case, inf):
    bgs = ia_background(inf)
    present = set(case["elements"])
    for _, bg in bgs:
        present |= set(bg)
    L = []
    for k, (label, bg) in enumerate(bgs):
        L += ["SOLUTION %d" % (k + 1), " temp %s" % fnum(case["T"]), " units mol/kgw", " pH 7", " pe 4"]
        for el in sorted(set(case["elements"]) | set(bg)):
            L.append(" %s %s" % (el, fnum(bg.get(el, IA_TRACE))))
    sp = [s for s in inf.candidates(present) if s.kind is not None]
    items = ["MU", "DH_A", "DH_B", "TC", "TK"]
    for s in sp:
        items += ['LM("%s")' % s.name, 'LG("%s")' % s.name]
    L += punch_block(items)
    L.append("END")
    return "\n".join(L) + "\n", bgs, sp, len(items)


def ia_judge(case, inf, bgs, sp, rows):
    problems, diags = [], []
    nrel = 0
    seen = {}
    sig = []
    dbn = inf.name

    def prob(model, text):
        k = seen.get(model, 0)
        seen[model] = k + 1
        if k < 2:
            problems.append(("lg-vs-model model=%s db=%s" % (model, dbn), text))

    npresent = 0
    for (label, bg), vals in zip(bgs, rows):
        MU, A, B, TC, TK = vals[:5]
        tag = "T=%s background=%s elements=%s" % (case["T"], label, "+".join(case["elements"]))
        if abs(TC - case["T"]) > 1e-9:
            diags.append("temperature read-out TC=%r for input %r (%s)" % (TC, case["T"], tag))
        la = None
        if inf.llnl:
            la = cm.llnl_interp(inf.llnl, TC)
            co2 = inf.llnl.get("co2_coefs")
        it = iter(vals[5:])
        for s in sp:
            lm, lg = next(it), next(it)
            if lm == -99.99:
                continue
            npresent += 1
            if s.kind.startswith("llnl"):
                if la is None:
                    raise RuntimeError("%s: %s has an LLNL option but the database has no LLNL arrays" % (dbn, s.name))
                # (a) at the reported constants, (b) at the constants interpolated from the database arrays
                want = cm.lg_model(s.kind, s.z, s.a, s.b, MU, A, B, bdot=la[2], co2=co2, tk=TK)
                want2 = cm.lg_model(s.kind, s.z, s.a, s.b, MU, la[0], la[1], bdot=la[2], co2=co2, tk=TK)
                nrel += 2
                if abs(lg - want2) > TOL_LG and abs(lg - want) <= TOL_LG:
                    prob(s.kind + "/database-arrays", "%s (line %d, %s a=%g): LG = %r matches the model at the reported DH_A=%r DH_B=%r but the LLNL arrays "
                         "of the database interpolated at %s C give A=%r B=%r and log gamma = %r (difference %.3e) (MU=%r, %s)" % (
                             s.name, s.line, s.kind, s.a, lg, A, B, TC, la[0], la[1], want2, lg - want2, MU, tag))
            else:
                want = cm.lg_model(s.kind, s.z, s.a, s.b, MU, A, B)
                nrel += 1
            if abs(lg - want) > TOL_LG:
                prob(s.kind, "%s (line %d, z=%g, model %s a=%g b=%g): LG = %r but the model at the reported MU=%r DH_A=%r DH_B=%r gives %r: "
                     "difference %.3e (%s)" % (s.name, s.line, s.z, s.kind, s.a, s.b, lg, MU, A, B, want, lg - want, tag))
        sig.append("%.9g" % MU)
    return problems, diags, nrel, npresent, sig


def run_ia(case):
    inf = info(case["db"])
    d = get_instance(case["db"])
    text, bgs, sp, nitems = ia_input(case, inf)
    keys = [core.sha("ia %s %s %s %s" % (case["db"], case["T"], "+".join(case["elements"]), lab)) for lab, _ in bgs]
    res = {"case": case, "problems": [], "ops": len(bgs), "states": keys, "diagnostics": []}
    rows, why = run_table(d, text, len(bgs), nitems)
    res["script"] = d.script()
    if rows is None:
        res.update({"not_completed": True, "outcome": "not-completed:" + core.sha(why[:60]), "nc_reason": why})
        return res
    problems, diags, nrel, npresent, sig = ia_judge(case, inf, bgs, sp, rows)
    res.update({"problems": problems, "diagnostics": diags[:2], "relations": nrel, "judged": npresent,
                "outcome": core.sha(repr((case["db"], case["T"], sorted(s.name for s in sp), sig))),
                "sample": {"case": case, "solutions": len(bgs), "species_punched": len(sp), "species_x_solutions_judged": npresent,
                           "relations_checked": nrel, "MU": sig, "input_head": text[:600]}})
    return res


def ia_cases(inf):
    sets = set(s.need for s in inf.table if s.kind is not None)
    mx = sorted((tuple(sorted(a)) for a in sets if not any(a < b for b in sets)), key=lambda t: (len(t), t))
    temps = []
    for t in IA_T:
        t = inf.t_low if t == 0 else t
        if t not in temps:
            temps.append(t)
    out = []
    for T in temps:
        for els in mx:
            out.append({"part": "ia", "db": inf.name, "elements": list(els), "T": T})
    covered = set()
    for s in inf.table:
        if s.kind is not None:
            covered.add(s.name)
    return out, len(mx), len(covered), temps


# ------------------------------------------------------------------------------------------------ part GD
def path_points(path, tier):
    """[{salt: molality}] fine points of a path, number of fine steps a multiple of SEG"""
    ratio = 1.01 if tier == "quick" else 1.002
    if path["kind"] == "dilution":
        n = int(math.ceil(math.log(M_HI / M_LO) / math.log(ratio)))
        n = ((n + SEG - 1) // SEG) * SEG
        r = (M_HI / M_LO) ** (1.0 / n)
        tot = sum(path["mix"].values())
        return [{s: M_LO * r ** k * w / tot for s, w in path["mix"].items()} for k in range(n + 1)]
    # mixing path: total salt molality fixed, fraction x of salt B from x0 to 1-x0
    n = 400 if tier == "quick" else 2000
    (a, b) = path["salts"]
    x0 = 0.0025
    return [{a: path["total"] * (1 - (x0 + (1 - 2 * x0) * k / n)), b: path["total"] * (x0 + (1 - 2 * x0) * k / n)} for k in range(n + 1)]


def path_label(path):
    if path["kind"] == "dilution":
        return "dilution " + " + ".join("%g %s" % (w, s) for s, w in path["mix"].items())
    return "mixing %s -> %s at %g mol/kgw" % (path["salts"][0], path["salts"][1], path["total"])


def path_salts(path):
    return list(path["mix"]) if path["kind"] == "dilution" else list(path["salts"])


def gd_input(case, inf, pts):
    els = {}
    L = []
    for k, p in enumerate(pts):
        tot = {}
        for salt, m in p.items():
            for tag, nu in SALTS[salt].items():
                e = inf.el(tag)
                tot[e] = tot.get(e, 0.0) + nu * m
        L += ["SOLUTION %d" % (k + 1), " temp %s" % fnum(case["T"]), " units mol/kgw", " pH 7 charge"]
        for e in sorted(tot):
            L.append(" %s %s" % (e, fnum(tot[e])))
        els = tot
    present = set(e.split("(")[0] for e in els)
    sp = [s for s in inf.candidates(present) if s.name not in ("H2O", "e-")]
    items = ["MU", "OSMOTIC", 'ACT("H2O")', "TC", "CHARGE_BALANCE", 'SYS("aq")']
    for s in sp:
        items += ['MOL("%s")' % s.name, 'LG("%s")' % s.name]
    L += punch_block(items)
    L.append("END")
    return "\n".join(L) + "\n", sp, len(items)


def gd_judge(case, inf, sp, rows, first_seg):
    problems, diags = [], []
    dbn = inf.name
    salts = path_salts(case["path"])
    ions = "+".join(sorted(set(inf.el(t) for s in salts for t in SALTS[s])))
    label = "%s, T=%s C" % (path_label(case["path"]), case["T"])
    n = len(rows)
    m = [r[6::2] for r in rows]
    lng = [[x * cm.LN10 for x in r[7::2]] for r in rows]
    summ = [math.fsum(x) for x in m]
    phi = [r[1] for r in rows]
    aw = [r[2] for r in rows]
    lhs = [(p - 1.0) * s for p, s in zip(phi, summ)]
    naw = 0
    worst_aw = 0.0
    # vacuity: the species list derived from the database text must carry the solute inventory the program reports
    for k in (0, n - 1):
        sysaq = rows[k][5]
        if abs(sysaq - summ[k]) > 1e-6 * sysaq:
            raise RuntimeError("%s %s: the species of the database text sum to %r mol/kgw but the program reports SYS(\"aq\") = %r at point %d" % (
                dbn, label, summ[k], sysaq, k))
    for k in range(n):
        want = math.exp(-cm.M_WATER * phi[k] * summ[k])
        rel = abs(want / aw[k] - 1.0)
        naw += 1
        if rel > worst_aw:
            worst_aw = rel
        if rel > TOL_AW and not any(p[0].startswith("water-activity") for p in problems):
            problems.append(("water-activity-vs-osmotic db=%s" % dbn,
                             "%s, point %d (MU=%r, sum m=%r): ACT(\"H2O\") = %r but exp(-M_w phi sum m) = %r with OSMOTIC = %r, "
                             "M_w = %g kg/mol: relative difference %.3e > %g" % (label, case["first"] + k, rows[k][0], summ[k], aw[k], want, phi[k],
                                                                                 cm.M_WATER, want / aw[k] - 1.0, TOL_AW)))
    nseg = (n - 1) // SEG
    worst = (0.0, None)
    unresolved = 0
    for sgi in range(nseg):
        i0 = sgi * SEG
        resid, var, quad, dl, integ = cm.gd_segment(m, lng, lhs, i0, SEG)
        if var <= 0.0:
            raise RuntimeError("%s %s: no variation of any activity coefficient on segment %d" % (dbn, label, sgi))
        if quad > 0.1 * TOL_GD * var:
            unresolved += 1
            continue
        rel = abs(resid) / var
        if rel > worst[0]:
            worst = (rel, sgi)
        if rel > TOL_GD and not any(p[0].startswith("gibbs-duhem") for p in problems):
            big = sorted(range(len(sp)), key=lambda j: -abs(0.5 * (m[i0][j] + m[i0 + SEG][j]) * (lng[i0 + SEG][j] - lng[i0][j])))[:4]
            problems.append(("gibbs-duhem db=%s ions=%s" % (dbn, ions),
                             "%s, segment of points %d..%d (MU %r..%r): delta[(phi-1) sum m] = %r but integral of sum_i m_i d ln gamma_i = %r; "
                             "residual %.3e = %.3e of the segment's total variation %.3e (tolerance %g); largest terms: %s" % (
                                 label, case["first"] + i0, case["first"] + i0 + SEG, rows[i0][0], rows[i0 + SEG][0], dl, integ, resid, rel, var, TOL_GD,
                                 ", ".join("%s m=%.4g dlng=%.3e" % (sp[j].name, m[i0][j], lng[i0 + SEG][j] - lng[i0][j]) for j in big))))
    return problems, diags, nseg, naw, unresolved, worst, worst_aw


def run_gd(case):
    inf = info(case["db"])
    d = get_instance(case["db"])
    pts_all = path_points(case["path"], case["tier"])
    pts = pts_all[case["first"]:case["last"] + 1]
    text, sp, nitems = gd_input(case, inf, pts)
    key0 = "gd %s %s %s" % (case["db"], case["T"], path_label(case["path"]))
    res = {"case": case, "problems": [], "ops": len(pts), "states": [core.sha("%s %d" % (key0, case["first"] + k)) for k in range(len(pts))],
           "diagnostics": []}
    rows, why = run_table(d, text, len(pts), nitems)
    # the replay script of a path chunk is large; keep it (it is the artefact), the core stores it only for candidates
    res["script"] = d.script()
    if rows is None:
        res.update({"not_completed": True, "outcome": "not-completed:" + core.sha(why[:60]), "nc_reason": why})
        return res
    problems, diags, nseg, naw, unresolved, worst, worst_aw = gd_judge(case, inf, sp, rows, case["first"] // SEG)
    res.update({"problems": problems, "diagnostics": diags[:2], "relations": nseg - unresolved + naw, "segments": nseg, "unresolved": unresolved,
                "worst_gd": worst[0], "worst_aw": worst_aw,
                "outcome": core.sha(repr((key0, case["first"], ["%.6g" % r[1] for r in rows[::SEG]]))),
                "sample": {"case": case, "points": len(pts), "species_in_sums": [s.name for s in sp][:30], "segments_judged": nseg - unresolved,
                           "worst_gibbs_duhem_relative_residual": worst[0], "worst_water_activity_relative_difference": worst_aw,
                           "first_point": dict(zip(["MU", "OSMOTIC", "ACT_H2O"], rows[0][:3])), "last_point": dict(zip(["MU", "OSMOTIC", "ACT_H2O"], rows[-1][:3])),
                           "input_head": text[:300]}})
    return res


def gd_paths(inf, tier):
    ok = lambda s: all(inf.has(t) for t in SALTS[s])
    main = [s for s in MAIN if ok(s)]
    extra = [s for s in EXTRA + AL if ok(s)]
    if "Al" not in inf.primary:
        extra = [s for s in extra if s not in AL]
    paths = []
    for s in main + extra:
        paths.append({"kind": "dilution", "mix": {s: 1}})
    pairs = [(a, b) for i, a in enumerate(main) for b in main[i + 1:]]
    pairs += [(a, b) for a in extra if a in AL for b in ("NaCl", "NaOH", "KCl") if ok(b)]
    pairs += [(a, b) for a, b in (("HCl", "NaCl"), ("NaOH", "NaCl"), ("HCl", "MgCl2"), ("NaOH", "Na2SO4"), ("K2SO4", "MgSO4")) if ok(a) and ok(b)]
    ratios = [(1, 1)] if tier == "quick" else [(1, 1), (1, 3), (3, 1)]
    for a, b in pairs:
        for wa, wb in ratios:
            paths.append({"kind": "dilution", "mix": {a: wa, b: wb}})
    totals = [1.0] if tier == "quick" else [1.0, 4.0]
    mixing = pairs if tier != "quick" else [p for p in pairs if p[0] in ("NaCl", "MgCl2") or p[0] in AL]
    for a, b in mixing:
        for tot in totals:
            paths.append({"kind": "mixing", "salts": [a, b], "total": tot})
    return paths


def gd_cases(inf, tier):
    out = []
    temps = GD_T[inf.name]
    paths = gd_paths(inf, tier)
    for pi, path in enumerate(paths):
        ts = temps if (tier != "quick" or path["kind"] == "dilution" and len(path["mix"]) == 1) else temps[:1]
        npts = len(path_points(path, tier))
        nseg = (npts - 1) // SEG
        for T in ts:
            for c0 in range(0, nseg, CHUNK_SEGS):
                c1 = min(nseg, c0 + CHUNK_SEGS)
                out.append({"part": "gd", "db": inf.name, "tier": tier, "path": path, "T": T, "first": c0 * SEG, "last": c1 * SEG})
    out.sort(key=lambda c: (c["path"]["kind"] != "dilution", len(path_salts(c["path"])), c["T"] != 25, c["first"]))
    return out, len(paths)


# ------------------------------------------------------------------------------------------------ driver
def run_case(case):
    return run_ia(case) if case["part"] == "ia" else run_gd(case)


_stats = {"relations": 0, "judged": 0, "segments": 0, "unresolved": 0, "worst_gd": {}, "worst_aw": {}, "nc": {}}


def explore(cs, ev, findings, pool, dl, chunksize):
    orig_map = pool.map

    def spy(f, items, chunksize=1, ordered=False):
        for r in orig_map(f, items, chunksize, ordered):
            if isinstance(r, dict) and "case" in r and isinstance(r["case"], dict) and "db" in r["case"]:
                dbn = r["case"]["db"]
                if r.get("not_completed"):
                    k = "%s: %s" % (dbn, r.get("nc_reason", "?")[:100])
                    _stats["nc"][k] = _stats["nc"].get(k, 0) + 1
                _stats["relations"] += r.get("relations", 0)
                _stats["judged"] += r.get("judged", 0)
                _stats["segments"] += r.get("segments", 0)
                _stats["unresolved"] += r.get("unresolved", 0)
                if "worst_gd" in r:
                    _stats["worst_gd"][dbn] = max(_stats["worst_gd"].get(dbn, 0.0), r["worst_gd"])
                    _stats["worst_aw"][dbn] = max(_stats["worst_aw"].get(dbn, 0.0), r["worst_aw"])
            yield r
    pool.map = spy
    try:
        return core.explore_cases(cs, run_case, ev, findings, pool, chunksize=chunksize, deadline=dl)
    finally:
        pool.map = orig_map


def run(tier):
    ev = core.Evidence(PROP, tier)
    findings = core.Findings(PROP)
    ev.assumptions = list(cm.ASSUMPTIONS) + [
        "ion-association part: the Debye-Hueckel A and B are the program's own read-outs DH_A, DH_B (the statement says 'at the reported "
        "ionic strength and Debye-Hueckel constants'); their temperature dependence is not re-derived",
        "Gibbs-Duhem part: every path point is an electroneutral solution (pH adjusted to charge balance) at 1 atm; the integral is a Romberg-"
        "extrapolated symmetric Stieltjes sum over %d fine steps per segment; a segment whose quadrature uncertainty exceeds 10%% of the "
        "tolerance is not judged (counted as unresolved)" % SEG,
        "the segment's total variation is sum over fine steps and species of |mean m_i x delta ln gamma_i|",
        "Concrete_PZ.dat is an add-on: it is read on top of pitzer.dat as its header prescribes",
    ]
    pool = core.Pool()
    dl = core.Deadline(170 if tier == "quick" else 1700)
    skipped, used = {}, []
    # ---- part IA
    for name in (IA_DBS_QUICK if tier == "quick" else IA_DBS_ALL):
        try:
            inf = info(name)
            if inf.model in ("pitzer", "sit"):
                raise phrq_db.DbError("%s is a %s database" % (name, inf.model))
            if not ia_background(inf):
                raise phrq_db.DbError("%s: no NaCl / KCl background electrolyte available" % name)
        except phrq_db.DbError as ex:
            skipped[name] = str(ex)[:200]
            continue
        used.append(name)
        cs, nsets, nspecies, temps = ia_cases(inf)
        nbg = len(ia_background(inf))
        n0, nc0, j0 = ev.traces, ev.not_completed, _stats["judged"]
        done = False
        if not dl.passed():
            done = explore(cs, ev, findings, pool, dl, 8)
        nrun = ev.traces - n0
        ev.bound("IA %s: %d species in %d maximal element sets x %d ionic-strength points (NaCl %s; CaCl2 %s) x T %s" % (
            name, nspecies, nsets, nbg, IA_NACL, IA_CACL2, temps), done, cases=len(cs), lattice_points=len(cs) * nbg,
            completed_runs=(nrun - (ev.not_completed - nc0)) * nbg, not_completed_runs=(ev.not_completed - nc0) * nbg,
            species_x_solutions_judged=_stats["judged"] - j0)
        if done and nrun and (ev.not_completed - nc0) > 0.5 * nrun:
            raise SystemExit("HARNESS ERROR: IA %s: %d of %d runs did not complete - the lattice is broken, not the property" % (
                name, ev.not_completed - nc0, nrun))
        if done and _stats["judged"] - j0 < nspecies:
            raise SystemExit("HARNESS ERROR: IA %s: only %d species read-outs judged for %d species" % (name, _stats["judged"] - j0, nspecies))
    # ---- part GD
    for name in GD_DBS:
        try:
            inf = info(name)
        except phrq_db.DbError as ex:
            skipped[name] = str(ex)[:200]
            continue
        used.append(name)
        cs, npaths = gd_cases(inf, tier)
        n0, nc0, t0, s0, u0 = ev.traces, ev.not_completed, ev.transitions, _stats["segments"], _stats["unresolved"]
        done = False
        if not dl.passed():
            done = explore(cs, ev, findings, pool, dl, 1)
        nrun = ev.traces - n0
        ev.bound("GD %s: %d composition paths (%s) x T %s, %s..%s mol/kgw in geometric steps of %s, segments of %d steps" % (
            name, npaths, "single salts, binary mixtures at fixed ratio, mixing at fixed total", GD_T[name], M_LO, M_HI,
            1.01 if tier == "quick" else 1.002, SEG), done, cases=len(cs), lattice_points=ev.transitions - t0,
            completed_chunks=nrun - (ev.not_completed - nc0), not_completed_chunks=ev.not_completed - nc0,
            segments_judged=_stats["segments"] - s0 - (_stats["unresolved"] - u0), segments_unresolved=_stats["unresolved"] - u0,
            worst_gibbs_duhem_relative_residual=_stats["worst_gd"].get(name), worst_water_activity_relative_difference=_stats["worst_aw"].get(name))
        if done and nrun and (ev.not_completed - nc0) > 0.5 * nrun:
            raise SystemExit("HARNESS ERROR: GD %s: %d of %d path chunks did not complete" % (name, ev.not_completed - nc0, nrun))
        if done and _stats["unresolved"] - u0 > 0.02 * max(1, _stats["segments"] - s0):
            raise SystemExit("HARNESS ERROR: GD %s: %d of %d segments have an unresolved quadrature" % (name, _stats["unresolved"] - u0, _stats["segments"] - s0))
    ev.extra["databases_checked"] = used
    ev.extra["databases_skipped"] = skipped
    ev.extra["not_completed_reasons"] = dict(sorted(_stats["nc"].items(), key=lambda kv: -kv[1])[:12])
    ev.extra["relations_checked"] = _stats["relations"]
    ev.extra["tolerances"] = {"log_gamma": TOL_LG, "gibbs_duhem_relative": TOL_GD, "water_activity_relative": TOL_AW}
    ev.extra["species_left_out"] = {n: len(info(n).skipped) for n in used if info(n).skipped}
    done_traces = ev.traces - ev.not_completed
    if len(ev.outcomes) < 0.5 * max(1, done_traces):
        raise SystemExit("HARNESS ERROR: only %d distinct outcomes in %d completed cases" % (len(ev.outcomes), done_traces))
    if not used:
        raise SystemExit("HARNESS ERROR: no database could be read")
    pool.close()
    return core.finish(ev, findings)


def replay(path):
    return core.replay_main(PROP, path, run_case)
