"""C16  Activity-coefficient models follow their defining equations and Gibbs-Duhem.

Shape L (lattice), two parts, everything executed on the real library through the driver:

  IA  ion-association databases: for every aqueous species of the database (grouped in the maximal element sets that make
      them present) x ionic-strength lattice (NaCl 1e-4..1 m, 9 points; CaCl2 3 points) x temperature lattice, the reported
      LG(species) is compared with the model the database *text* assigns to the species, evaluated at the reported MU, DH_A,
      DH_B (LLNL: also with A, B, Bdot interpolated from the LLNL arrays of the text) - tolerance 1e-9.
  GD  Pitzer / SIT databases: composition paths (single salts, binary mixtures at fixed ratio, mixing paths at fixed total
      molality) in geometric steps from 1e-4 to 6 mol/kgw; on every path from the dilute end to each of 18 (mixing: 4) segment
      boundaries the integrated Gibbs-Duhem relation delta[(phi-1) sum m] = integral sum_i m_i d ln gamma_i over *all* aqueous
      species (relative 1e-4 of the path's total variation), and at every path point a_w = exp(-M_w phi sum m) (relative 1e-5).

The oracle relations live in mc/oracles/c16_models.py (written from the manual / textbook, not from the engine).
"""
import math
import os

from .. import core, build, drv
from ..oracles import phrq_db
from ..oracles import c16_models as cm

PROP = "C16"
DBDIR = os.path.join(build.REPO, "database")

TOL_LG = 1e-9          # statement: log gamma equals the model (1e-9)
TOL_GD = 1e-4          # statement: Gibbs-Duhem, relative 1e-4
TOL_AW = 1e-5          # statement: water activity (1e-5)

# ------------------------------------------------------------------------------------------------ lattices
IA_DBS_QUICK = ["phreeqc.dat", "wateq4f.dat", "llnl.dat"]
IA_DBS_ALL = ["phreeqc.dat", "wateq4f.dat", "llnl.dat", "minteq.v4.dat", "minteq.dat", "Amm.dat", "phreeqc_rates.dat",
              "Tipping_Hurley.dat", "core10.dat", "Kinec.v2.dat", "Kinec_v3.dat",
              "PHREEQC_ThermoddemV1.10_15Dec2020.dat"]
# left out: iso.dat (2189 of its 2294 species are isotopologues that only appear with isotope-ratio input), minimum.dat (no
# chloride: no background electrolyte of the lattice), Concrete_PHR.dat (add-on without aqueous species)
IA_NACL = [1e-4, 3e-4, 1e-3, 3e-3, 1e-2, 3e-2, 0.1, 0.3, 1.0]
IA_CACL2 = [1e-3, 3e-2, 0.3]
IA_T = [25, 60, 100, 0]
IA_T_LLNL = [40]       # off-grid temperature for databases with LLNL arrays (grid 0.01, 25, 60, 100, ...): exercises the interpolation
IA_TRACE = 1e-6        # mol/kgw of every element of the set

GD_DBS = ["pitzer.dat", "frezchem.dat", "ColdChem.dat", "Concrete_PZ.dat", "sit.dat"]      # sit.dat last: 2 ms per solution
GD_T = {"pitzer.dat": [25, 60, 100, 0], "sit.dat": [25, 60, 100, 0], "Concrete_PZ.dat": [25, 60, 100, 0],
        "frezchem.dat": [25, 0], "ColdChem.dat": [25, 0]}
OVERLAY = {"Concrete_PZ.dat": "pitzer.dat"}      # add-on files: read on top of the named database, as their header says
M_LO, M_HI = 1e-4, 6.0
# A path is cut into segments of fixed extent in both tiers (a factor ~1.84 in molality on dilution paths, a quarter of the
# mixing range on mixing paths); the tiers differ in the number of fine steps (computed solutions) inside a segment.
# Judged are the paths from the first point to every segment boundary (the classical "osmotic coefficient from activity
# coefficients by Gibbs-Duhem integration" test at 18 end points).  A single short segment is not judged on its own: at a
# stationary point of the activity coefficients (gamma+- minimum of KCl near 2.3 m) both sides of the relation and the total
# variation vanish together and a relative residual is meaningless (calibration: see `calibration_notes` in the evidence).
SEG_Q, SEG_T = 64, 192                    # fine steps per segment, quick / thorough (Romberg over h, 2h, 4h)
SEG_Q_SIT, SEG_T_SIT = 32, 64             # the same for sit.dat (2 ms per solution instead of 0.2 ms)
DIL_SEGS = 18                   # segments per dilution path
MIX_SEGS = 4                    # segments per mixing path
CHUNK_POINTS = 1200             # path points (SOLUTION blocks) per engine call

# salts: element totals per formula unit; "S6" / "C4" are resolved per database (S(6) or S, C(4) or C)
SALTS = {
    "NaCl": {"Na": 1, "Cl": 1}, "KCl": {"K": 1, "Cl": 1}, "MgCl2": {"Mg": 1, "Cl": 2}, "CaCl2": {"Ca": 1, "Cl": 2},
    "Na2SO4": {"Na": 2, "S6": 1}, "MgSO4": {"Mg": 1, "S6": 1}, "NaHCO3": {"Na": 1, "C4": 1}, "KBr": {"K": 1, "Br": 1},
    "HCl": {"Cl": 1}, "NaOH": {"Na": 1}, "K2SO4": {"K": 2, "S6": 1}, "NaBr": {"Na": 1, "Br": 1},
    "NaAl(OH)4": {"Na": 1, "Al": 1}, "KAl(OH)4": {"K": 1, "Al": 1},
}
MAIN = ["NaCl", "KCl", "MgCl2", "CaCl2", "Na2SO4", "MgSO4", "NaHCO3", "KBr"]
EXTRA = ["HCl", "NaOH", "K2SO4", "NaBr"]
AL = ["NaAl(OH)4", "KAl(OH)4"]

# ------------------------------------------------------------------------------------------------ database info (text only)
_info = {}


class Info:
    def __init__(self, name):
        self.name = name
        base = OVERLAY.get(name)
        if base:
            db = phrq_db.load(os.path.join(DBDIR, base))
            ov = phrq_db.load(os.path.join(DBDIR, name))
            for el, m in ov.masters.items():
                db.masters[el] = m
                if m.primary and m.kind == "aq" and el not in db.elements:
                    db.elements.append(el)
            db.species.update(ov.species)
            db._exp_cache.clear()
        else:
            db = phrq_db.load(os.path.join(DBDIR, name))
        self.db = db
        bad = phrq_db.self_check(db)
        if bad:
            raise phrq_db.DbError("%s: reader cannot balance %d equations, e.g. %s" % (name, len(bad), bad[0]))
        if "H" not in db.masters or "E" not in db.masters:
            raise phrq_db.DbError("%s: not a stand-alone database" % name)
        self.table, self.skipped = cm.aqueous_table(db, phrq_db.parse_formula)
        self.by_name = {s.name: s for s in self.table}
        self.primary = {m.element for m in db.masters.values() if m.primary and m.kind == "aq"}
        self.model = db.model
        self.llnl = db.llnl if db.llnl and db.llnl.get("temperatures") else None
        self.t_low = 0
        if self.llnl:
            self.t_low = max(0, min(self.llnl["temperatures"]))

    def candidates(self, present):
        return [s for s in self.table if s.need <= present]

    def el(self, tag):
        """database name of a salt's element tag"""
        if tag == "S6":
            return "S(6)" if "S(6)" in self.db.masters else "S"
        if tag == "C4":
            return "C(4)" if "C(4)" in self.db.masters else "C"
        return tag

    def has(self, tag):
        e = self.el(tag)
        return e.split("(")[0] in self.primary


def info(name):
    i = _info.get(name)
    if i is None:
        i = _info[name] = Info(name)
    return i


def fnum(x):
    return repr(float(x))


# ------------------------------------------------------------------------------------------------ engine access
_loaded = {}


def get_instance(dbname):
    d = core.get_drv("rel")
    st = _loaded.get("cur")
    if st is None or st[0] is not d or st[1] is not d.proc or st[2] != dbname:
        d.reset()
        d.new("c")
        base = OVERLAY.get(dbname, dbname)
        rc = d.call("s0", "c", "LoadDatabase", os.path.join(DBDIR, base))
        if rc != 0:
            raise RuntimeError("database %s does not load: %s" % (base, d.call("s0", "c", "GetErrorString")[:300]))
        if base != dbname:
            rc = d.call("s0", "c", "RunFile", os.path.join(DBDIR, dbname))
            if rc != 0:
                raise RuntimeError("add-on %s does not run on %s: %s" % (dbname, base, d.call("s0", "c", "GetErrorString")[:300]))
        _loaded["cur"] = (d, d.proc, dbname, len(d.log))
    d.log = d.log[:_loaded["cur"][3]]
    return d


def punch_block(items):
    L = ["SELECTED_OUTPUT 1", " -reset false", " -high_precision true", " -solution true", "USER_PUNCH 1"]
    n = 10
    for i in range(0, len(items), 6):
        L.append(" %d PUNCH %s" % (n, ", ".join(items[i:i + 6])))
        n += 10
    return L


def run_table(d, text, nrows, nitems):
    """-> (rows of USER_PUNCH values, None) or (None, reason)"""
    rc = d.call("s0", "c", "RunString", text)
    if rc != 0 or isinstance(rc, dict):
        err = d.call("s0", "c", "GetErrorString") if not isinstance(rc, dict) else "exit"
        _loaded.pop("cur", None)
        return None, " ".join(err.split())[:160]
    t = d.obs("s0", "c", "t")["sel"].get("1")
    if not t or len(t["table"]) != nrows + 1:
        raise RuntimeError("selected output 1: expected heading + %d rows, got %r" % (nrows, t and len(t["table"])))
    head = t["table"][0]
    up = [i for i, h in enumerate(head) if h.startswith("no_heading")]
    if len(up) != nitems or head[0] != "soln":
        raise RuntimeError("USER_PUNCH columns: expected %d, table has %d (first heading %r)" % (nitems, len(up), head[0]))
    rows = []
    for k, r in enumerate(t["table"][1:]):
        soln = r[0]["l"] if isinstance(r[0], dict) else r[0]
        if soln != k + 1:
            raise RuntimeError("row %d belongs to solution %r" % (k, soln))
        vals = [r[i] for i in up]
        if not all(isinstance(v, (int, float)) and not isinstance(v, bool) for v in vals):
            raise RuntimeError("non-numeric USER_PUNCH cell in row %d: %r" % (k, [v for v in vals if not isinstance(v, (int, float))][:3]))
        rows.append(vals)
    return rows, None


# ------------------------------------------------------------------------------------------------ part IA
def ia_background(inf):
    """[(label, {element: molality})] ionic-strength lattice of the database"""
    out = []
    if "Na" in inf.primary and "Cl" in inf.primary:
        out += [("NaCl %g" % m, {"Na": m, "Cl": m}) for m in IA_NACL]
    elif "K" in inf.primary and "Cl" in inf.primary:
        out += [("KCl %g" % m, {"K": m, "Cl": m}) for m in IA_NACL]
    if "Ca" in inf.primary and "Cl" in inf.primary:
        out += [("CaCl2 %g" % m, {"Ca": m, "Cl": 2 * m}) for m in IA_CACL2]
    return out


def ia_input(case, inf):
    bgs = ia_background(inf)
    present = set(case["elements"])
    for _, bg in bgs:
        present |= set(bg)
    L = []
    for k, (label, bg) in enumerate(bgs):
        L += ["SOLUTION %d" % (k + 1), " temp %s" % fnum(case["T"]), " units mol/kgw", " pH 7", " pe 4"]
        for el in sorted(set(case["elements"]) | set(bg)):
            L.append(" %s %s" % (el, fnum(bg.get(el, IA_TRACE))))
    sp = [s for s in inf.candidates(present) if s.kind is not None]
    items = ["MU", "DH_A", "DH_B", "TC", "TK"]
    for s in sp:
        items += ['LM("%s")' % s.name, 'LG("%s")' % s.name]
    L += punch_block(items)
    L.append("END")
    return "\n".join(L) + "\n", bgs, sp, len(items)


def ia_judge(case, inf, bgs, sp, rows):
    problems, diags = [], []
    nrel = 0
    seen = {}
    sig = []
    dbn = inf.name

    def prob(model, text):
        k = seen.get(model, 0)
        seen[model] = k + 1
        if k < 1:
            problems.append(("lg-vs-model model=%s db=%s" % (model, dbn), text))

    npresent = 0
    present_names = set()
    for (label, bg), vals in zip(bgs, rows):
        MU, A, B, TC, TK = vals[:5]
        tag = "T=%s background=%s elements=%s" % (case["T"], label, "+".join(case["elements"]))
        if abs(TC - case["T"]) > 1e-9:
            diags.append("temperature read-out TC=%r for input %r (%s)" % (TC, case["T"], tag))
        la = None
        if inf.llnl:
            la = cm.llnl_interp(inf.llnl, TC)
            co2 = inf.llnl.get("co2_coefs")
        it = iter(vals[5:])
        for s in sp:
            lm, lg = next(it), next(it)
            if lm == -99.99:
                continue
            npresent += 1
            present_names.add(s.name)
            if s.kind.startswith("llnl"):
                if la is None:
                    raise RuntimeError("%s: %s has an LLNL option but the database has no LLNL arrays" % (dbn, s.name))
                # (a) at the reported constants, (b) at the constants interpolated from the database arrays
                want = cm.lg_model(s.kind, s.z, s.a, s.b, MU, A, B, bdot=la[2], co2=co2, tk=TK)
                want2 = cm.lg_model(s.kind, s.z, s.a, s.b, MU, la[0], la[1], bdot=la[2], co2=co2, tk=TK)
                nrel += 2
                if abs(lg - want2) > TOL_LG and abs(lg - want) <= TOL_LG:
                    prob(s.kind + "/database-arrays", "%s (line %d, %s a=%g): LG = %r matches the model at the reported DH_A=%r DH_B=%r but the LLNL arrays "
                         "of the database interpolated at %s C give A=%r B=%r and log gamma = %r (difference %.3e) (MU=%r, %s)" % (
                             s.name, s.line, s.kind, s.a, lg, A, B, TC, la[0], la[1], want2, lg - want2, MU, tag))
            else:
                want = cm.lg_model(s.kind, s.z, s.a, s.b, MU, A, B)
                nrel += 1
            if abs(lg - want) > TOL_LG:
                prob(s.kind, "%s (line %d, z=%g, model %s a=%g b=%g): LG = %r but the model at the reported MU=%r DH_A=%r DH_B=%r gives %r: "
                     "difference %.3e (%s)" % (s.name, s.line, s.z, s.kind, s.a, s.b, lg, MU, A, B, want, lg - want, tag))
        sig.append("%.9g" % MU)
    return problems, diags, nrel, npresent, sig, sorted(present_names)


def run_ia(case):
    inf = info(case["db"])
    d = get_instance(case["db"])
    text, bgs, sp, nitems = ia_input(case, inf)
    keys = [core.sha("ia %s %s %s %s" % (case["db"], case["T"], "+".join(case["elements"]), lab)) for lab, _ in bgs]
    res = {"case": case, "problems": [], "ops": len(bgs), "states": keys, "diagnostics": []}
    rows, why = run_table(d, text, len(bgs), nitems)
    res["script"] = d.script()
    if rows is None:
        res.update({"not_completed": True, "outcome": "not-completed:" + core.sha(why[:60]), "nc_reason": why})
        return res
    problems, diags, nrel, npresent, sig, names = ia_judge(case, inf, bgs, sp, rows)
    res.update({"problems": problems, "diagnostics": diags[:2], "relations": nrel, "judged": npresent, "present": names,
                "outcome": core.sha(repr((case["db"], case["T"], sorted(s.name for s in sp), sig))),
                "sample": {"case": case, "solutions": len(bgs), "species_punched": len(sp), "species_x_solutions_judged": npresent,
                           "relations_checked": nrel, "MU": sig, "input_head": text[:600]}})
    return res


def ia_cases(inf):
    sets = set(s.need for s in inf.table if s.kind is not None)
    mx = sorted((tuple(sorted(a)) for a in sets if not any(a < b for b in sets)), key=lambda t: (len(t), t))
    temps = []
    for t in IA_T:
        t = inf.t_low if t == 0 else t
        if t not in temps:
            temps.append(t)
    if inf.llnl:
        temps += [t for t in IA_T_LLNL if t not in temps]
    out = []
    for T in temps:
        for els in mx:
            out.append({"part": "ia", "db": inf.name, "elements": list(els), "T": T})
    covered = set()
    for s in inf.table:
        if s.kind is not None:
            covered.add(s.name)
    return out, len(mx), len(covered), temps


# ------------------------------------------------------------------------------------------------ part GD
def seg_steps(tier, inf):
    if tier == "quick":
        return SEG_Q_SIT if inf.model == "sit" else SEG_Q
    return SEG_T_SIT if inf.model == "sit" else SEG_T


def path_points(path, K):
    """[{salt: molality}] fine points of a path with K fine steps per segment"""
    if path["kind"] == "dilution":
        n = DIL_SEGS * K                 # geometric step (6e4)^(1/n): 1.0096 quick, 1.0032 thorough
        r = (M_HI / M_LO) ** (1.0 / n)
        tot = sum(path["mix"].values())
        return [{s: M_LO * r ** k * w / tot for s, w in path["mix"].items()} for k in range(n + 1)]
    # mixing path: total salt molality fixed, fraction x of salt B from x0 to 1-x0
    n = MIX_SEGS * K
    (a, b) = path["salts"]
    x0 = 0.0025
    return [{a: path["total"] * (1 - (x0 + (1 - 2 * x0) * k / n)), b: path["total"] * (x0 + (1 - 2 * x0) * k / n)} for k in range(n + 1)]


def path_label(path):
    if path["kind"] == "dilution":
        return "dilution " + " + ".join("%g %s" % (w, s) for s, w in path["mix"].items())
    return "mixing %s -> %s at %g mol/kgw" % (path["salts"][0], path["salts"][1], path["total"])


def path_salts(path):
    return list(path["mix"]) if path["kind"] == "dilution" else list(path["salts"])


def gd_input(case, inf, pts):
    els = {}
    L = []
    for k, p in enumerate(pts):
        tot = {}
        for salt, m in p.items():
            for tag, nu in SALTS[salt].items():
                e = inf.el(tag)
                tot[e] = tot.get(e, 0.0) + nu * m
        L += ["SOLUTION %d" % (k + 1), " temp %s" % fnum(case["T"]), " units mol/kgw", " pH 7 charge", " pe 2"]
        for e in sorted(tot):
            L.append(" %s %s" % (e, fnum(tot[e])))
        els = tot
    present = set(e.split("(")[0] for e in els)
    sp = [s for s in inf.candidates(present) if s.name not in ("H2O", "e-")]
    items = ["MU", "OSMOTIC", 'ACT("H2O")', "TC", "CHARGE_BALANCE", 'SYS("aq")']
    for s in sp:
        items += ['MOL("%s")' % s.name, 'LG("%s")' % s.name]
    L += punch_block(items)
    L.append("END")
    return "\n".join(L) + "\n", sp, len(items)


def gd_judge(case, inf, sp, rows, SEG):
    problems, diags = [], []
    dbn = inf.name
    salts = path_salts(case["path"])
    ions = "+".join(sorted(set(inf.el(t) for s in salts for t in SALTS[s])))
    label = "%s, T=%s C" % (path_label(case["path"]), case["T"])
    n = len(rows)
    m = [r[6::2] for r in rows]
    lng = [[x * cm.LN10 for x in r[7::2]] for r in rows]
    summ = [math.fsum(x) for x in m]
    phi = [r[1] for r in rows]
    aw = [r[2] for r in rows]
    lhs = [(p - 1.0) * s for p, s in zip(phi, summ)]
    naw = 0
    worst_aw = 0.0
    # vacuity: the species list derived from the database text must carry the solute inventory the program reports
    for k in (0, n - 1):
        sysaq = rows[k][5]
        if abs(sysaq - summ[k]) > 1e-6 * sysaq:
            raise RuntimeError("%s %s: the species of the database text sum to %r mol/kgw but the program reports SYS(\"aq\") = %r at point %d" % (
                dbn, label, summ[k], sysaq, k))
    for k in range(n):
        want = math.exp(-cm.M_WATER * phi[k] * summ[k])
        rel = abs(want / aw[k] - 1.0)
        naw += 1
        if rel > worst_aw:
            worst_aw = rel
        if rel > TOL_AW and not any(p[0].startswith("water-activity") for p in problems):
            problems.append(("water-activity-vs-osmotic db=%s" % dbn,
                             "%s, point %d (MU=%r, sum m=%r): ACT(\"H2O\") = %r but exp(-M_w phi sum m) = %r with OSMOTIC = %r, "
                             "M_w = %g kg/mol: relative difference %.3e > %g" % (label, k, rows[k][0], summ[k], aw[k], want, phi[k],
                                                                                 cm.M_WATER, want / aw[k] - 1.0, TOL_AW)))
    # Gibbs-Duhem in integrated form from the start of the path to every segment boundary
    nseg = (n - 1) // SEG
    worst = 0.0
    worst_local = 0.0
    unresolved = 0
    c_res = c_var = c_quad = 0.0
    for sgi in range(nseg):
        i0 = sgi * SEG
        resid, var, quad, dl, integ = cm.gd_segment(m, lng, lhs, i0, SEG)
        if var <= 0.0:
            raise RuntimeError("%s %s: no variation of any activity coefficient on segment %d" % (dbn, label, sgi))
        c_res += resid
        c_var += var
        c_quad += quad
        worst_local = max(worst_local, abs(resid) / var)
        if c_quad > 0.1 * TOL_GD * c_var:
            unresolved += 1
            continue
        rel = abs(c_res) / c_var
        worst = max(worst, rel)
        if rel > TOL_GD and not any(p[0].startswith("gibbs-duhem") for p in problems):
            i1 = i0 + SEG
            big = sorted(range(len(sp)), key=lambda j: -abs(0.5 * (m[i0][j] + m[i1][j]) * (lng[i1][j] - lng[i0][j])))[:4]
            problems.append(("gibbs-duhem db=%s ions=%s" % (dbn, ions),
                             "%s, path from point 0 to point %d (MU %r..%r, sum m %r..%r): (phi-1) sum m changes by %r but the integral of sum_i m_i d ln gamma_i "
                             "over all %d aqueous species is %r; residual %.3e = %.3e of the total variation %.3e of the path (tolerance %g); last segment alone "
                             "(points %d..%d): residual %.3e, variation %.3e, largest terms: %s" % (
                                 label, i1, rows[0][0], rows[i1][0], summ[0], summ[i1], lhs[i1] - lhs[0], len(sp), lhs[i1] - lhs[0] - c_res, c_res, rel, c_var, TOL_GD,
                                 i0, i1, resid, var,
                                 ", ".join("%s m=%.4g dlng=%.3e" % (sp[j].name, m[i0][j], lng[i1][j] - lng[i0][j]) for j in big))))
    return problems, diags, nseg, naw, unresolved, worst, worst_aw, worst_local


def run_gd(case):
    inf = info(case["db"])
    d = get_instance(case["db"])
    pts = path_points(case["path"], case["K"])
    key0 = "gd %s %s %s" % (case["db"], case["T"], path_label(case["path"]))
    res = {"case": case, "problems": [], "ops": len(pts), "states": [core.sha("%s %d" % (key0, k)) for k in range(len(pts))], "diagnostics": []}
    rows = []
    head = None
    for c0 in range(0, len(pts), CHUNK_POINTS):
        text, sp, nitems = gd_input(case, inf, pts[c0:c0 + CHUNK_POINTS])
        head = head or text[:300]
        part, why = run_table(d, text, len(pts[c0:c0 + CHUNK_POINTS]), nitems)
        if part is None:
            res["script"] = d.script()
            res.update({"not_completed": True, "outcome": "not-completed:" + core.sha(why[:60]), "nc_reason": "points %d..: %s" % (c0, why)})
            return res
        rows += part
    res["script"] = d.script()
    SEG = case["K"]
    problems, diags, nseg, naw, unresolved, worst, worst_aw, worst_local = gd_judge(case, inf, sp, rows, SEG)
    res.update({"problems": problems, "diagnostics": diags[:2], "relations": nseg - unresolved + naw, "segments": nseg, "unresolved": unresolved,
                "worst_gd": worst, "worst_aw": worst_aw, "worst_local": worst_local,
                "outcome": core.sha(repr((key0, ["%.6g" % r[1] for r in rows[::16]]))),
                "sample": {"case": case, "points": len(pts), "species_in_sums": [s.name for s in sp][:30], "path_prefixes_judged": nseg - unresolved,
                           "worst_gibbs_duhem_relative_residual": worst, "worst_single_segment_relative_residual": worst_local,
                           "worst_water_activity_relative_difference": worst_aw,
                           "first_point": dict(zip(["MU", "OSMOTIC", "ACT_H2O"], rows[0][:3])), "last_point": dict(zip(["MU", "OSMOTIC", "ACT_H2O"], rows[-1][:3])),
                           "input_head": head}})
    return res


def gd_paths(inf, tier):
    """[(path, temperatures)] of a database.  Policy: pitzer.dat, frezchem.dat, ColdChem.dat carry the full path alphabet; the add-on
    Concrete_PZ.dat only the paths on which it differs from pitzer.dat (aluminate / hydroxide) plus NaCl as control; sit.dat
    (2 ms per solution) a reduced temperature set for mixtures."""
    ok = lambda s: all(inf.has(t) for t in SALTS[s])
    temps = GD_T[inf.name]
    main = [s for s in MAIN if ok(s)]
    extra = [s for s in EXTRA + AL if ok(s)]
    if "Al" not in inf.primary:
        extra = [s for s in extra if s not in AL]
    pairs = [(a, b) for i, a in enumerate(main) for b in main[i + 1:]]
    pairs += [(a, b) for a in extra if a in AL for b in ("NaCl", "NaOH", "KCl") if ok(b)]
    pairs += [(a, b) for a, b in (("HCl", "NaCl"), ("NaOH", "NaCl"), ("HCl", "MgCl2"), ("NaOH", "Na2SO4"), ("K2SO4", "MgSO4")) if ok(a) and ok(b)]
    singles = main + extra
    if inf.name in OVERLAY:
        keep = lambda salts: any(x in AL or x == "NaOH" for x in salts) or tuple(salts) == ("NaCl",)
        singles = [x for x in singles if keep([x])]
        pairs = [p for p in pairs if keep(p)]
    sit = inf.model == "sit"
    out = []
    if tier == "quick":
        for x in singles:
            out.append(({"kind": "dilution", "mix": {x: 1}}, temps if not sit or x in ("NaCl", "MgSO4") else temps[:1]))
        if sit:
            pairs = [p for p in pairs if p in (("NaCl", "KCl"), ("NaCl", "MgCl2"), ("NaCl", "Na2SO4"), ("CaCl2", "NaHCO3"), ("MgSO4", "KBr"), ("NaOH", "NaCl"))]
        for a, b in pairs:
            out.append(({"kind": "dilution", "mix": {a: 1, b: 1}}, temps[:1]))
        for a, b in pairs:
            if a in ("NaCl", "MgCl2") or a in AL:
                out.append(({"kind": "mixing", "salts": [a, b], "total": 1.0}, temps[:1]))
    else:
        t_mix = [t for t in temps if t in (25, 100)] if sit else temps
        for x in singles:
            out.append(({"kind": "dilution", "mix": {x: 1}}, temps))
        for a, b in pairs:
            for wa, wb in ((1, 1), (1, 3), (3, 1)):
                out.append(({"kind": "dilution", "mix": {a: wa, b: wb}}, t_mix))
        for a, b in pairs:
            for tot in (1.0, 4.0):
                out.append(({"kind": "mixing", "salts": [a, b], "total": tot}, t_mix))
    return out


def gd_cases(inf, tier):
    out = []
    paths = gd_paths(inf, tier)
    K = seg_steps(tier, inf)
    for path, ts in paths:
        for T in ts:
            out.append({"part": "gd", "db": inf.name, "K": K, "path": path, "T": T})
    out.sort(key=lambda c: (c["path"]["kind"] != "dilution", len(path_salts(c["path"])), c["T"] != 25))
    return out, len(paths), K


# ------------------------------------------------------------------------------------------------ driver
def run_case(case):
    return run_ia(case) if case["part"] == "ia" else run_gd(case)


_stats = {"relations": 0, "judged": 0, "segments": 0, "unresolved": 0, "worst_gd": {}, "worst_aw": {}, "worst_local": {}, "nc": {}, "present": {}, "gd_samples": []}


def explore(cs, ev, findings, pool, dl, chunksize):
    orig_map = pool.map

    def spy(f, items, chunksize=1, ordered=False):
        for r in orig_map(f, items, chunksize, ordered):
            if isinstance(r, dict) and "case" in r and isinstance(r["case"], dict) and "db" in r["case"]:
                dbn = r["case"]["db"]
                if r.get("not_completed"):
                    k = "%s: %s" % (dbn, r.get("nc_reason", "?")[:100])
                    _stats["nc"][k] = _stats["nc"].get(k, 0) + 1
                if "present" in r:
                    _stats["present"].setdefault(dbn, set()).update(r["present"])
                _stats["relations"] += r.get("relations", 0)
                _stats["judged"] += r.get("judged", 0)
                _stats["segments"] += r.get("segments", 0)
                _stats["unresolved"] += r.get("unresolved", 0)
                if "worst_gd" in r and "sample" in r and len(_stats["gd_samples"]) < 4 and len(path_salts(r["case"]["path"])) == len(_stats["gd_samples"]) % 2 + 1:
                    _stats["gd_samples"].append(r["sample"])
                if "worst_gd" in r:
                    _stats["worst_gd"][dbn] = max(_stats["worst_gd"].get(dbn, 0.0), r["worst_gd"])
                    _stats["worst_aw"][dbn] = max(_stats["worst_aw"].get(dbn, 0.0), r["worst_aw"])
                    _stats["worst_local"][dbn] = max(_stats["worst_local"].get(dbn, 0.0), r["worst_local"])
            yield r
    pool.map = spy
    try:
        return core.explore_cases(cs, run_case, ev, findings, pool, chunksize=chunksize, deadline=dl)
    finally:
        pool.map = orig_map


def run(tier):
    ev = core.Evidence(PROP, tier)
    findings = core.Findings(PROP)
    ev.assumptions = list(cm.ASSUMPTIONS) + [
        "ion-association part: the Debye-Hueckel A and B are the program's own read-outs DH_A, DH_B (the statement says 'at the reported "
        "ionic strength and Debye-Hueckel constants'); their temperature dependence is not re-derived",
        "Gibbs-Duhem part: every path point is an electroneutral solution (pH adjusted to charge balance) at 1 atm; the integral is a Romberg-"
        "extrapolated symmetric Stieltjes sum over %d (quick) / %d (thorough) fine steps per segment (sit.dat: %d / %d); a path whose "
        "accumulated quadrature uncertainty exceeds 10%% of the tolerance is not judged (counted as unresolved)" % (SEG_Q, SEG_T, SEG_Q_SIT, SEG_T_SIT),
        "judged are the paths from the first point to each of the %d (mixing: %d) segment boundaries (a segment = factor 1.84 in molality / a quarter "
        "of the mixing range); a single short segment is not judged on its own because at a stationary point of the activity coefficients the total "
        "variation vanishes and a relative residual is undefined; the worst single-segment value is reported per bound" % (DIL_SEGS, MIX_SEGS),
        "pe is set to 2 on every path point so that O2 / H2 stay negligible between 6 m HCl and 6 m NaOH (with pe 4 the add-on's O2 reaches 1000 mol/kgw in hot NaOH)",
        "the total variation of a path is the sum over its fine steps and over the species of |mean m_i x delta ln gamma_i|",
        "Concrete_PZ.dat is an add-on: it is read on top of pitzer.dat as its header prescribes",
    ]
    drv.exe("rel")                      # (re)build outside the tier's deadline
    pool = core.Pool()
    dl = core.Deadline(170 if tier == "quick" else 1700)
    skipped, used = {}, []
    # ---- part IA
    for name in (IA_DBS_QUICK if tier == "quick" else IA_DBS_ALL):
        try:
            inf = info(name)
            if inf.model in ("pitzer", "sit"):
                raise phrq_db.DbError("%s is a %s database" % (name, inf.model))
            if not ia_background(inf):
                raise phrq_db.DbError("%s: no NaCl / KCl background electrolyte available" % name)
        except phrq_db.DbError as ex:
            skipped[name] = str(ex)[:200]
            continue
        used.append(name)
        cs, nsets, nspecies, temps = ia_cases(inf)
        nbg = len(ia_background(inf))
        n0, nc0, j0 = ev.traces, ev.not_completed, _stats["judged"]
        done = False
        if not dl.passed():
            done = explore(cs, ev, findings, pool, dl, 8)
        nrun = ev.traces - n0
        ev.bound("IA %s: %d species in %d maximal element sets x %d ionic-strength points (NaCl %s; CaCl2 %s) x T %s" % (
            name, nspecies, nsets, nbg, IA_NACL, IA_CACL2, temps), done, cases=len(cs), lattice_points=len(cs) * nbg,
            completed_runs=(nrun - (ev.not_completed - nc0)) * nbg, not_completed_runs=(ev.not_completed - nc0) * nbg,
            species_x_solutions_judged=_stats["judged"] - j0, species_judged=len(_stats["present"].get(name, ())),
            species_never_present=sorted(set(x.name for x in inf.table if x.kind is not None) - _stats["present"].get(name, set()))[:12])
        if done and nrun and (ev.not_completed - nc0) > 0.5 * nrun:
            raise SystemExit("HARNESS ERROR: IA %s: %d of %d runs did not complete - the lattice is broken, not the property" % (
                name, ev.not_completed - nc0, nrun))
        if done and len(_stats["present"].get(name, ())) < 0.9 * nspecies:
            raise SystemExit("HARNESS ERROR: IA %s: only %d of %d species were ever present in a solution" % (name, len(_stats["present"].get(name, ())), nspecies))
    # ---- part GD
    for name in GD_DBS:
        try:
            inf = info(name)
        except phrq_db.DbError as ex:
            skipped[name] = str(ex)[:200]
            continue
        used.append(name)
        cs, npaths, K = gd_cases(inf, tier)
        n0, nc0, t0, s0, u0 = ev.traces, ev.not_completed, ev.transitions, _stats["segments"], _stats["unresolved"]
        done = False
        if not dl.passed():
            done = explore(cs, ev, findings, pool, dl, 1)
        nrun = ev.traces - n0
        ev.bound("GD %s: %d composition paths (%s) x T %s; dilution %s..%s mol/kgw in %d geometric steps of %.5f, %d segments of %d steps; mixing x = 0.0025..0.9975 "
                 "in %d steps, %d segments" % (
                     name, npaths, "single salts, binary mixtures at fixed ratio, mixing at fixed total", GD_T[name], M_LO, M_HI, DIL_SEGS * K,
                     (M_HI / M_LO) ** (1.0 / (DIL_SEGS * K)), DIL_SEGS, K, MIX_SEGS * K, MIX_SEGS), done, cases=len(cs), lattice_points=ev.transitions - t0,
            completed_paths=nrun - (ev.not_completed - nc0), not_completed_paths=ev.not_completed - nc0,
            path_prefixes_judged=_stats["segments"] - s0 - (_stats["unresolved"] - u0), path_prefixes_unresolved=_stats["unresolved"] - u0,
            worst_gibbs_duhem_relative_residual=_stats["worst_gd"].get(name), worst_single_segment_relative_residual=_stats["worst_local"].get(name),
            worst_water_activity_relative_difference=_stats["worst_aw"].get(name))
        if done and nrun and (ev.not_completed - nc0) > 0.5 * nrun:
            raise SystemExit("HARNESS ERROR: GD %s: %d of %d path chunks did not complete" % (name, ev.not_completed - nc0, nrun))
        if done and _stats["unresolved"] - u0 > 0.02 * max(1, _stats["segments"] - s0):
            raise SystemExit("HARNESS ERROR: GD %s: %d of %d segments have an unresolved quadrature" % (name, _stats["unresolved"] - u0, _stats["segments"] - s0))
    ev.extra["databases_checked"] = used
    ev.extra["databases_skipped"] = skipped
    ev.extra["not_completed_reasons"] = dict(sorted(_stats["nc"].items(), key=lambda kv: -kv[1])[:12])
    ev.extra["relations_checked"] = _stats["relations"]
    ev.extra["calibration_notes"] = [
        "Gibbs-Duhem, pitzer.dat / Concrete_PZ.dat: the residual is not rounding noise but a systematic term (4I/b) ln(1+b sqrt I) dA_phi: the program evaluates "
        "the density of pure water - and with it A_phi (BASIC APHI; also DH_A) - at P - p_sat(T) a_w, so A_phi drifts with the water activity along a path "
        "(0.46057334 -> 0.46057534 from 0.5 to 5 m NaCl at 100 C).  Size: <= 3e-5 of the total variation on every path from the dilute end (this check), "
        "up to 7e-5 on a single factor-1.84 segment and 4.7e-4 on a factor-1.08 segment that contains the gamma+- minimum of KCl at 100 C, where the "
        "total variation itself vanishes.  Below the statement's tolerance; recorded, not a violation.  ColdChem.dat (A_phi given with -APHI) and sit.dat "
        "show 1e-10.",
        "water activity: the implementation uses 55.50837 mol/kg, the oracle 1/0.01801528 = 55.50844: relative difference of a_w <= 1.6e-6 up to 6 m.",
        "ion association: 0 mismatches in all species x solutions of the non-LLNL databases; LLNL-type databases: species without -llnl_gamma get log gamma "
        "without any Debye-Hueckel term (the Debye-Hueckel A, B of the dielectric model are never computed when LLNL arrays are present) - llnl.dat: Hf+4, Pm+3, "
        "Cyanide-, Thiocyanate-",
    ]
    ev.extra["samples_gibbs_duhem"] = _stats["gd_samples"]
    ev.extra["tolerances"] = {"log_gamma": TOL_LG, "gibbs_duhem_relative": TOL_GD, "water_activity_relative": TOL_AW}
    ev.extra["species_left_out"] = {n: len(info(n).skipped) for n in used if info(n).skipped}
    done_traces = ev.traces - ev.not_completed
    if len(ev.outcomes) < 0.5 * max(1, done_traces):
        raise SystemExit("HARNESS ERROR: only %d distinct outcomes in %d completed cases" % (len(ev.outcomes), done_traces))
    if not used:
        raise SystemExit("HARNESS ERROR: no database could be read")
    pool.close()
    return core.finish(ev, findings)


def replay(path):
    return core.replay_main(PROP, path, run_case)
